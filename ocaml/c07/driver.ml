(* C07 model driver.  One request per line:
     fv <sexp>        dependency tables of every record literal of the term (model of free_vars.rs),
                      same canonical text as harness/src/bin/c07fv.rs
     fvbug <sexp>     the same with the pre-fix analysis (TypeF::Enum skipped)
     hist (<fuel> <step>...)   an override history on the mechanism model I configured as the Rust code
                               is (closurize.rs wraps the thunk of a dynamically named field),
     histf (...)               ... configured as the Rust code with the proposed patch,
     histu / histfu (...)      ... with hook H4 (all dependencies unknown),
                      and on the specification S; output `<I fields>\t<S fields>`
   Only parsing and printing happen here. *)

type sx = A of string | L of sx list

let parse_sx (s : string) : sx =
  let n = String.length s in
  let pos = ref 0 in
  let rec skip () = if !pos < n && (s.[!pos] = ' ' || s.[!pos] = '\t') then (incr pos; skip ()) in
  let rec item () =
    skip ();
    if !pos >= n then failwith "eof"
    else if s.[!pos] = '(' then begin
      incr pos;
      let acc = ref [] in
      let rec loop () =
        skip ();
        if !pos >= n then failwith "unclosed"
        else if s.[!pos] = ')' then incr pos
        else (acc := item () :: !acc; loop ()) in
      loop ();
      L (List.rev !acc)
    end else begin
      let st = !pos in
      while !pos < n && s.[!pos] <> ' ' && s.[!pos] <> '(' && s.[!pos] <> ')' && s.[!pos] <> '\t' do incr pos done;
      A (String.sub s st (!pos - st))
    end in
  item ()

(* ------------------------------------------------------------------ part A *)
module F = C07_fv

let rec pos_of_int (n : int) : F.positive =
  if n = 1 then F.XH else if n land 1 = 0 then F.XO (pos_of_int (n lsr 1)) else F.XI (pos_of_int (n lsr 1))
let n_of_int (n : int) : F.n = if n = 0 then F.N0 else F.Npos (pos_of_int n)
let rec int_of_pos = function F.XH -> 1 | F.XO p -> 2 * int_of_pos p | F.XI p -> 2 * int_of_pos p + 1
let int_of_n = function F.N0 -> 0 | F.Npos p -> int_of_pos p

let num = function A s -> n_of_int (int_of_string s) | _ -> failwith "num"

let rec tm_of (x : sx) : F.tm =
  match x with
  | L [A "v"; n] -> F.Var (num n)
  | L [A "k"] -> F.Leaf
  | L [A "fun"; n; b] -> F.Fun (num n, tm_of b)
  | L [A "let"; L bs; b] -> F.Let (false, List.map bind_of bs, tm_of b)
  | L [A "letrec"; L bs; b] -> F.Let (true, List.map bind_of bs, tm_of b)
  | L [A "app"; f; a] -> F.App (tm_of f, tm_of a)
  | L [A "op1"; a] -> F.Op1 (tm_of a)
  | L [A "op2"; a; b] -> F.Op2 (tm_of a, tm_of b)
  | L (A "opn" :: args) -> F.OpN (List.map tm_of args)
  | L (A "arr" :: es) -> F.Arr (List.map tm_of es)
  | L [A "enum"; A "_"] -> F.EnumV None
  | L [A "enum"; a] -> F.EnumV (Some (tm_of a))
  | L (A "chunks" :: cs) -> F.Chunks (List.map (function A "_" -> None | e -> Some (tm_of e)) cs)
  | L [A "ann"; L ts; e] -> F.Annot (List.map ty_of ts, tm_of e)
  | L [A "sealed"; e] -> F.Sealed (tm_of e)
  | L [A "clos"; e] -> F.Closurize (tm_of e)
  | L (A "recval" :: fs) -> F.RecVal (List.map nfield_of fs)
  | L [A "rec"; L stat; L incl; L dyn] ->
      F.RecRec (List.map nfield_of stat,
                List.map (function L [n; L ts] -> (num n, List.map ty_of ts) | _ -> failwith "incl") incl,
                List.map (function L [n; f] -> (tm_of n, field_of f) | _ -> failwith "dyn") dyn)
  | L [A "ctr"; e] -> F.CustomCtr (tm_of e)
  | L [A "type"; t; c] -> F.TypeV (ty_of t, tm_of c)
  | _ -> failwith "tm"
and bind_of = function L [n; e] -> (num n, tm_of e) | _ -> failwith "bind"
and nfield_of = function L [n; f] -> (num n, field_of f) | _ -> failwith "nfield"
and field_of = function
  | L [A "f"; L anns; A "_"] -> F.Fld (List.map ty_of anns, None)
  | L [A "f"; L anns; v] -> F.Fld (List.map ty_of anns, Some (tm_of v))
  | _ -> failwith "field"
and ty_of (x : sx) : F.ty =
  match x with
  | L [A "a"] -> F.TAtom
  | L [A "tv"; n] -> F.TVar (num n)
  | L [A "all"; n; t] -> F.TForall (num n, ty_of t)
  | L [A "dict"; t] -> F.TDict (ty_of t)
  | L [A "array"; t] -> F.TArray (ty_of t)
  | L [A "arrow"; a; b] -> F.TArrow (ty_of a, ty_of b)
  | L [A "trec"; r] -> F.TRecord (rrows_of r)
  | L [A "tenum"; e] -> F.TEnum (erows_of e)
  | L [A "tc"; t] -> F.TContract (tm_of t)
  | _ -> failwith "ty"
and rrows_of = function
  | L [A "re"] -> F.RREmpty
  | L [A "rd"] -> F.RRDyn
  | L [A "rv"; n] -> F.RRVar (num n)
  | L [A "rx"; n; t; tl] -> F.RRExt (num n, ty_of t, rrows_of tl)
  | _ -> failwith "rrows"
and erows_of = function
  | L [A "ee"] -> F.EREmpty
  | L [A "ev"; n] -> F.ERVar (num n)
  | L [A "ex"; n; A "_"; tl] -> F.ERExt (num n, None, erows_of tl)
  | L [A "ex"; n; t; tl] -> F.ERExt (num n, Some (ty_of t), erows_of tl)
  | _ -> failwith "erows"

let show_set (l : F.n list) =
  String.concat "," (List.map string_of_int (List.sort_uniq compare (List.map int_of_n l)))

let run_fv bug (x : sx) : string =
  let recs = F.all_deps bug (tm_of x) in
  let line (stat, dyn) =
    let stat = List.sort compare (List.map (fun (k, d) -> (int_of_n k, show_set d)) stat) in
    Printf.sprintf "s[%s]d[%s]"
      (String.concat " " (List.map (fun (k, s) -> Printf.sprintf "%d:%s" k s) stat))
      (String.concat " " (List.map show_set dyn)) in
  String.concat ";" (List.sort compare (List.map line recs))

(* ------------------------------------------------------------------ part B *)
module M = C07_mech

let rec mpos_of_int (n : int) : M.positive =
  if n = 1 then M.XH else if n land 1 = 0 then M.XO (mpos_of_int (n lsr 1)) else M.XI (mpos_of_int (n lsr 1))
let mn_of_int (n : int) : M.n = if n = 0 then M.N0 else M.Npos (mpos_of_int n)
let mz_of_int (n : int) : M.z = if n = 0 then M.Z0 else if n > 0 then M.Zpos (mpos_of_int n) else M.Zneg (mpos_of_int (- n))
let rec int_of_mpos = function M.XH -> 1 | M.XO p -> 2 * int_of_mpos p | M.XI p -> 2 * int_of_mpos p + 1
let int_of_mn = function M.N0 -> 0 | M.Npos p -> int_of_mpos p
(* numbers can outgrow 63 bits through repeated multiplication: print through arbitrary precision
   decimal strings built from the binary representation *)
let dec_double (s : string) (carry : int) : string =
  let n = String.length s in
  let b = Bytes.make n '0' in
  let c = ref carry in
  for i = n - 1 downto 0 do
    let d = (Char.code s.[i] - 48) * 2 + !c in
    Bytes.set b i (Char.chr (48 + d mod 10));
    c := d / 10
  done;
  (if !c > 0 then string_of_int !c else "") ^ Bytes.to_string b
let rec dec_of_mpos = function
  | M.XH -> "1"
  | M.XO p -> dec_double (dec_of_mpos p) 0
  | M.XI p -> dec_double (dec_of_mpos p) 1
let dec_of_mz = function M.Z0 -> "0" | M.Zpos p -> dec_of_mpos p | M.Zneg p -> "-" ^ dec_of_mpos p
let rec mnat_of_int n = if n <= 0 then M.O else M.S (mnat_of_int (n - 1))

let mnum = function A s -> mn_of_int (int_of_string s) | _ -> failwith "mnum"
let mint = function A s -> int_of_string s | _ -> failwith "mint"

let rec btm_of (x : sx) : M.tm =
  match x with
  | L [A "num"; z] -> M.Num (mz_of_int (mint z))
  | L [A "var"; k] -> M.Var (mnum k)
  | L [A "add"; a; b] -> M.Add (btm_of a, btm_of b)
  | L [A "mul"; a; b] -> M.Mul (btm_of a, btm_of b)
  | L [A "ifle"; a; b; t; e] -> M.IfLe (btm_of a, btm_of b, btm_of t, btm_of e)
  | _ -> failwith "btm"

let prio_of = function
  | A "b" -> M.PBot | A "n" -> M.PNeut | A "t" -> M.PTop
  | L [A "p"; z] -> M.PNum (mz_of_int (mint z))
  | _ -> failwith "prio"

let ctr_of = function
  | L [A "ge"; t] -> (M.CGe, btm_of t)
  | L [A "ne"; t] -> (M.CNe, btm_of t)
  | _ -> failwith "ctr"

(* a field of a nested literal: (k prio body|_ ctr...) or (dyn k prio body|_ ctr...) *)
let fdef0_of dyn = function
  | k :: p :: A "_" :: cs -> (mnum k, { M.f0prio = prio_of p; M.f0body = None; M.f0dyn = dyn; M.f0ctrs = List.map ctr_of cs })
  | k :: p :: b :: cs -> (mnum k, { M.f0prio = prio_of p; M.f0body = Some (btm_of b); M.f0dyn = dyn; M.f0ctrs = List.map ctr_of cs })
  | _ -> failwith "fdef0"

let ilit_of fs = List.map (function
  | L (A "dyn" :: rest) -> fdef0_of true rest
  | L rest -> fdef0_of false rest
  | _ -> failwith "fdef0") fs

(* the definition of a field of a top-level literal: an expression or (sub <field>...) *)
let src_of = function
  | L (A "sub" :: fs) -> M.SSub (ilit_of fs)
  | t -> M.STm (btm_of t)

let fdef_of dyn = function
  | k :: p :: A "_" :: cs -> (mnum k, { M.fprio = prio_of p; M.fbody = None; M.fdyn = dyn; M.fctrs = List.map ctr_of cs })
  | k :: p :: b :: cs -> (mnum k, { M.fprio = prio_of p; M.fbody = Some (src_of b); M.fdyn = dyn; M.fctrs = List.map ctr_of cs })
  | _ -> failwith "fdef"

let step_of = function
  | L (A "lit" :: fs) ->
      M.SLit (List.map (function
        | L (A "dyn" :: rest) -> fdef_of true rest
        | L rest -> fdef_of false rest
        | _ -> failwith "fdef") fs)
  | L [A "merge"; i; j] -> M.SMerge (mnat_of_int (mint i), mnat_of_int (mint j))
  | _ -> failwith "step"

let show_out = function
  | M.Ok z -> "#" ^ dec_of_mz z
  | M.Err M.UnboundId -> "E:UnboundId"
  | M.Err M.FieldMissing -> "E:FieldMissing"
  | M.Err M.MissingDef -> "E:MissingDef"
  | M.Err M.NonMergeable -> "E:NonMergeable"
  | M.Err M.Blame -> "E:Blame"
  | M.Err M.TypeErr -> "E:TypeErr"
  | M.IsRec -> "REC"
  | M.Opaque -> "OPAQUE"
  | M.OutOfFuel -> "FUEL"
  | M.Panic -> "PANIC"

let show_fields (fs : (int * string) list) =
  "{" ^ String.concat "," (List.map (fun (k, o) -> Printf.sprintf "%d=%s" k o) (List.sort compare fs)) ^ "}"

(* The evaluators are not memoising: on a cyclic record their cost is exponential in the fuel.
   A chain of references through distinct fields of a record with n fields needs fuel n, so the
   request carries the fuel (number of field names + 2): running out of it means a cycle. *)
let run_hist cfg (x : sx) : string =
  let fuel, x = match x with L (A f :: rest) -> (mnat_of_int (int_of_string f), L rest) | _ -> failwith "hist fuel" in
  let h = match x with L steps -> List.map step_of steps | _ -> failwith "hist" in
  let (st, slots) = M.irun cfg h in
  (* a record-valued field: read into it (the inner instance / the inner S-record) *)
  let i_field r (k, o) =
    match o with
    | M.IsRec ->
        (match M.inst cfg fuel st r k with
         | Some (st', ri) -> (int_of_mn k, show_fields (List.map (fun (p, o) -> (int_of_mn p, show_out o)) (M.ifields fuel st' ri)))
         | None -> (int_of_mn k, "RECFAIL"))
    | o -> (int_of_mn k, show_out o) in
  let i_out = List.map (function
    | M.Rid r -> show_fields (List.map (i_field r) (M.ifields fuel st r))
    | M.BadRef -> "BAD" | M.Panicked -> "PANIC") slots in
  let s_field rr k =
    match M.sfield fuel rr k with
    | M.IsRec ->
        (match M.sinst fuel rr k with
         | Some ri -> (int_of_mn k, show_fields (List.map (fun p -> (int_of_mn p, show_out (M.sfield fuel ri p))) (M.skeys ri)))
         | None -> (int_of_mn k, "RECFAIL"))
    | o -> (int_of_mn k, show_out o) in
  let s_out = List.map (function
    | Some r -> show_fields (List.map (s_field r) (M.skeys r))
    | None -> "BAD") (M.srun h) in
  String.concat "|" i_out ^ "\t" ^ String.concat "|" s_out

let () =
  try
    while true do
      let line = input_line stdin in
      let out =
        try
          let i = try String.index line ' ' with Not_found -> String.length line in
          let mode = String.sub line 0 i in
          let rest = if i < String.length line then String.sub line (i + 1) (String.length line - i - 1) else "" in
          match mode with
          | "fv" -> run_fv false (parse_sx rest)
          | "fvbug" -> run_fv true (parse_sx rest)
          | "hist" -> run_hist M.cfg_current (parse_sx rest)
          | "histu" -> run_hist (M.with_unknown M.cfg_current) (parse_sx rest)
          | "histf" -> run_hist M.cfg_fixed (parse_sx rest)
          | "histfu" -> run_hist (M.with_unknown M.cfg_fixed) (parse_sx rest)
          | _ -> "BAD mode"
        with Failure m -> "BAD " ^ m | Stack_overflow -> "BAD stack"
      in
      print_string out; print_newline ()
    done
  with End_of_file -> ()
