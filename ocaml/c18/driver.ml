(* Reads one value-level history per line (same format as harness/src/bin/c18.rs, mode "hist"),
   runs the extracted model [step] of coq/Mem/Rc.v operation by operation and prints, per
   operation, `<out>|<observation of every root>`; at the end `leak=<n>`.
   argv[1] = "nohook": print reference counts as `?` (what the Rust side sees without hook H7). *)
open C18_model

let rec nat_of_int n = if n <= 0 then O else S (nat_of_int (n - 1))
let rec int_of_nat = function O -> 0 | S n -> 1 + int_of_nat n

let rec pos_of_int n = if n <= 1 then XH else if n land 1 = 0 then XO (pos_of_int (n lsr 1)) else XI (pos_of_int (n lsr 1))
let n_of_int n = if n <= 0 then N0 else Npos (pos_of_int n)
let rec int_of_pos = function XH -> 1 | XO p -> 2 * int_of_pos p | XI p -> 2 * int_of_pos p + 1
let int_of_n = function N0 -> 0 | Npos p -> int_of_pos p

let parse_slots s =
  if s = "" || s = "-" then [] else List.map (fun x -> nat_of_int (int_of_string x)) (String.split_on_char '.' s)
let parse_optslot s = if s = "" || s = "-" then None else Some (nat_of_int (int_of_string s))

let inl_of_int = function 0 -> INull | 1 -> ITrue | 2 -> IFalse | 3 -> IEmptyArray | _ -> IEmptyRecord

let tag_of_char = function
  | 'n' -> TNumber | 's' -> TString | 'f' -> TForeignId | 'k' -> TSealingKey
  | 'c' -> TCustomContract | 'y' -> TType | 'm' -> TTerm
  | 'a' -> TArray | 'r' -> TRecord | 'e' -> TEnumVariant | 'l' -> TLabel | 't' -> TThunk
  | c -> failwith (Printf.sprintf "bad tag %c" c)

let parse_mut s =
  match s.[0] with
  | 's' -> MutSet (n_of_int (int_of_string (String.sub s 1 (String.length s - 1))))
  | 'p' -> MutPush (nat_of_int (int_of_string (String.sub s 1 (String.length s - 1))))
  | 'o' -> MutPop
  | _ -> failwith ("bad mutation " ^ s)

let parse_op (s : string) : op =
  let kind = String.sub s 0 2 in
  let rest = if String.length s > 3 then String.sub s 3 (String.length s - 3) else "" in
  let args = String.split_on_char ':' rest in
  let a i = try List.nth args i with _ -> "" in
  let n i = nat_of_int (int_of_string (a i)) in
  let d i = n_of_int (int_of_string (a i)) in
  match kind with
  | "ni" -> ONewInl (inl_of_int (int_of_string (a 0)))
  | "nd" -> ONewData (tag_of_char (a 0).[0], d 1)
  | "na" -> ONewArr (d 0, parse_slots (a 1))
  | "nr" -> ONewRec (d 0, parse_slots (a 1))
  | "ne" -> ONewEnum (d 0, parse_optslot (a 1))
  | "nw" -> ONewWrap (tag_of_char (a 0).[0], n 1)
  | "nl" -> ONewLabel (d 0, parse_optslot (a 1))
  | "nt" -> ONewThunk (n 0, parse_slots (a 1))
  | "nv" -> ONewRev (n 0)
  | "cl" -> OClone (n 0) | "dr" -> ODrop (n 0)
  | "it" -> OIntoThunk (n 0) | "iv" -> OIntoValue (n 0)
  | "mm" -> OMakeMut (n 0, parse_mut (a 1))
  | "cm" -> OContentMut (n 0, parse_mut (a 1))
  | "sc" -> OStrongClone (n 0) | "mu" -> OMakeUnique (n 0)
  | "lt" -> OLensTake (n 0) | "lr" -> OLensRestore (n 0)
  | "tg" -> OTGet (n 0) | "tf" -> OTMkFrame (n 0) | "tu" -> OTUpdate (n 0, n 1)
  | "tr" -> OTReset (n 0) | "tl" -> OTLock (n 0) | "tk" -> OTUnlock (n 0)
  | "tv" -> OTRevert (n 0) | "tb" -> OTBuildCached (n 0, parse_slots (a 1))
  | "tc" -> OTIntoClosure (n 0) | "ts" -> OTSaturate (n 0) | "tm" -> OTMap (n 0)
  | _ -> failwith ("bad op " ^ s)

let tag_char = function
  | TNumber -> 'N' | TArray -> 'A' | TRecord -> 'R' | TString -> 'S' | TThunk -> 'T' | TTerm -> 'M'
  | TLabel -> 'L' | TEnumVariant -> 'E' | TForeignId -> 'F' | TSealingKey -> 'K'
  | TCustomContract -> 'C' | TType -> 'Y' | TVecLeaf -> 'v' | TRcClosure -> 'o' | TEnvMap -> 'h'

let state_char = function Suspended -> 'S' | Blackholed -> 'B' | Evaluated -> 'E'

let show_shape = function
  | SData d -> string_of_int (int_of_n d)
  | SStd (s, l) -> Printf.sprintf "s%c%c" (state_char s) (if l then 'l' else 'u')
  | SRev (s, l, c) -> Printf.sprintf "r%c%c%c" (state_char s) (if l then 'l' else 'u') (if c then 'c' else 'n')

let show_inl = function
  | INull -> "null" | ITrue -> "true" | IFalse -> "false" | IEmptyArray -> "[]" | IEmptyRecord -> "{}"

let nohook = ref false

let rec show_tree buf = function
  | RInl i -> Buffer.add_string buf (show_inl i)
  | RCut -> Buffer.add_string buf ".."
  | RFreed -> Buffer.add_string buf "!FREED"
  | RNode (t, sh, rc, kids) ->
      Buffer.add_char buf (tag_char t);
      Buffer.add_string buf (show_shape sh);
      Buffer.add_char buf '#';
      Buffer.add_string buf (if !nohook then "?" else string_of_int (int_of_n rc));
      Buffer.add_char buf '(';
      List.iteri (fun i k -> if i > 0 then Buffer.add_char buf ','; show_tree buf k) kids;
      Buffer.add_char buf ')'

let uniq_mark = function
  | RNode (TThunk, _, _, _) -> '?'
  | RNode (_, _, rc, _) -> if int_of_n rc = 1 then '1' else '+'
  | _ -> '?'

let show_out = function OSkip -> "k" | ODone -> "d" | OBool true -> "T" | OBool false -> "F" | OPanic -> "P"

let depth = nat_of_int 6

let show_obs buf st =
  List.iteri (fun i o ->
    if i > 0 then Buffer.add_char buf ' ';
    match o with
    | None -> Buffer.add_char buf '-'
    | Some (k, t) ->
        Buffer.add_char buf (match k with KValue -> 'v' | KThunk -> 't' | KRc -> 'r');
        Buffer.add_char buf (uniq_mark t);
        show_tree buf t) (observe depth st)

let kind_of_int = function
  | 0 -> IEq | 1 -> IArg | 2 -> ITrackedArg | 3 -> IUpdateIndex | 4 -> IOp1Cont | 5 -> IOp2FirstCont
  | 6 -> IOp2SecondCont | 7 -> IOpNCont | 8 -> IStrChunk | _ -> IStrAcc

let sop_of_int n =
  if n < 10 then Some (SPush (kind_of_int n))
  else if n < 20 then Some (SPop (kind_of_int (n - 10)))
  else match n with
    | 20 -> Some SPopArg | 21 -> Some SPopArgIdx | 22 -> Some SPeek | 23 -> Some SClearEqs
    | 24 -> Some SUnwind | 25 -> Some SDropTop | 26 -> Some SIsTopIdx | 27 -> Some SIsTopCont
    | _ -> None

(* mode "stack": one script per line (decimal bytes separated by `.`), model of Mem/Stack.v *)
let stack_mode () =
  try
    while true do
      let line = String.trim (input_line stdin) in
      let bytes = List.filter (fun s -> s <> "") (String.split_on_char '.' line) in
      let ops = List.filter_map (fun s -> sop_of_int (int_of_string s)) bytes in
      (match srun O ops [] with
       | SOk (tr, _) ->
           print_string (String.concat ";" (List.map (fun (c, ms) ->
             Printf.sprintf "%d:%s" (int_of_nat c)
               (String.concat "." (List.map (fun m -> string_of_int (int_of_nat (marker_num m))) ms))) tr))
       | SErr TypeConfusion -> print_string "!TypeConfusion"
       | SErr UnknownPairing -> print_string "!UnknownPairing"
       | SPanic -> print_string "!PanicEmptyRead");
      print_newline ()
    done
  with End_of_file -> ()

let () =
  if Array.length Sys.argv > 1 && Sys.argv.(1) = "stack" then (stack_mode (); exit 0);
  if Array.length Sys.argv > 1 && Sys.argv.(1) = "nohook" then nohook := true;
  try
    while true do
      let line = input_line stdin in
      let ops = List.filter (fun s -> s <> "") (String.split_on_char ',' (String.trim line)) in
      let buf = Buffer.create 4096 in
      let st = ref init in
      (try
        List.iter (fun s ->
          let o = parse_op s in
          match step mAX_REF_COUNT o !st with
          | Ok (x, st') ->
              st := st';
              Buffer.add_string buf (show_out x); Buffer.add_char buf '|';
              show_obs buf st'; Buffer.add_char buf ';'
          | Err e ->
              Buffer.add_string buf (match e with
                | UseAfterFree -> "!UseAfterFree" | DoubleFree -> "!DoubleFree" | CountUnderflow -> "!CountUnderflow"
                | CloneOfZero -> "!CloneOfZero" | UniqueAccessWhileShared -> "!UniqueAccessWhileShared"
                | BadThunkDecode -> "!BadThunkDecode" | Dangling -> "!Dangling" | OutOfFuel -> "!OutOfFuel");
              raise Exit
          | Overflow -> Buffer.add_string buf "!Overflow"; raise Exit) ops;
        Buffer.add_string buf (Printf.sprintf "leak=%d" (int_of_nat (leaked !st)))
      with Exit -> ());
      print_string (Buffer.contents buf); print_newline ()
    done
  with End_of_file -> ()
