(* Reads one case per line, runs the extracted C16 model, prints one result line per case in the
   format of harness/src/bin/nkeval.rs (numbers as exact rationals #p/q).
     N <sexpr>          numeric/boolean expression of Arith/Expr.v      -> OK <scalar> | ERR <class> | UNSPEC
     E <dv> <dv>        a == b on data (Arith/Eq.v)                     -> OK <bool> [flags]
     C <dv>             canonical tree of a data value                  -> OK <tree>
     X <xv> <xv>        a == b on extended values (Arith/EqX.v)         -> OK <bool> | ERR <class>  [norm]
   This file only parses and prints; everything that is decided is decided by extracted code. *)
open C16_model

(* ---------- decimal <-> extracted Z *)
let rec pos_of_int n = if n = 1 then XH else if n land 1 = 0 then XO (pos_of_int (n lsr 1)) else XI (pos_of_int (n lsr 1))
let z_of_int n = if n = 0 then Z0 else if n > 0 then Zpos (pos_of_int n) else Zneg (pos_of_int (- n))
let n_of_int n = if n = 0 then N0 else Npos (pos_of_int n)
let z10 = z_of_int 10

let z_of_string (s : string) : z =
  let neg = String.length s > 0 && s.[0] = '-' in
  let acc = ref Z0 in
  String.iteri (fun i c ->
    if i = 0 && (c = '-' || c = '+') then ()
    else if c >= '0' && c <= '9' then acc := Z.add (Z.mul !acc z10) (z_of_int (Char.code c - 48))
    else failwith ("bad integer " ^ s)) s;
  if neg then Z.opp !acc else !acc

let rec int_of_pos = function XH -> 1 | XO p -> 2 * int_of_pos p | XI p -> 2 * int_of_pos p + 1
let int_of_z = function Z0 -> 0 | Zpos p -> int_of_pos p | Zneg p -> - (int_of_pos p)

let z1e9 = z_of_int 1_000_000_000

let string_of_z (z : z) : string =
  let neg, a = (match z with Zneg p -> true, Zpos p | _ -> false, z) in
  if a = Z0 then "0" else begin
    let chunks = ref [] in
    let cur = ref a in
    while !cur <> Z0 do
      let (q, r) = Z.div_eucl !cur z1e9 in
      chunks := int_of_z r :: !chunks;
      cur := q
    done;
    let b = Buffer.create 64 in
    if neg then Buffer.add_char b '-';
    (match !chunks with
     | [] -> ()
     | h :: t -> Buffer.add_string b (string_of_int h); List.iter (fun c -> Buffer.add_string b (Printf.sprintf "%09d" c)) t);
    Buffer.contents b
  end

let show_q (q : q) : string =
  let r = qred q in
  match r.qden with
  | XH -> "#" ^ string_of_z r.qnum
  | d -> "#" ^ string_of_z r.qnum ^ "/" ^ string_of_z (Zpos d)

(* ---------- s-expressions *)
type sx = A of string | L of sx list

let parse_sx (s : string) (pos : int ref) : sx =
  let n = String.length s in
  let rec skip () = if !pos < n && s.[!pos] = ' ' then (incr pos; skip ()) in
  let rec one () =
    skip ();
    if !pos >= n then failwith "eof in s-expression";
    if s.[!pos] = '(' then begin
      incr pos;
      let items = ref [] in
      let rec loop () =
        skip ();
        if !pos >= n then failwith "unclosed (";
        if s.[!pos] = ')' then incr pos else (items := one () :: !items; loop ()) in
      loop ();
      L (List.rev !items)
    end else begin
      let st = !pos in
      while !pos < n && s.[!pos] <> ' ' && s.[!pos] <> '(' && s.[!pos] <> ')' do incr pos done;
      A (String.sub s st (!pos - st))
    end in
  one ()

let digits (s : string) : n list =
  if s = "_" then [] else List.init (String.length s) (fun i -> n_of_int (Char.code s.[i] - 48))

let binop_of = function
  | "OAdd" -> OAdd | "OSub" -> OSub | "OMul" -> OMul | "ODiv" -> ODiv | "OMod" -> OMod | "OPow" -> OPow
  | "OLt" -> OLt | "OLe" -> OLe | "OGt" -> OGt | "OGe" -> OGe | "OEq" -> OEq | "ONe" -> ONe
  | "OAnd" -> OAnd | "OOr" -> OOr | s -> failwith ("bad binop " ^ s)

let rec expr_of (x : sx) : expr =
  match x with
  | L [A "lit"; A i; A f; A e] -> ELit { l_int = digits i; l_frac = digits f; l_exp = z_of_string e }
  | L [A "b"; A "true"] -> EBool true
  | L [A "b"; A "false"] -> EBool false
  | L [A "enum"; A t] -> EEnum t
  | L [A "str"; A t] -> EStr t
  | L [A "str"] -> EStr ""
  | L [A "var"; A v] -> EVar v
  | L [A "let"; A v; a; b] -> ELet (v, expr_of a, expr_of b)
  | L [A "if"; c; a; b] -> EIf (expr_of c, expr_of a, expr_of b)
  | L [A "bin"; A o; a; b] -> EBin (binop_of o, expr_of a, expr_of b)
  | L [A "neg"; a] -> ENeg (expr_of a)
  | L [A "not"; a] -> ENot (expr_of a)
  | L (A "call" :: A f :: args) -> ECall (f, List.map expr_of args)
  | _ -> failwith "bad expression"

let rec dv_of (x : sx) : dv =
  match x with
  | A "null" -> DNull
  | L [A "b"; A "true"] -> DBool true
  | L [A "b"; A "false"] -> DBool false
  | L [A "n"; A p; A q] ->
      (match z_of_string q with
       | Zpos d -> DNum { qnum = z_of_string p; qden = d }
       | _ -> failwith "bad denominator")
  | L [A "s"; A t] -> DStr t
  | L [A "s"] -> DStr ""
  | L [A "e"; A t] -> DEnum t
  | L [A "v"; A t; a] -> DVariant (t, dv_of a)
  | L (A "a" :: items) -> DArr (List.map dv_of items)
  | L (A "r" :: fields) ->
      DRec (List.map (function L [A k; v] -> (k, dv_of v) | _ -> failwith "bad field") fields)
  | _ -> failwith "bad data value"

let rec ctr_of (x : sx) : ctr =
  match x with
  | A "num" -> CNum | A "str" -> CStr | A "bool" -> CBool | A "dyn" -> CDyn
  | L [A "arr"; c] -> CArr (ctr_of c)
  | _ -> failwith "bad contract"

let ctrs_of = function
  | L (A "c" :: cs) -> List.map ctr_of cs
  | _ -> failwith "bad contract list"

let rec xv_of (x : sx) : xv =
  match x with
  | A "null" -> XNull
  | A "bot" -> XBot
  | L [A "b"; A "true"] -> XBool true
  | L [A "b"; A "false"] -> XBool false
  | L [A "n"; A p; A q] ->
      (match z_of_string q with
       | Zpos d -> XNum { qnum = z_of_string p; qden = d }
       | _ -> failwith "bad denominator")
  | L [A "s"; A t] -> XStr t
  | L [A "s"] -> XStr ""
  | L [A "e"; A t] -> XEnum t
  | L [A "v"; A t; a] -> XVariant (t, xv_of a)
  | L (A "a" :: cs :: items) -> XArr (ctrs_of cs, List.map xv_of items)
  | L (A "r" :: fields) ->
      XRec (List.map (function
        | L [A k; A o; cs; v] ->
            let opt = (match o with "opt" -> true | "req" -> false | _ -> failwith "bad optional flag") in
            let v = (match v with A "nodef" -> None | v -> Some (xv_of v)) in
            (k, ((opt, ctrs_of cs), v))
        | _ -> failwith "bad field") fields)
  | _ -> failwith "bad extended value"

let json_str (s : string) : string =
  let b = Buffer.create (String.length s + 2) in
  Buffer.add_char b '"';
  String.iter (fun c -> match c with
    | '"' -> Buffer.add_string b "\\\"" | '\\' -> Buffer.add_string b "\\\\"
    | c -> Buffer.add_char b c) s;
  Buffer.add_char b '"';
  Buffer.contents b

let err_class = function
  | DivByZero -> "DivByZero" | TypeErr -> "TypeErr" | UnboundId -> "UnboundId" | MissingDef -> "MissingDef"
  | Incomparable -> "Incomparable" | Blame -> "Blame" | OtherErr -> "OtherErr"

let show_val = function
  | VNum q -> show_q q
  | VBool b -> if b then "true" else "false"
  | VEnum t -> "'" ^ json_str t
  | VStr s -> json_str s

let rec show_tree = function
  | TNull -> "null"
  | TBool b -> if b then "true" else "false"
  | TNum (n, d) -> show_q { qnum = n; qden = d }
  | TStr s -> json_str s
  | TEnum t -> "'" ^ json_str t
  | TVariant (t, a) -> "('" ^ json_str t ^ " " ^ show_tree a ^ ")"
  | TArr l -> "[" ^ String.concat "," (List.map show_tree l) ^ "]"
  | TObj fs -> "{" ^ String.concat "," (List.map (fun (k, v) -> json_str k ^ ":" ^ show_tree v) fs) ^ "}"

let show_res = function
  | Ok v -> "OK " ^ show_val v
  | Err e -> "ERR " ^ err_class e
  | Unspec -> "UNSPEC"

let handle (line : string) : string =
  let n = String.length line in
  if n < 2 then "BAD empty" else
  let pos = ref 2 in
  match line.[0] with
  | 'N' -> show_res (eval_top std_number_table (expr_of (parse_sx line pos)))
  | 'E' ->
      let a = dv_of (parse_sx line pos) in
      let b = dv_of (parse_sx line pos) in
      let r = dv_eqb a b in
      let flags = Buffer.create 16 in
      (match eq_machine a b with
       | Some m when m = r -> ()
       | Some _ -> Buffer.add_string flags " !STACK"
       | None -> Buffer.add_string flags " !FUEL");
      if wf a && wf b then begin
        if (canon a = canon b) <> r then Buffer.add_string flags " !CANON"
      end else Buffer.add_string flags " !WF";
      "OK " ^ (if r then "true" else "false") ^ Buffer.contents flags
  | 'C' -> "OK " ^ show_tree (canon (dv_of (parse_sx line pos)))
  | 'X' ->
      let a = xv_of (parse_sx line pos) in
      let b = xv_of (parse_sx line pos) in
      let r = (match xeq_machine a b with
        | Ok true -> "OK true" | Ok false -> "OK false" | Err e -> "ERR " ^ err_class e | Unspec -> "UNSPEC") in
      let flags = (match norm [] a, norm [] b with
        | Some da, Some db ->
            if xwf a && xwf b then (if r = (if dv_eqb da db then "OK true" else "OK false") then " norm" else " !NORM") else " !WF"
        | _, _ -> "") in
      r ^ flags
  | 'J' ->
      (match export (dv_of (parse_sx line pos)) with
       | Some t -> "OK " ^ show_tree t
       | None -> "ERR NotExportable")
  | _ -> "BAD kind"

let () =
  try
    while true do
      let line = input_line stdin in
      let out = try handle line with Failure m -> "BAD " ^ m | Not_found -> "BAD not_found" in
      print_string out; print_char '\n'
    done
  with End_of_file -> ()
