(* Reads one s-expression program per line, elaborates it in the data-merge algebra and prints the
   export in the format of harness nkeval: `OK <tree>` or `ERR <kinds>` (a |-separated set). *)
open Merge_model

type sx = A of string | L of sx list

let parse (s : string) : sx =
  let n = String.length s in
  let pos = ref 0 in
  let rec skip () = while !pos < n && s.[!pos] = ' ' do incr pos done in
  let rec item () =
    skip ();
    if s.[!pos] = '(' then begin
      incr pos;
      let items = ref [] in
      skip ();
      while s.[!pos] <> ')' do items := item () :: !items; skip () done;
      incr pos;
      L (List.rev !items)
    end else begin
      let st = !pos in
      while !pos < n && s.[!pos] <> ' ' && s.[!pos] <> ')' && s.[!pos] <> '(' do incr pos done;
      A (String.sub s st (!pos - st))
    end in
  item ()

let rec pos_of_int n = if n <= 1 then XH else if n land 1 = 0 then XO (pos_of_int (n lsr 1)) else XI (pos_of_int (n lsr 1))
let n_of_int n = if n = 0 then N0 else Npos (pos_of_int n)
let z_of_int n = if n = 0 then Z0 else if n > 0 then Zpos (pos_of_int n) else Zneg (pos_of_int (-n))
let rec int_of_pos = function XH -> 1 | XO p -> 2 * int_of_pos p | XI p -> 2 * int_of_pos p + 1
let int_of_n = function N0 -> 0 | Npos p -> int_of_pos p
let int_of_z = function Z0 -> 0 | Zpos p -> int_of_pos p | Zneg p -> - (int_of_pos p)

let ios = int_of_string

let atom_of = function
  | L [A "n"; A p; A q] -> Some (ANum (z_of_int (ios p), pos_of_int (ios q)))
  | L [A "s"; A k] -> Some (AStr (n_of_int (ios k)))
  | L [A "b"; A k] -> Some (ABool (k = "1"))
  | L [A "z"] -> Some ANull
  | L [A "t"; A k] -> Some (AEnum (n_of_int (ios k)))
  | _ -> None

let prio_of = function
  | A "d" -> SBot | A "x" -> SNeutral | A "F" -> STop
  | L [A "p"; A p; A q] -> SNum { qnum = z_of_int (ios p); qden = pos_of_int (ios q) }
  | _ -> failwith "prio"

let rec expr_of (x : sx) : expr =
  match atom_of x with
  | Some a -> EAtom a
  | None ->
    match x with
    | L [A "v"; A k; e] -> EVar (n_of_int (ios k), expr_of e)
    | L (A "a" :: es) -> EArr (List.map expr_of es)
    | L (A "r" :: fs) -> ERec (List.map field_of fs)
    | L [A "m"; a; b] -> EMerge (expr_of a, expr_of b)
    | _ -> failwith "expr"
and field_of = function
  | L [A "f"; A k; p; A o; A h; L cs; v] ->
      (((((n_of_int (ios k), prio_of p), o = "1"), h = "1"),
        List.map (function A c -> n_of_int (ios c) | _ -> failwith "cid") cs),
       (match v with A "_" -> None | e -> Some (expr_of e)))
  | _ -> failwith "field"

let sat (c : n) (j : j) : bool =
  match int_of_n c, j with
  | 0, JAtom (ANum _) -> true
  | 1, JAtom (AStr _) -> true
  | 2, JAtom (ABool _) -> true
  | 3, JAtom (ANum (p, _)) -> int_of_z p > 0
  | 4, JAtom (ANum (p, q)) -> int_of_pos q = 1 && (int_of_z p) mod 2 = 0
  | 5, JAtom (AStr s) -> int_of_n s <> 0
  | _, _ -> false

let key k = String.make 1 (Char.chr (97 + int_of_n k))

let show_atom = function
  | ANum (p, q) -> if int_of_pos q = 1 then Printf.sprintf "#%d" (int_of_z p) else Printf.sprintf "#%d/%d" (int_of_z p) (int_of_pos q)
  | AStr s -> let k = int_of_n s in if k = 0 then "\"\"" else Printf.sprintf "\"s%d\"" k
  | ABool b -> if b then "true" else "false"
  | ANull -> "null"
  | AEnum t -> Printf.sprintf "'\"T%d\"" (int_of_n t)

let rec show_j = function
  | JAtom a -> show_atom a
  | JArr es -> "[" ^ String.concat "," (List.map show_j es) ^ "]"
  | JObj fs -> "{" ^ String.concat "," (List.map (fun (k, v) -> Printf.sprintf "\"%s\":%s" (key k) (show_j v)) fs) ^ "}"

let show_err = function
  | ENonMergeable -> "NonMergeable" | EMissingDef -> "MissingDef" | EBlame -> "Blame"
  | ENotExportable -> "NotExportable" | EFuel -> "Fuel"

let () =
  try
    while true do
      let line = input_line stdin in
      (try
         if String.length line > 4 && String.sub line 0 4 = "cmp " then begin
           (* priority grid: `cmp <p1> <p2>` prints MergePriority::cmp as the model sees it, twice:
              on source priorities and on their canonical forms (must coincide, lemma pnorm_cmp) *)
           match parse ("(" ^ String.sub line 4 (String.length line - 4) ^ ")") with
           | L [a; b] ->
               let pa = prio_of a and pb = prio_of b in
               let show = function Eq -> "Eq" | Lt -> "Lt" | Gt -> "Gt" in
               print_string (show (pcmp_src pa pb) ^ " " ^ show (pcmp (pnorm pa) (pnorm pb)))
           | _ -> print_string "BAD cmp"
         end else
         let e = expr_of (parse line) in
         let d = elab e in
         (* the syntactic side condition of the theorems (wfE) and, redundantly, wf of the result *)
         let wfok = wfE e && wf d in
         (match export sat d with
          | Inl j -> print_string ((if wfok then "OK " else "OK!WF ") ^ show_j j)
          | Inr es -> print_string ((if wfok then "ERR " else "ERR!WF ") ^ String.concat "|" (List.sort compare (List.map show_err es))))
       with Failure m -> print_string ("BAD " ^ m));
      print_newline ()
    done
  with End_of_file -> ()
