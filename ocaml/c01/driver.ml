(* Reads one program of the typed fragment per line (s-expression, see checks/c01_frag.py), runs the
   extracted evaluator [run] and prints the canonical outcome in the format of the Rust harness:
   OK <tree> | ERR <class> [typed|untyped]. *)
open C01_model

type sexp = A of string | S of string | L of sexp list

let parse (s : string) : sexp =
  let n = String.length s in
  let pos = ref 0 in
  let rec skip () = if !pos < n && (s.[!pos] = ' ' || s.[!pos] = '\t') then (incr pos; skip ()) in
  let rec one () =
    skip ();
    if !pos >= n then failwith "eof"
    else if s.[!pos] = '(' then begin
      incr pos;
      let items = ref [] in
      let rec loop () =
        skip ();
        if !pos >= n then failwith "unclosed"
        else if s.[!pos] = ')' then incr pos
        else (items := one () :: !items; loop ()) in
      loop (); L (List.rev !items)
    end else if s.[!pos] = '"' then begin
      let b = Buffer.create 16 in
      incr pos;
      while s.[!pos] <> '"' do
        if s.[!pos] = '\\' then (Buffer.add_char b s.[!pos + 1]; pos := !pos + 2)
        else (Buffer.add_char b s.[!pos]; incr pos)
      done;
      incr pos; S (Buffer.contents b)
    end else begin
      let st = !pos in
      while !pos < n && s.[!pos] <> ' ' && s.[!pos] <> '(' && s.[!pos] <> ')' do incr pos done;
      A (String.sub s st (!pos - st))
    end in
  one ()

let rec nat_of_int n = if n <= 0 then O else S (nat_of_int (n - 1))

let rec pos_of_int (n : int) : positive =
  if n <= 1 then XH else if n land 1 = 0 then XO (pos_of_int (n lsr 1)) else XI (pos_of_int (n lsr 1))

let z_of_int (n : int) : z = if n = 0 then Z0 else if n > 0 then Zpos (pos_of_int n) else Zneg (pos_of_int (- n))

(* decimal printing of arbitrary-size positives (no bignum library) *)
let rec digits_of_pos (p : positive) : int list (* little endian decimal *) =
  let double_plus ds c =
    let rec go ds carry = match ds with
      | [] -> if carry = 0 then [] else [carry]
      | d :: r -> let v = 2 * d + carry in (v mod 10) :: go r (v / 10) in
    go ds c in
  match p with
  | XH -> [1]
  | XO q -> double_plus (digits_of_pos q) 0
  | XI q -> double_plus (digits_of_pos q) 1

let string_of_pos p = String.concat "" (List.rev_map string_of_int (digits_of_pos p))
let string_of_z = function Z0 -> "0" | Zpos p -> string_of_pos p | Zneg p -> "-" ^ string_of_pos p

let str = function S s -> s | A s -> s | _ -> failwith "string expected"

let rec ty_of (x : sexp) : ty =
  match x with
  | A "dyn" -> TDyn | A "num" -> TNum | A "str" -> TStr | A "bool" -> TBool
  | L [A "arr"; t] -> TArr (ty_of t)
  | L [A "fun"; a; b] -> TFun (ty_of a, ty_of b)
  | L (A "rec" :: fs) -> TRec (rows_of fs)
  | L [A "dict"; t] -> TDict (ty_of t)
  | L (A "enum" :: rows) -> TEnum (erows_of rows)
  | L [A "tvar"; A n] -> TVar (nat_of_int (int_of_string n))
  | L [A "forall"; t] -> TForall (ty_of t)
  | L [A "forallr"; t] -> TForallR (ty_of t)
  | _ -> failwith "bad type"
and rows_of = function
  | [] -> RNil
  | [L [A "rvar"; A n]] -> RVar (nat_of_int (int_of_string n))
  | L [f; t] :: r -> RCons (str f, ty_of t, rows_of r)
  | _ -> failwith "bad rows"
and erows_of = function
  | [] -> ENil
  | L [t; ty] :: r -> EArg (str t, ty_of ty, erows_of r)
  | (S _ as t) :: r -> EBare (str t, erows_of r)
  | _ -> failwith "bad enum rows"

let prim_of = function
  | "add" -> PAdd | "sub" -> PSub | "mul" -> PMul | "div" -> PDiv
  | "lt" -> PLt | "le" -> PLe | "gt" -> PGt | "ge" -> PGe | "not" -> PNot
  | "concat" -> PConcat | "strlen" -> PStrLen | "arrlen" -> PArrLen | "arrat" -> PArrAt
  | "arrcat" -> PArrCat | "arrmap" -> PArrMap | "eq" -> PEq
  | "recfields" -> PRecFields | "recvalues" -> PRecValues | "rechas" -> PRecHas | "recget" -> PRecGet
  | s -> failwith ("bad prim " ^ s)

let rec tm_of (x : sexp) : tm =
  match x with
  | L [A "var"; v] -> Var (str v)
  | L [A "num"; A p; A q] -> Num { qnum = z_of_int (int_of_string p); qden = pos_of_int (int_of_string q) }
  | L [A "str"; s] -> Str (str s)
  | L [A "bool"; A b] -> Bool (b = "true")
  | L [A "lam"; v; b] -> Lam (str v, tm_of b)
  | L [A "app"; f; a] -> App (tm_of f, tm_of a)
  | L [A "let"; v; e; b] -> Let (str v, tm_of e, tm_of b)
  | L [A "if"; c; t; e] -> If (tm_of c, tm_of t, tm_of e)
  | L (A "arr" :: es) -> Arr (List.map tm_of es)
  | L (A "rec" :: fs) -> Rec (List.map (function L [f; e] -> (str f, tm_of e) | _ -> failwith "bad field") fs)
  | L [A "proj"; e; f] -> Proj (tm_of e, str f)
  | L [A "tag"; t] -> Tag (str t)
  | L [A "variant"; t; e] -> Variant (str t, tm_of e)
  | L [A "match"; e; L bs] -> Match (tm_of e, List.map branch_of bs, None)
  | L [A "match"; e; L bs; d] -> Match (tm_of e, List.map branch_of bs, Some (tm_of d))
  | L [A "prim"; A o] -> Prim (prim_of o)
  | L [A "annt"; e; t] -> AnnT (tm_of e, ty_of t)
  | L [A "untyped"; u] -> Untyped (tm_of u)
  | L [A "cast"; e; t] -> Cast (tm_of e, ty_of t)
  | _ -> failwith "bad term"
and branch_of = function
  | L [t; b] -> ((str t, None), tm_of b)
  | L [t; x; b] -> ((str t, Some (str x)), tm_of b)
  | _ -> failwith "bad branch"

let json_str (s : string) : string =
  let b = Buffer.create (String.length s + 2) in
  Buffer.add_char b '"';
  String.iter (fun c ->
    match c with
    | '"' -> Buffer.add_string b "\\\""
    | '\\' -> Buffer.add_string b "\\\\"
    | '\n' -> Buffer.add_string b "\\n"
    | c -> Buffer.add_char b c) s;
  Buffer.add_char b '"';
  Buffer.contents b

let show_q (q : q) : string =
  (* the evaluator keeps numbers reduced except literals: reduce here as well *)
  let q = qred q in
  match q.qden with
  | XH -> "#" ^ string_of_z q.qnum
  | d -> "#" ^ string_of_z q.qnum ^ "/" ^ string_of_pos d

let rec show (d : dval) : string =
  match d with
  | DNum q -> show_q q
  | DStr s -> json_str s
  | DBool b -> if b then "true" else "false"
  | DTag t -> "'" ^ json_str t
  | DArr l -> "[" ^ String.concat "," (List.map show l) ^ "]"
  | DRec l ->
      let l = List.sort compare (List.map (fun (f, v) -> (f, show v)) l) in
      "{" ^ String.concat "," (List.map (fun (f, v) -> json_str f ^ ":" ^ v) l) ^ "}"
  | DFun -> "<fun>"
  | DVariant (t, v) -> "('" ^ json_str t ^ " " ^ show v ^ ")"

let mode = function MTyped -> "typed" | MUntyped -> "untyped"

let show_err = function
  | ETypeErr m -> "TypeErr " ^ mode m
  | ENotAFunc m -> "NotAFunc " ^ mode m
  | EFieldMissing m -> "FieldMissing " ^ mode m
  | ENonExhaustive m -> "NonExhaustive " ^ mode m
  | EUnbound m -> "UnboundId " ^ mode m
  | EBlame -> "Blame+"
  | EDivByZero -> "DivByZero"
  | EIndex -> "Index"
  | EKeyMissing -> "KeyMissing"
  | EIncomparable -> "Incomparable"
  | EUnmodelled -> "Unmodelled"

let targ_of = function
  | L [A "ity"; t] -> ITy (ty_of t)
  | L (A "irow" :: rs) -> IRow (rows_of rs)
  | _ -> failwith "bad instantiation argument"

let kind_of = function A "r" -> true | A "t" -> false | _ -> failwith "bad quantifier kind"

let rec atm_of (x : sexp) : atm =
  match x with
  | L [A "avar"; v; L insts] -> AVar (str v, List.map targ_of insts)
  | L [A "anum"; A p; A q] -> ANum { qnum = z_of_int (int_of_string p); qden = pos_of_int (int_of_string q) }
  | L [A "astr"; s] -> AStr (str s)
  | L [A "abool"; A b] -> ABool (b = "true")
  | L [A "alam"; v; t; b] -> ALam (str v, ty_of t, atm_of b)
  | L [A "aapp"; f; a] -> AApp (atm_of f, atm_of a)
  | L [A "alet"; v; L ks; e; b] -> ALet (str v, List.map kind_of ks, atm_of e, atm_of b)
  | L [A "aif"; c; t; e] -> AIf (atm_of c, atm_of t, atm_of e)
  | L [A "aarr"; t; L es] -> AArr (ty_of t, List.map atm_of es)
  | L (A "arec" :: fs) -> ARec (List.map (function L [f; e] -> (str f, atm_of e) | _ -> failwith "bad field") fs)
  | L [A "aproj"; e; f] -> AProj (atm_of e, str f)
  | L [A "atag"; t; L rows] -> ATag (str t, erows_of rows)
  | L [A "avariant"; t; e; L rows] -> AVariant (str t, atm_of e, erows_of rows)
  | L [A "amatch"; e; t; L bs] -> AMatch (atm_of e, ty_of t, List.map abranch_of bs, None)
  | L [A "amatch"; e; t; L bs; d] -> AMatch (atm_of e, ty_of t, List.map abranch_of bs, Some (atm_of d))
  | L [A "aprim"; A o; L insts] -> APrim (prim_of o, List.map targ_of insts)
  | L [A "aannt"; e; t] -> AAnnT (atm_of e, ty_of t)
  | L [A "auntyped"; u] -> AUntyped (tm_of u)
  | L [A "acast"; e; t] -> ACast (atm_of e, ty_of t)
  | L [A "asub"; e; t] -> ASub (atm_of e, ty_of t)
  | _ -> failwith "bad certificate"
and abranch_of = function
  | L [t; b] -> ((str t, None), atm_of b)
  | L [t; x; b] -> ((str t, Some (str x)), atm_of b)
  | _ -> failwith "bad branch"

(* cert mode: <certificate> TAB <type> TAB <term>.  The certificate must be accepted by the extracted
   [check_deriv] at the type, and its erasure must be the very term the evaluator runs. *)
let cert_line (line : string) : string =
  match String.split_on_char '\t' line with
  | [c; t; m] ->
      let a = atm_of (parse c) in
      let ty = ty_of (parse t) in
      let tm = tm_of (parse m) in
      if erase a <> tm then "CERT erase-mismatch"
      else if check_deriv model_sig a ty then "CERT ok" else "CERT rejected"
  | _ -> "CERT bad-input"

let () =
  let cert = Array.length Sys.argv > 1 && Sys.argv.(1) = "cert" in
  let fuel = nat_of_int (if Array.length Sys.argv > 1 && not cert then int_of_string Sys.argv.(1) else 400) in
  try
    while true do
      let line = input_line stdin in
      let out =
        try
          if cert then cert_line line else
          match run fuel (tm_of (parse line)) with
          | Ok d -> "OK " ^ show d
          | Err e -> "ERR " ^ show_err e
          | OutOfFuel -> "ERR OutOfFuel"
        with Failure m -> "ERR BadInput " ^ m | Stack_overflow -> "ERR StackOverflow" in
      print_endline out
    done
  with End_of_file -> ()
