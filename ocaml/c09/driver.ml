(* One case per line:  <what> TAB <path> TAB <files-sexp> TAB <program-sexp>
   what = name | need | wrongcell | callerenv ; path = dot separated field path or empty.
   Prints `OK <tree>` / `ERR <class>` in the format of harness nkeval, `UNSUPPORTED` when the
   program uses a constructor outside the modelled fragment. *)
open C09_model

exception Unsupported

type sx = A of string | L of sx list

let parse (s : string) : sx =
  let n = String.length s in
  let pos = ref 0 in
  let rec skip () = if !pos < n && (s.[!pos] = ' ') then (incr pos; skip ()) in
  let rec item () =
    skip ();
    if !pos >= n then failwith "eof"
    else if s.[!pos] = '(' then begin
      incr pos;
      let items = ref [] in
      let rec loop () =
        skip ();
        if !pos >= n then failwith "unclosed"
        else if s.[!pos] = ')' then incr pos
        else (items := item () :: !items; loop ()) in
      loop ();
      L (List.rev !items)
    end else if s.[!pos] = '"' then begin
      let st = !pos + 1 in
      pos := st;
      while !pos < n && s.[!pos] <> '"' do incr pos done;
      let r = String.sub s st (!pos - st) in
      incr pos;
      A ("\"" ^ r)
    end else begin
      let st = !pos in
      while !pos < n && s.[!pos] <> ' ' && s.[!pos] <> '(' && s.[!pos] <> ')' do incr pos done;
      A (String.sub s st (!pos - st))
    end in
  item ()

let rec pos_of_int n = if n = 1 then XH else if n land 1 = 1 then XI (pos_of_int (n lsr 1)) else XO (pos_of_int (n lsr 1))
let z_of_int n = if n = 0 then Z0 else if n > 0 then Zpos (pos_of_int n) else Zneg (pos_of_int (-n))
let rec nat_of_int n = if n <= 0 then O else S (nat_of_int (n - 1))

(* decimal printing of positive without native overflow: little-endian digit lists *)
let dbl_add (ds : int list) (c : int) : int list =
  let rec go ds c = match ds with
    | [] -> if c = 0 then [] else [c]
    | d :: r -> let v = 2 * d + c in (v mod 10) :: go r (v / 10) in
  go ds c
let rec digits_of_pos = function
  | XH -> [1]
  | XO p -> dbl_add (digits_of_pos p) 0
  | XI p -> dbl_add (digits_of_pos p) 1
let string_of_pos p = String.concat "" (List.rev_map string_of_int (digits_of_pos p))
let string_of_z = function Z0 -> "0" | Zpos p -> string_of_pos p | Zneg p -> "-" ^ string_of_pos p

let binop = function
  | "add" -> Add | "sub" -> Sub | "mul" -> Mul | "lt" -> Lth | "cat" -> Cat
  | _ -> raise Unsupported

let rec tm_of (x : sx) : tm =
  match x with
  | L [A "var"; A v] -> Var v
  | L [A "lam"; A v; b] -> Lam (v, tm_of b)
  | L [A "app"; f; a] -> App (tm_of f, tm_of a)
  | L [A "let"; A v; e; b] -> Let (v, tm_of e, tm_of b)
  | L [A "letrec"; A v; e; b] -> LetRec (v, tm_of e, tm_of b)
  | L [A "num"; A k] -> Num (z_of_int (int_of_string k))
  | L [A "str"; A s] when String.length s > 0 && s.[0] = '"' -> Str (String.sub s 1 (String.length s - 1))
  | L [A "bool"; A "true"] -> Bool true
  | L [A "bool"; A "false"] -> Bool false
  | L [A "bin"; A o; a; b] -> Bin (binop o, tm_of a, tm_of b)
  | L [A "if"; c; t; e] -> If (tm_of c, tm_of t, tm_of e)
  | L (A "arr" :: es) -> Arr (List.map tm_of es)
  | L [A "at"; i; a] -> At (tm_of i, tm_of a)
  | L (A "rec" :: fs) -> Rec (List.map (function L [A f; e] -> (f, tm_of e) | _ -> raise Unsupported) fs)
  | L [A "get"; e; A f] -> Get (tm_of e, f)
  | L [A "seq"; a; b] -> Seq (tm_of a, tm_of b)
  | L [A "fail"] -> Fail
  | L [A "import"; A f] -> Import f
  | _ -> raise Unsupported

let files_of (x : sx) : (string * tm) list =
  match x with
  | L (A "files" :: fs) -> List.map (function L [A f; e] -> (f, tm_of e) | _ -> failwith "bad files") fs
  | _ -> failwith "bad files"

let jstr s = "\"" ^ s ^ "\""

let rec show (d : data) : string =
  match d with
  | DNum z -> "#" ^ string_of_z z
  | DStr s -> jstr s
  | DBool b -> if b then "true" else "false"
  | DFun -> "<fun>"
  | DArr ds -> "[" ^ String.concat "," (List.map show ds) ^ "]"
  | DRec fs ->
      let es = List.sort compare (List.map (fun (k, v) -> (k, show v)) fs) in
      "{" ^ String.concat "," (List.map (fun (k, v) -> jstr k ^ ":" ^ v) es) ^ "}"

let err_name = function
  | TypeErr -> "TypeErr" | NotAFunc -> "NotAFunc" | FieldMissing -> "FieldMissing" | Blame -> "Blame"
  | UnboundId -> "UnboundId" | InfiniteRec -> "InfiniteRec" | NotExportable -> "NotExportable"
  | ImportErr -> "Import" | QueryNonRecord -> "QueryNonRecord"

let show_out o = match check_exportable o with
  | Ok d -> "OK " ^ show d
  | Err e -> "ERR " ^ err_name e
  | OutOfFuel -> "ERR Budget"

let split_tab s = String.split_on_char '\t' s

let () =
  let fuel = nat_of_int (try int_of_string (Sys.getenv "C09_FUEL") with _ -> 400) in
  try
    while true do
      let line = input_line stdin in
      let out =
        try
          match split_tab line with
          | [what; path; fls; prog] ->
              let fl = files_of (parse fls) in
              let t = tm_of (parse prog) in
              let path = if path = "" then [] else String.split_on_char '.' path in
              (match what with
               | "name" -> show_out (if path = [] then run fl fuel [] t else extract fl fuel [] t path)
               | "need" | "wrongcell" | "callerenv" ->
                   let md = (match what with "need" -> Good | "wrongcell" -> WrongCell | _ -> CallerEnv) in
                   show_out (fst (if path = [] then runN fl md fuel t else extractN fl md fuel t path))
               | "acyclic" -> if acyclic t then "true" else "false"
               | _ -> "BADCASE")
          | _ -> "BADCASE"
        with Unsupported -> "UNSUPPORTED"
           | Stack_overflow -> "ERR Budget"
           | Failure m -> "BADCASE " ^ m in
      print_endline out
    done
  with End_of_file -> ()
