(* C03 model driver.  One case per stdin line:   <value> TAB <type>   (s-expressions, see the parse functions).
   For each case prints one line with tab-separated fields:
     m=<0|1>          the extracted specification  member T v
     fo=<0|1>         first_order T && wf_ty T && wf_dv v  (the case is inside the theorems' domain)
     <outcome>        the extracted model  check T v  in nkeval's format (OK <tree> | ERR <class>)
     <prog>...        Nickel programs: (v | T), let x | T = v in x, {f | T = v}.f, ((v | T) | T)
   The printers below are the only hand-written OCaml that matters: they turn the SAME (v, T) the
   model was run on into the text the real interpreter parses. *)
open C03_model

(* ---------------------------------------------------------------- numbers *)
let rec pos_of_int n = if n <= 1 then XH else if n land 1 = 0 then XO (pos_of_int (n lsr 1)) else XI (pos_of_int (n lsr 1))
let z_of_int n = if n = 0 then Z0 else if n > 0 then Zpos (pos_of_int n) else Zneg (pos_of_int (-n))
let rec int_of_pos = function XH -> 1 | XO p -> 2 * int_of_pos p | XI p -> 2 * int_of_pos p + 1
let int_of_z = function Z0 -> 0 | Zpos p -> int_of_pos p | Zneg p -> - (int_of_pos p)
let rec nat_of_int n = if n <= 0 then O else S (nat_of_int (n - 1))
let rec gcd a b = if b = 0 then abs a else gcd b (a mod b)

(* ---------------------------------------------------------------- s-expression reader *)
type sx = Atom of string | L of sx list

let tokenize (s : string) : string list =
  let toks = ref [] and buf = Buffer.create 16 in
  let flush () = if Buffer.length buf > 0 then (toks := Buffer.contents buf :: !toks; Buffer.clear buf) in
  String.iter (fun c ->
    match c with
    | '(' | ')' -> flush (); toks := String.make 1 c :: !toks
    | ' ' -> flush ()
    | c -> Buffer.add_char buf c) s;
  flush ();
  List.rev !toks

let parse_sx (s : string) : sx =
  let rec one = function
    | "(" :: rest -> let (items, rest) = many rest in (L items, rest)
    | ")" :: _ -> failwith "unexpected )"
    | a :: rest -> (Atom a, rest)
    | [] -> failwith "eof"
  and many = function
    | ")" :: rest -> ([], rest)
    | toks -> let (x, rest) = one toks in let (xs, rest) = many rest in (x :: xs, rest)
  in
  match one (tokenize s) with
  | (x, []) -> x
  | _ -> failwith "trailing tokens"

let unhex (s : string) : string =
  (* "x6162" -> "ab" *)
  if String.length s = 0 || s.[0] <> 'x' then failwith ("bad hex " ^ s);
  let n = (String.length s - 1) / 2 in
  String.init n (fun i -> Char.chr (int_of_string ("0x" ^ String.sub s (1 + 2 * i) 2)))

let rec parse_dv = function
  | L [Atom "n"; Atom a; Atom b] -> DNum (z_of_int (int_of_string a), pos_of_int (int_of_string b))
  | L [Atom "s"; Atom h] -> DStr (unhex h)
  | L [Atom "b"; Atom b] -> DBool (b = "1")
  | L [Atom "u"] -> DNull
  | L [Atom "e"; Atom h] -> DEnum (unhex h, None)
  | L [Atom "v"; Atom h; x] -> DEnum (unhex h, Some (parse_dv x))
  | L (Atom "a" :: xs) -> DArr (List.map parse_dv xs)
  | L (Atom "r" :: fs) -> DRec (List.map (function L [Atom k; x] -> (unhex k, parse_dv x) | _ -> failwith "field") fs)
  | _ -> failwith "bad value"

let rec parse_ty = function
  | Atom "Dyn" -> TDyn | Atom "Num" -> TNum | Atom "Str" -> TStr | Atom "Bool" -> TBool
  | L [Atom "arr"; t] -> TArr (parse_ty t)
  | L [Atom "fun"; a; b] -> TArrow (parse_ty a, parse_ty b)
  | L (Atom "rec" :: tail :: rows) ->
      let tail = match tail with
        | Atom "closed" -> RClosed | Atom "dyn" -> RDyn
        | L [Atom "var"; Atom x] -> RVar (unhex x) | _ -> failwith "rtail" in
      TRec (List.map (function L [Atom k; t] -> (unhex k, parse_ty t) | _ -> failwith "row") rows, tail)
  | L [Atom "dict"; Atom f; t] -> TDict ((if f = "c" then FContract else FType), parse_ty t)
  | L (Atom "enum" :: tail :: rows) ->
      let tail = match tail with
        | Atom "closed" -> EClosed | L [Atom "var"; Atom x] -> EVar (unhex x) | _ -> failwith "etail" in
      TEnum (List.map (function
               | L [Atom k] -> (unhex k, None)
               | L [Atom k; t] -> (unhex k, Some (parse_ty t))
               | _ -> failwith "erow") rows, tail)
  | L [Atom "all"; Atom x; k; t] ->
      let k = match k with
        | Atom "ty" -> KType | Atom "en" -> KEnumRows
        | L (Atom "rr" :: xs) -> KRecRows (List.map (function Atom h -> unhex h | _ -> failwith "excl") xs)
        | _ -> failwith "kind" in
      TForall (unhex x, k, parse_ty t)
  | L [Atom "tv"; Atom x] -> TVar (unhex x)
  | L [Atom "op"; Atom n] -> TOpaque (nat_of_int (int_of_string n))
  | _ -> failwith "bad type"

(* ---------------------------------------------------------------- printers: Nickel source *)
let keywords = ["if"; "then"; "else"; "let"; "in"; "fun"; "match"; "forall"; "import"; "rec"; "null";
                "true"; "false"; "or"; "as"; "include"; "Dyn"; "Number"; "String"; "Bool"; "Array"]

let is_simple_ident (s : string) : bool =
  String.length s > 0
  && (match s.[0] with 'a' .. 'z' | 'A' .. 'Z' -> true | _ -> false)
  && (let ok = ref true in
      String.iter (fun c -> match c with 'a' .. 'z' | 'A' .. 'Z' | '0' .. '9' | '_' -> () | _ -> ok := false) s; !ok)
  && not (List.mem s keywords)

let nickel_string (s : string) : string =
  let b = Buffer.create (String.length s + 2) in
  Buffer.add_char b '"';
  String.iter (fun c ->
    match c with
    | '"' -> Buffer.add_string b "\\\""
    | '\\' -> Buffer.add_string b "\\\\"
    | '%' -> Buffer.add_string b "\\%"
    | '\n' -> Buffer.add_string b "\\n"
    | '\t' -> Buffer.add_string b "\\t"
    | c -> Buffer.add_char b c) s;
  Buffer.add_char b '"';
  Buffer.contents b

let ident (s : string) : string = if is_simple_ident s then s else nickel_string s

let rec src_dv (v : dv) : string =
  match v with
  | DNum (n, d) ->
      let n = int_of_z n and d = int_of_pos d in
      let body = if d = 1 then string_of_int n else Printf.sprintf "%d/%d" n d in
      if n < 0 || d <> 1 then "(" ^ body ^ ")" else body
  | DStr s -> nickel_string s
  | DBool b -> if b then "true" else "false"
  | DNull -> "null"
  | DEnum (t, None) -> "'" ^ ident t
  | DEnum (t, Some a) -> "('" ^ ident t ^ " " ^ src_dv a ^ ")"
  | DArr es -> "[" ^ String.concat ", " (List.map src_dv es) ^ "]"
  | DRec [] -> "{}"
  | DRec fs -> "{ " ^ String.concat ", " (List.map (fun (k, x) -> ident k ^ " = " ^ src_dv x) fs) ^ " }"

let rec src_ty (t : ty) : string =
  match t with
  | TDyn -> "Dyn" | TNum -> "Number" | TStr -> "String" | TBool -> "Bool"
  | TArr t -> "Array " ^ atom_ty t
  | TArrow (a, b) -> atom_ty a ^ " -> " ^ (match b with TArrow _ -> src_ty b | _ -> atom_ty b)
  | TRec (rows, tail) ->
      let rows = String.concat ", " (List.map (fun (k, t) -> ident k ^ " : " ^ src_ty t) rows) in
      (match tail with
       | RClosed -> "{ " ^ rows ^ " }"
       | RDyn -> "{ " ^ rows ^ " ; Dyn }"
       | RVar x -> "{ " ^ rows ^ " ; " ^ x ^ " }")
  | TDict (FType, t) -> "{ _ : " ^ src_ty t ^ " }"
  | TDict (FContract, t) -> "{ _ | " ^ src_ty t ^ " }"
  | TEnum (rows, tail) ->
      let rows = String.concat ", " (List.map (fun (k, ot) ->
        match ot with None -> "'" ^ ident k | Some t -> "'" ^ ident k ^ " " ^ atom_ty t) rows) in
      (match tail with
       | EClosed -> "[| " ^ rows ^ " |]"
       | EVar x -> "[| " ^ rows ^ " ; " ^ x ^ " |]")
  | TForall (x, _, t) -> "forall " ^ x ^ ". " ^ src_ty t
  | TVar x -> x
  | TOpaque n -> "(std.contract.from_predicate (fun _ => true))"
and atom_ty t =
  match t with
  | TDyn | TNum | TStr | TBool | TRec _ | TEnum _ | TDict _ | TVar _ | TOpaque _ -> src_ty t
  | _ -> "(" ^ src_ty t ^ ")"

(* ---------------------------------------------------------------- printer: nkeval's result tree *)
let json_str (s : string) : string =
  let b = Buffer.create (String.length s + 2) in
  Buffer.add_char b '"';
  String.iter (fun c ->
    match c with
    | '"' -> Buffer.add_string b "\\\""
    | '\\' -> Buffer.add_string b "\\\\"
    | '\n' -> Buffer.add_string b "\\n"
    | '\t' -> Buffer.add_string b "\\t"
    | c when Char.code c < 0x20 -> Buffer.add_string b (Printf.sprintf "\\u%04x" (Char.code c))
    | c -> Buffer.add_char b c) s;
  Buffer.add_char b '"';
  Buffer.contents b

let rec tree_dv (v : dv) : string =
  match v with
  | DNum (n, d) ->
      let n = int_of_z n and d = int_of_pos d in
      let g = gcd n d in
      let g = if g = 0 then 1 else g in
      let n = n / g and d = d / g in
      if d = 1 then Printf.sprintf "#%d" n else Printf.sprintf "#%d/%d" n d
  | DStr s -> json_str s
  | DBool b -> if b then "true" else "false"
  | DNull -> "null"
  | DEnum (t, None) -> "'" ^ json_str t
  | DEnum (t, Some a) -> "('" ^ json_str t ^ " " ^ tree_dv a ^ ")"
  | DArr es -> "[" ^ String.concat "," (List.map tree_dv es) ^ "]"
  | DRec fs ->
      let fs = List.sort (fun (a, _) (b, _) -> compare a b) (List.map (fun (k, x) -> (k, tree_dv x)) fs) in
      "{" ^ String.concat "," (List.map (fun (k, x) -> json_str k ^ ":" ^ x) fs) ^ "}"

let show_pol = function Pos -> "+" | Neg -> "-"
let show_outcome = function
  | Ok v -> "OK " ^ tree_dv v
  | Err (Blame p) -> "ERR Blame" ^ show_pol p
  | Err UnboundTypeVar -> "ERR UnboundId"
  | Err FieldMissing -> "ERR FieldMissing"
  | Err OutOfFragment -> "ERR OutOfFragment"

let () =
  try
    while true do
      let line = input_line stdin in
      match String.split_on_char '\t' line with
      | [sv; st] ->
          let v = parse_dv (parse_sx sv) and t = parse_ty (parse_sx st) in
          let m = member t v in
          let dom = first_order t && wf_ty t && wf_dv v in
          let out = check t v in
          let sv = src_dv v and st = src_ty t in
          let progs = [
            Printf.sprintf "(%s) | %s" sv st;
            Printf.sprintf "let x | %s = %s in x" st sv;
            Printf.sprintf "{ f | %s = %s }.f" st sv;
            Printf.sprintf "((%s) | %s) | %s" sv st st ] in
          print_string (String.concat "\t" (
            [ (if m then "m=1" else "m=0"); (if dom then "fo=1" else "fo=0"); show_outcome out ] @ progs));
          print_newline ()
      | _ -> print_string "BADLINE"; print_newline ()
    done
  with End_of_file -> ()
