(* C08 model driver.  One case per stdin line:
     <mode> TAB <T> TAB <container> TAB <observer> [TAB <position>]
   (S-expressions, see checks/c08.py).  Modes:
     run    -> prints the model's prediction for `observe (container | T)`: `OK <tree>` / `ERR <class>`
     reach  -> prints `REACH true|false`: Spec.reaches for the given position (probe semantics)
   The driver only parses and prints; every decision is taken by the extracted Coq functions. *)
open C08_model

(* ---- conversions *)
let rec nat_of_int n = if n <= 0 then O else S (nat_of_int (n - 1))
let rec pos_of_int n = if n <= 1 then XH else if n land 1 = 1 then XI (pos_of_int (n lsr 1)) else XO (pos_of_int (n lsr 1))
let z_of_int n = if n = 0 then Z0 else if n > 0 then Zpos (pos_of_int n) else Zneg (pos_of_int (-n))
let rec int_of_pos = function XH -> 1 | XO p -> 2 * int_of_pos p | XI p -> 2 * int_of_pos p + 1
let int_of_z = function Z0 -> 0 | Zpos p -> int_of_pos p | Zneg p -> - (int_of_pos p)

(* ---- S-expressions *)
type sx = A of string | Str of string | L of sx list

let parse_sx (s : string) : sx =
  let n = String.length s in
  let pos = ref 0 in
  let rec skip () = if !pos < n && (s.[!pos] = ' ') then (incr pos; skip ()) in
  let rec one () =
    skip ();
    if !pos >= n then failwith "sx: eof";
    match s.[!pos] with
    | '(' ->
      incr pos;
      let items = ref [] in
      let rec loop () =
        skip ();
        if !pos >= n then failwith "sx: unclosed";
        if s.[!pos] = ')' then incr pos else (items := one () :: !items; loop ()) in
      loop ();
      L (List.rev !items)
    | '"' ->
      incr pos;
      let st = !pos in
      while !pos < n && s.[!pos] <> '"' do incr pos done;
      let r = String.sub s st (!pos - st) in
      incr pos; Str r
    | _ ->
      let st = !pos in
      while !pos < n && s.[!pos] <> ' ' && s.[!pos] <> '(' && s.[!pos] <> ')' do incr pos done;
      A (String.sub s st (!pos - st)) in
  one ()

let bad what sx =
  let rec show = function A a -> a | Str s -> "\"" ^ s ^ "\"" | L l -> "(" ^ String.concat " " (List.map show l) ^ ")" in
  failwith ("bad " ^ what ^ ": " ^ show sx)

let int_sx = function A a -> (try int_of_string a with _ -> failwith ("int: " ^ a)) | x -> bad "int" x
let str_sx = function Str s -> s | A a -> a | x -> bad "string" x

let atom_sx = function
  | A "fail" -> AFail
  | Str s -> AStr s
  | A a -> ANum (z_of_int (int_of_string a))
  | x -> bad "atom" x

let rec ctr_sx = function
  | A "dyn" -> CDyn | A "num" -> CNum | A "str" -> CStr
  | L [A "gt"; k] -> CGt (z_of_int (int_sx k))
  | L [A "arr"; c] -> CArr (ctr_sx c)
  | L [A "dictt"; c] -> CDictT (ctr_sx c)
  | L [A "dictc"; c] -> CDictC (ctr_sx c)
  | L [A "rect"; L names; c] -> CRecT (List.map str_sx names, ctr_sx c)
  | L [A "recc"; L names; c; A o] -> CRecC (List.map str_sx names, ctr_sx c, o = "open")
  | L [A "fun"; d; c] -> CFun (ctr_sx d, ctr_sx c)
  | x -> bad "ctr" x

let octr_sx = function A "none" -> None | x -> Some (ctr_sx x)

let lit_sx = function
  | L [A "larr"; L xs; c] -> LArr (List.map atom_sx xs, octr_sx c)
  | L [A "lrec"; L fs; c] ->
    LRec (List.map (function L [k; a] -> (str_sx k, atom_sx a) | x -> bad "field" x) fs, octr_sx c)
  | x -> bad "lit" x

let fun2_sx = function
  | A "add" -> F2Add | A "count" -> F2Count | A "fst" -> F2Fst | A "snd" -> F2Snd
  | L [A "sndadd"; k] -> F2SndAdd (z_of_int (int_sx k))
  | L [A "const"; k] -> F2Const (z_of_int (int_sx k))
  | x -> bad "fun2" x

let rec obs_sx = function
  | A "id" -> OId
  | L [A "const"; z] -> OConst (z_of_int (int_sx z))
  | L [A "constb"; A b] -> OConstB (b = "true")
  | L [A "consts"; s] -> OConstS (str_sx s)
  | L [A "addk"; z] -> OAddK (z_of_int (int_sx z))
  | L [A "gtk"; z] -> OGtK (z_of_int (int_sx z))
  | L [A "eqk"; z] -> OEqK (z_of_int (int_sx z))
  | L [A "comp"; a; b] -> OComp (obs_sx a, obs_sx b)
  | L [A "atp"; i] -> OAtP (nat_of_int (int_sx i))
  | L [A "at"; i] -> OAt (nat_of_int (int_sx i))
  | A "first" -> OFirst | A "last" -> OLast | A "length" -> OLength
  | L [A "map"; f] -> OMap (obs_sx f)
  | L [A "concatr"; l] -> OConcatR (lit_sx l)
  | L [A "concatl"; l] -> OConcatL (lit_sx l)
  | L [A "concatl_broken"; l] -> OConcatL_broken (lit_sx l)
  | L [A "concatl_prefix"; l] -> OConcatL_prefix (lit_sx l)
  | L [A "slice"; s; e] -> OSlice (nat_of_int (int_sx s), nat_of_int (int_sx e))
  | L [A "slicep"; s; e] -> OSliceP (nat_of_int (int_sx s), nat_of_int (int_sx e))
  | L [A "foldl"; f; z] -> OFoldL (fun2_sx f, z_of_int (int_sx z))
  | L [A "foldr"; f; z] -> OFoldR (fun2_sx f, z_of_int (int_sx z))
  | L [A "filter"; p] -> OFilter (obs_sx p)
  | L [A "any"; p] -> OAny (obs_sx p)
  | L [A "all"; p] -> OAll (obs_sx p)
  | L [A "elem"; z] -> OElem (z_of_int (int_sx z))
  | A "reverse" -> OReverse | A "flatten" -> OFlatten | A "sort" -> OSort
  | A "seq" -> OSeq | A "deepseq" -> ODeepSeq | A "serde" -> OSerde
  | L [A "eqr"; l] -> OEqR (lit_sx l)
  | L [A "eql"; l] -> OEqL (lit_sx l)
  | L [A "ctr"; c] -> OCtr (ctr_sx c)
  | L [A "eq2"; a; b] -> OEq2 (obs_sx a, obs_sx b)
  | L [A "concat2"; a; b] -> OConcat2 (obs_sx a, obs_sx b)
  | L [A "merge2"; a; b] -> OMerge2 (obs_sx a, obs_sx b)
  | L [A "elemof"; a] -> OElemOf (obs_sx a)
  | L [A "access"; k] -> OAccess (str_sx k)
  | L [A "get"; k] -> OGet (str_sx k)
  | A "fields" -> OFields | A "values" -> OValues | A "values_broken" -> OValues_broken
  | L [A "recmap"; f] -> ORecMap (fun2_sx f)
  | L [A "mapvalues"; f] -> OMapValues (obs_sx f)
  | A "freeze" -> OFreeze
  | L [A "insert"; k; z] -> OInsert (str_sx k, z_of_int (int_sx z))
  | L [A "remove"; k] -> ORemove (str_sx k)
  | L [A "hasfield"; k] -> OHasField (str_sx k)
  | A "toarray" -> OToArray
  | A "fromarray" -> OFromArray
  | A "pathead" -> OPatHead | A "pattail" -> OPatTail
  | L [A "patfield"; k] -> OPatField (str_sx k)
  | L [A "patrest"; k] -> OPatRest (str_sx k)
  | L [A "recfilter"; L [A "valgt"; k]] -> ORecFilter (P2ValGt (z_of_int (int_sx k)))
  | L [A "recfilter"; A "true"] -> ORecFilter P2True
  | L [A "recfilter"; L [A "nameeq"; s]] -> ORecFilter (P2NameEq (str_sx s))
  | L [A "merger"; l] -> OMergeR (lit_sx l)
  | L [A "mergel"; l] -> OMergeL (lit_sx l)
  | L [A "call"; a] -> OCall (atom_sx a)
  | x -> bad "obs" x

let rec tree_sx = function
  | L (A "l" :: xs) -> TL (List.map tree_sx xs)
  | L (A "r" :: fs) -> TR (List.map (function L [k; x] -> (str_sx k, tree_sx x) | x -> bad "tree field" x) fs)
  | x -> TA (atom_sx x)

let ctrs_sx = function L cs -> List.map ctr_sx cs | x -> bad "contract list" x

let fdef_sx = function
  | L [A "datom"; a] -> DAtom (atom_sx a)
  | L [A "dcomp"; a] -> DComp (atom_sx a)
  | L [A "ddep"; o; j] -> DDep (obs_sx o, str_sx j)
  | x -> bad "field definition" x

let container_sx = function
  | L (A "krecr" :: ds) -> KRecR (List.map (function L [k; d] -> (str_sx k, fdef_sx d) | x -> bad "field" x) ds)
  | L [A "ktree"; t] -> KTree (tree_sx t)
  | L (A "karr" :: xs) -> KArr (List.map atom_sx xs)
  | L (A "karr2" :: rows) -> KArr2 (List.map (function L r -> List.map atom_sx r | x -> bad "row" x) rows)
  | L (A "krec" :: fs) -> KRec (List.map (function L [k; a] -> (str_sx k, atom_sx a) | x -> bad "field" x) fs)
  | L [A "kfun"; o] -> KFun (obs_sx o)
  | x -> bad "container" x

(* ---- printing (the format of harness/src/eval.rs: show_value) *)
let json_str s =
  let b = Buffer.create (String.length s + 2) in
  Buffer.add_char b '"';
  String.iter (fun c -> match c with
      | '"' -> Buffer.add_string b "\\\"" | '\\' -> Buffer.add_string b "\\\\"
      | '\n' -> Buffer.add_string b "\\n" | c -> Buffer.add_char b c) s;
  Buffer.add_char b '"'; Buffer.contents b

let rec show_tree = function
  | TrNum z -> "#" ^ string_of_int (int_of_z z)
  | TrStr s -> json_str s
  | TrBool b -> if b then "true" else "false"
  | TrArr xs -> "[" ^ String.concat "," (List.map show_tree xs) ^ "]"
  | TrRec fs -> "{" ^ String.concat "," (List.map (fun (k, v) -> json_str k ^ ":" ^ show_tree v) fs) ^ "}"

let show_err = function
  | EBlame -> "Blame+" | EBlameNeg -> "Blame-" | EFail -> "Fail" | EOther -> "OtherErr"
  | ETypeErr -> "TypeErr" | EFieldMissing -> "FieldMissing" | ENonMergeable -> "NonMergeable"
  | ENotExportable -> "NotExportable" | ESerialize -> "Serialization" | EIncomparable -> "Incomparable"
  | ENotAFunc -> "NotAFunc" | ENonExhaustive -> "NonExhaustive" | EFuel -> "ModelFuel" | EProbe -> "Probe" | EUnmodelled -> "Unmodelled"

let show_res = function Ok t -> "OK " ^ show_tree t | Err e -> "ERR " ^ show_err e

let fuel = nat_of_int 24

let () =
  try
    while true do
      let line = input_line stdin in
      let out =
        try
          match String.split_on_char '\t' line with
          | "run" :: t :: k :: o :: _ ->
            show_res (run fuel (container_sx (parse_sx k)) (octr_sx (parse_sx t)) (obs_sx (parse_sx o)))
          | "stack" :: ts :: k :: o :: _ ->
            show_res (run_stack fuel (container_sx (parse_sx k)) (ctrs_sx (parse_sx ts)) (obs_sx (parse_sx o)))
          | "concat" :: ts1 :: k1 :: ts2 :: k2 :: o :: _ ->
            show_res (run_concat fuel (container_sx (parse_sx k1)) (ctrs_sx (parse_sx ts1))
                        (container_sx (parse_sx k2)) (ctrs_sx (parse_sx ts2)) (obs_sx (parse_sx o)))
          | "rundom" :: t :: k :: o :: _ ->
            show_res (run_dom fuel (container_sx (parse_sx k)) (ctr_sx (parse_sx t)) (obs_sx (parse_sx o)))
          | "reach" :: t :: k :: o :: p :: _ ->
            ignore t;
            "REACH " ^ (if reaches fuel (container_sx (parse_sx k)) (obs_sx (parse_sx o))
                             (List.map (fun x -> nat_of_int (int_of_string x)) (String.split_on_char '.' p))
                        then "true" else "false")
          | _ -> "BADLINE"
        with Failure m -> "PARSE-ERROR " ^ m
      in
      print_string out; print_newline ()
    done
  with End_of_file -> ()
