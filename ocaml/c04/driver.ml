(* One case per line:  (case (env1 ...) (env2 ...) (c1 K...) (c2 K...))
   env = list of (x K envname?)...; to keep the encoding flat, environments are given as a list of
   bindings in definition order, each binding closing over the bindings BEFORE it:
     (bind x K)   binds x to the closure (K, bindings so far)
   K = (var x) | (opq id) | (rec open (fld k opt hid prio (pend K...) (val K|_))...) | (null) | (bool b)
       | (tag t) | (str s) | (arr K...) | (app K K) | (acc f K)
   Prints the length of combine_dedup c1 env1 c2 env2 and, per contract of c2, whether it was dropped. *)
open Ctreq_model

type sx = A of string | L of sx list

let parse (s : string) : sx =
  let n = String.length s in
  let pos = ref 0 in
  let skip () = while !pos < n && s.[!pos] = ' ' do incr pos done in
  let rec item () =
    skip ();
    if s.[!pos] = '(' then begin
      incr pos;
      let items = ref [] in
      skip ();
      while s.[!pos] <> ')' do items := item () :: !items; skip () done;
      incr pos;
      L (List.rev !items)
    end else begin
      let st = !pos in
      while !pos < n && s.[!pos] <> ' ' && s.[!pos] <> ')' && s.[!pos] <> '(' do incr pos done;
      A (String.sub s st (!pos - st))
    end in
  item ()

let rec pos_of_int n = if n <= 1 then XH else if n land 1 = 0 then XO (pos_of_int (n lsr 1)) else XI (pos_of_int (n lsr 1))
let n_of_int n = if n = 0 then N0 else Npos (pos_of_int n)
let rec nat_of_int n = if n <= 0 then O else S (nat_of_int (n - 1))
let ios = int_of_string
let nn s = n_of_int (ios s)

let rec k_of = function
  | L [A "var"; A x] -> KVar (nn x)
  | L [A "opq"; A i] -> KOpaque (nn i)
  | L [A "null"] -> KNull
  | L [A "bool"; A b] -> KBool (b = "1")
  | L [A "tag"; A t] -> KTag (nn t)
  | L [A "str"; A s] -> KStr (nn s)
  | L (A "arr" :: es) -> KArr (List.map k_of es)
  | L [A "app"; f; a] -> KApp (k_of f, k_of a)
  | L [A "acc"; A f; e] -> KAccess (nn f, k_of e)
  | L (A "rec" :: A o :: fs) -> KRec (List.map fld_of fs, o = "1")
  | _ -> failwith "K"
and fld_of = function
  | L [A "fld"; A k; A o; A h; A p; L (A "pend" :: ps); L [A "val"; v]] ->
      let ps = List.map k_of ps in
      (nn k, MkKF (ps, List.map (fun c -> TyContract c) ps, o = "1", h = "1", nn p,
                   (match v with A "_" -> None | e -> Some (k_of e))))
  | _ -> failwith "fld"

let env_of (bs : sx list) =
  List.fold_left (fun env b -> match b with
    | L [A "bind"; A x; k] -> (nn x, Clo (k_of k, env)) :: env
    | _ -> failwith "bind") [] bs

let () =
  try
    while true do
      let line = input_line stdin in
      (try
         match parse line with
         | L [A "case"; L (A "env" :: b1); L (A "env" :: b2); L (A "c1" :: k1); L (A "c2" :: k2)] ->
             let e1 = env_of b1 and e2 = env_of b2 in
             let c1 = List.map k_of k1 and c2 = List.map k_of k2 in
             let fuel = nat_of_int 60 in
             let res = combine_dedup fuel c1 e1 c2 e2 in
             let dropped = List.map (fun b -> if List.exists (fun a -> contract_eq fuel a e1 b e2) c1 then "1" else "0") c2 in
             Printf.printf "%d %s" (List.length res) (String.concat "" dropped)
         | _ -> print_string "BAD shape"
       with Failure m -> print_string ("BAD " ^ m));
      print_newline ()
    done
  with End_of_file -> ()
