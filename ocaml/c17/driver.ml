(* Reads one history per line (same format as harness/src/bin/c17.rs), runs the extracted
   implementation model [irun] (and the list specification [srun] when called with "spec"),
   prints one line per case in the harness' output format. *)
open C17_model

let rec nat_of_int n = if n <= 0 then O else S (nat_of_int (n - 1))
let rec int_of_nat = function O -> 0 | S n -> 1 + int_of_nat n

let digest (xs : int list) =
  let h = List.fold_left (fun h x -> (h * 31 + x + 1) mod 1_000_000_007) 7 xs in
  Printf.sprintf "%d:%d" (List.length xs) h

(* text of the representation: exactly what the derived [Debug] of the Rust [Vector]/[Slice] prints
   (see [shape] in harness/src/bin/c17.rs) *)
let rec add_node buf = function
  | Leaf d ->
      Buffer.add_string buf "Leaf { data: Chunk[";
      List.iteri (fun i x -> if i > 0 then Buffer.add_string buf ", "; Buffer.add_string buf (string_of_int (int_of_nat x))) d;
      Buffer.add_string buf "] }"
  | Interior ch ->
      Buffer.add_string buf "Interior { children: Chunk[";
      List.iteri (fun i c -> if i > 0 then Buffer.add_string buf ", "; add_node buf c) ch;
      Buffer.add_string buf "] }"

let add_vec buf v =
  Buffer.add_string buf "Vector { root: ";
  (match v.root with
   | None -> Buffer.add_string buf "None"
   | Some r -> Buffer.add_string buf "Some("; add_node buf r; Buffer.add_string buf ")");
  Buffer.add_string buf (Printf.sprintf ", length: %d, height: %d }" (int_of_nat v.vlen) (int_of_nat v.height))

let show_vec v = let b = Buffer.create 256 in add_vec b v; Buffer.contents b

let show_slice s =
  let b = Buffer.create 256 in
  Buffer.add_string b "Slice { vec: "; add_vec b s.svec;
  Buffer.add_string b (Printf.sprintf ", start: %d, end: %d }" (int_of_nat s.sstart) (int_of_nat s.send));
  Buffer.contents b

let nosp s = String.concat "" (String.split_on_char ' ' s)

let sdigest (s : string) =
  let h = ref 5 in
  String.iter (fun c -> h := (!h * 131 + Char.code c) mod 1_000_000_007) s;
  !h

let parse_list s =
  if s = "" then [] else List.map (fun x -> nat_of_int (int_of_string x)) (String.split_on_char '.' s)

let parse_op (s : string) : op =
  let kind = String.sub s 0 2 in
  let args = String.split_on_char ':' (String.sub s 2 (String.length s - 2)) in
  let a i = try List.nth args i with _ -> "" in
  let n i = nat_of_int (int_of_string (a i)) in
  match kind with
  | "vn" -> VNew | "vf" -> VFrom (parse_list (a 1)) | "vc" -> VClone (n 0) | "vd" -> VDrop (n 0)
  | "vp" -> VPush (n 0, n 1) | "vo" -> VPop (n 0) | "vs" -> VSet (n 0, n 1, n 2) | "vg" -> VGet (n 0, n 1)
  | "vt" -> VTrunc (n 0, n 1) | "ve" -> VExtend (n 0, parse_list (a 1)) | "vi" -> VIterFrom (n 0, n 1)
  | "vm" -> VMapFrom (n 0, n 1, n 2) | "va" -> VMapFrom (n 0, O, n 1) | "sm" -> SMap (n 0, n 1)
  | "sn" -> SNew | "sf" -> SFrom (parse_list (a 1)) | "sc" -> SClone (n 0) | "sd" -> SDrop (n 0)
  | "sp" -> SPush (n 0, n 1) | "so" -> SPop (n 0) | "ss" -> SSet (n 0, n 1, n 2) | "sg" -> SGet (n 0, n 1)
  | "sl" -> SSlice (n 0, n 1, n 2) | "se" -> SExtend (n 0, parse_list (a 1)) | "sx" -> SExtendFrom (n 0, n 1)
  | "si" -> SIter (n 0)
  | _ -> failwith ("bad op " ^ s)

let show_res = function
  | ROk -> "ok" | RDead -> "dead" | RPanic -> "panic" | RNone -> "none"
  | RSome x -> Printf.sprintf "some%d" (int_of_nat x)
  | RIter l -> "it" ^ digest (List.map int_of_nat l)

let ints l = List.map int_of_nat l

let () =
  let spec = Array.length Sys.argv > 1 && Sys.argv.(1) = "spec" in
  try
    while true do
      let line = input_line stdin in
      let b, ops =
        match String.index_opt line ' ' with
        | Some i -> (String.sub line 0 i, String.sub line (i + 1) (String.length line - i - 1))
        | None -> (line, "") in
      let bn = nat_of_int (int_of_string b) in
      let ops = List.filter (fun s -> s <> "") (String.split_on_char ',' ops) in
      let ops = List.map parse_op ops in
      let buf = Buffer.create 1024 in
      if spec then begin
        let tr = srun sinit ops in
        let last = ref sinit in
        List.iter (fun (r, st) ->
          last := st;
          Buffer.add_string buf (show_res r); Buffer.add_char buf ';';
          List.iteri (fun i h -> match h with Some l -> Buffer.add_string buf (Printf.sprintf "v%d=%s|" i (digest (ints l))) | None -> ()) st.svs;
          List.iteri (fun i h -> match h with Some l -> Buffer.add_string buf (Printf.sprintf "s%d=%s|" i (digest (ints l))) | None -> ()) st.sss;
          Buffer.add_char buf ' ') tr;
        Buffer.add_string buf "END ";
        let show l = String.concat "." (List.map string_of_int (ints l)) in
        List.iteri (fun i h -> match h with Some l -> Buffer.add_string buf (Printf.sprintf "v%d=[%s]|" i (show l)) | None -> ()) !last.svs;
        List.iteri (fun i h -> match h with Some l -> Buffer.add_string buf (Printf.sprintf "s%d=[%s]|" i (show l)) | None -> ()) !last.sss
      end else begin
        let tr = irun bn iinit ops in
        let last = ref iinit in
        let sl s = match siter bn s with Some l -> ints l | None -> [-1] in
        List.iter (fun (r, st) ->
          last := st;
          Buffer.add_string buf (show_res r); Buffer.add_char buf ';';
          List.iteri (fun i h -> match h with
            | Some v ->
                if not (check_invariants bn v) then Buffer.add_string buf "!INV";
                Buffer.add_string buf (Printf.sprintf "v%d=%s~%d|" i (digest (ints (to_list v))) (sdigest (show_vec v)))
            | None -> ()) st.ivs;
          List.iteri (fun i h -> match h with Some s -> Buffer.add_string buf (Printf.sprintf "s%d=%s~%d|" i (digest (sl s)) (sdigest (show_slice s))) | None -> ()) st.iss;
          Buffer.add_char buf ' ') tr;
        Buffer.add_string buf "END ";
        let show l = String.concat "." (List.map string_of_int l) in
        List.iteri (fun i h -> match h with Some v -> Buffer.add_string buf (Printf.sprintf "v%d=[%s]~%s|" i (show (ints (to_list v))) (nosp (show_vec v))) | None -> ()) !last.ivs;
        List.iteri (fun i h -> match h with Some s -> Buffer.add_string buf (Printf.sprintf "s%d=[%s]~%s|" i (show (sl s)) (nosp (show_slice s))) | None -> ()) !last.iss
      end;
      print_string (Buffer.contents buf); print_newline ()
    done
  with End_of_file -> ()
