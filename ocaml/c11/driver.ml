(* C11 driver.  One model term per input line (S-expression, see checks/c11.py), one output line:
     <nickel source> TAB <nickel source of the bare program> TAB <model outcome> TAB <model outcome, bare>
   The Nickel text is produced by the extracted Gallina printer, the outcomes by the extracted
   evaluator; this file only parses. *)
open C11_model

type sx = A of string | L of sx list

let tokenize (s : string) : string list =
  let n = String.length s in
  let toks = ref [] in
  let buf = Buffer.create 16 in
  let flush () = if Buffer.length buf > 0 then (toks := Buffer.contents buf :: !toks; Buffer.clear buf) in
  for i = 0 to n - 1 do
    match s.[i] with
    | '(' -> flush (); toks := "(" :: !toks
    | ')' -> flush (); toks := ")" :: !toks
    | ' ' | '\t' -> flush ()
    | c -> Buffer.add_char buf c
  done;
  flush ();
  List.rev !toks

let parse_sx (toks : string list) : sx =
  let rec one = function
    | "(" :: rest -> let (items, rest) = many rest in (L items, rest)
    | ")" :: _ -> failwith "unexpected )"
    | a :: rest -> (A a, rest)
    | [] -> failwith "eof"
  and many = function
    | ")" :: rest -> ([], rest)
    | toks -> let (x, rest) = one toks in let (xs, rest) = many rest in (x :: xs, rest)
  in
  match one toks with (x, []) -> x | _ -> failwith "trailing tokens"

let rec pos_of_int n = if n = 1 then XH else if n land 1 = 0 then XO (pos_of_int (n lsr 1)) else XI (pos_of_int (n lsr 1))
let z_of_int n = if n = 0 then Z0 else if n > 0 then Zpos (pos_of_int n) else Zneg (pos_of_int (-n))
let rec nat_of_int n = if n <= 0 then O else S (nat_of_int (n - 1))

let rec ty_of = function
  | A "dyn" -> TDyn | A "num" -> TNum | A "bool" -> TBool | A "str" -> TStr
  | L [A "->"; a; b] -> TArrow (ty_of a, ty_of b)
  | L [A "arr"; t] -> TArr (ty_of t)
  | L (A "rect" :: A tl :: fs) ->
      let tail = match tl with "-" -> TlEmpty | "dyn" -> TlDyn | x -> TlVar x in
      TRec (List.map (function L [A l; t] -> (l, ty_of t) | _ -> failwith "rect field") fs, tail)
  | L [A "forall"; A x; A k; b] -> TForall (x, (if k = "r" then KRow else KType), ty_of b)
  | L [A "tv"; A x] -> TVar x
  | L [A "alias"; t] -> TAlias (ty_of t)
  | _ -> failwith "bad type"

let op1_of = function
  | "isnum" -> IsNum | "isbool" -> IsBool | "isstr" -> IsStr | "isfun" -> IsFun | "isarr" -> IsArr
  | "isrec" -> IsRec | "not" -> Not | "length" -> Length | "fields" -> Fields | "freeze" -> Freeze
  | "tostr" -> ToStr | s -> failwith ("bad op1 " ^ s)
let op2_of = function
  | "add" -> Add | "sub" -> Sub | "mul" -> Mul | "eq" -> OEq | "lt" -> OLt | "cat" -> Cat | "at" -> At
  | s -> failwith ("bad op2 " ^ s)

let rec tm_of = function
  | L [A "v"; A x] -> Var x
  | L [A "lam"; A x; b] -> Lam (x, tm_of b)
  | L [A "app"; f; a] -> App (tm_of f, tm_of a)
  | L [A "let"; A x; e; b] -> Let (x, tm_of e, tm_of b)
  | L [A "n"; A n] -> Num (z_of_int (int_of_string n))
  | L [A "b"; A b] -> Bool (b = "t")
  | L [A "s"] -> Str ""
  | L [A "s"; A s] -> Str s
  | L [A "if"; c; t; e] -> If (tm_of c, tm_of t, tm_of e)
  | L [A "getf"; A l; a] -> Op1 (GetF l, tm_of a)
  | L [A "remove"; A l; a] -> Op1 (Remove l, tm_of a)
  | L [A "hasf"; A l; a] -> Op1 (HasField l, tm_of a)
  | L [A "o1"; A o; a] -> Op1 (op1_of o, tm_of a)
  | L [A "o2"; A o; a; b] -> Op2 (op2_of o, tm_of a, tm_of b)
  | L (A "arr" :: es) -> Arr (List.map tm_of es)
  | L [A "amap"; f; a] -> ArrMap (tm_of f, tm_of a)
  | L (A "rec" :: fs) -> RecLit (List.map (function L [A l; e] -> (l, tm_of e) | _ -> failwith "rec field") fs)
  | L [A "ins"; A l; r; v] -> Insert (l, tm_of r, tm_of v)
  | L [A "rmap"; f; r] -> RecMap (tm_of f, tm_of r)
  | L [A "seq"; a; b] -> Seq (tm_of a, tm_of b)
  | L [A "ann"; t; e] -> Ann (ty_of t, tm_of e)
  | _ -> failwith "bad term"

let () =
  let fuel = nat_of_int (try int_of_string Sys.argv.(1) with _ -> 300) in
  (* argv.(2) = "noflip" / "seethrough": the deliberately unsound variants (power test of the check) *)
  let cf = match (try Sys.argv.(2) with _ -> "") with
    | "noflip" -> { cf_flip_dom = false; cf_guard_typeof = true; cf_dedup = false }
    | "seethrough" -> { cf_flip_dom = true; cf_guard_typeof = false; cf_dedup = false }
    | "dedup" -> { cf_flip_dom = true; cf_guard_typeof = true; cf_dedup = true }
    | _ -> cfg_real in
  try
    while true do
      let line = input_line stdin in
      (try
        let e = tm_of (parse_sx (tokenize line)) in
        let bare = strip e in
        Printf.printf "%s\t%s\t%s\t%s\n" (print_tm e) (print_tm bare) (run_line cf fuel e) (run_line cf fuel bare)
      with Failure m -> Printf.printf "PARSE-ERROR %s\t\t\t\n" m);
      flush stdout
    done
  with End_of_file -> ()
