(* Reads one case per line, runs the extracted C10 models, prints one result line per case.
     num div|mod|pow <p/q> <p/q>          -> VAL #p/q | ERR <class> | PANIC <site> | F64
     substr <n> <p/q> <p/q>               string of n graphemes 0..n-1 -> VAL i.j.k | ERR .. | PANIC ..
     slice <n> <p/q> <p/q>                array 0..n-1
     at <n> <p/q>
     gen <p/q>                            -> VAL <len>
     findall <len> <m1.m2...>             ASCII subject of that length, match starts in order:
                                          -> orig=<VAL i.j|PANIC> fixed=<VAL i.j>
     lex <sym> <sym> ...                  sym = N:<raw> | S:<raw> | M:<raw> (raw token of the current mode)
                                          -> emitted classes and the final stack depth
     lexerr <Name> <n1> [<n2> ..] / <tokstart> <tokend>   -> spans orig | spans fixed
     split <s> <e> <pc>                   -> a-b c-d | PANIC
     cap <max> <w1.w2...>                 -> orig=.. fixed=..
     toml <tree>                          toml_edit-shaped document (see checks/c10_gen.py TomlDoc) -> VAL | ERR
     prio <B|N|T|p/q> <B|N|T|p/q>         merge_fields value selection -> VAL both|left|right
   This file only parses and prints. *)
open C10_model

let rec pos_of_int n = if n = 1 then XH else if n land 1 = 0 then XO (pos_of_int (n lsr 1)) else XI (pos_of_int (n lsr 1))
let z_of_int n = if n = 0 then Z0 else if n > 0 then Zpos (pos_of_int n) else Zneg (pos_of_int (- n))
let z10 = z_of_int 10

let z_of_string (s : string) : z =
  let neg = String.length s > 0 && s.[0] = '-' in
  let acc = ref Z0 in
  String.iteri (fun i c ->
    if i = 0 && (c = '-' || c = '+') then ()
    else if c >= '0' && c <= '9' then acc := Z.add (Z.mul !acc z10) (z_of_int (Char.code c - 48))
    else failwith ("bad integer " ^ s)) s;
  if neg then Z.opp !acc else !acc

let rec int_of_pos = function XH -> 1 | XO p -> 2 * int_of_pos p | XI p -> 2 * int_of_pos p + 1
let int_of_z = function Z0 -> 0 | Zpos p -> int_of_pos p | Zneg p -> - (int_of_pos p)
let z1e9 = z_of_int 1_000_000_000

let string_of_z (z : z) : string =
  let neg, a = (match z with Zneg p -> true, Zpos p | _ -> false, z) in
  if a = Z0 then "0" else begin
    let chunks = ref [] in
    let cur = ref a in
    while !cur <> Z0 do
      let (q, r) = Z.div_eucl !cur z1e9 in
      chunks := int_of_z r :: !chunks;
      cur := q
    done;
    let b = Buffer.create 64 in
    if neg then Buffer.add_char b '-';
    (match !chunks with
     | [] -> ()
     | h :: t -> Buffer.add_string b (string_of_int h); List.iter (fun c -> Buffer.add_string b (Printf.sprintf "%09d" c)) t);
    Buffer.contents b
  end

let q_of_string (s : string) : q =
  match String.index_opt s '/' with
  | None -> { qnum = z_of_string s; qden = XH }
  | Some i ->
    let n = z_of_string (String.sub s 0 i) and d = z_of_string (String.sub s (i + 1) (String.length s - i - 1)) in
    (match d with Zpos p -> { qnum = n; qden = p } | _ -> failwith "bad denominator")

let show_q (q : q) : string =
  let r = qred q in
  match r.qden with
  | XH -> "#" ^ string_of_z r.qnum
  | d -> "#" ^ string_of_z r.qnum ^ "/" ^ string_of_z (Zpos d)

let show_outcome (f : 'a -> string) (o : 'a outcome) : string =
  match o with
  | Val a -> "VAL " ^ f a
  | Error c -> "ERR " ^ c
  | Panic s -> "PANIC " ^ s

let ints (l : z list) : string = if l = [] then "-" else String.concat "." (List.map string_of_z l)
let range n = List.init n (fun i -> z_of_int i)
let split_dots s = if s = "-" || s = "" then [] else List.map z_of_string (String.split_on_char '.' s)

let raw_n (parts : string list) : rawN =
  match parts with
  | ["Other"] -> NOther | ["DQuote"] -> NDQuote | ["StrEnumTagBegin"] -> NStrEnumTagBegin
  | ["MultiStart"; d] -> NMultiStart (z_of_string d) | ["SymStart"; d] -> NSymStart (z_of_string d)
  | ["LBrace"] -> NLBrace | ["RBrace"] -> NRBrace | ["Comment"] -> NComment | ["Error"] -> NError
  | _ -> failwith "bad normal raw token"
let raw_s (parts : string list) : rawS =
  match parts with
  | ["Literal"] -> SLiteral false | ["LiteralCR"] -> SLiteral true | ["DQuote"] -> SDQuote | ["Interp"] -> SInterp
  | ["EscChar"; v] -> SEscChar (v = "1") | ["EscAscii"; v] -> SEscAscii (v = "1") | ["Error"] -> SError
  | _ -> failwith "bad string raw token"
let raw_m (parts : string list) : rawM =
  match parts with
  | ["Literal"] -> MLiteral false | ["LiteralCR"] -> MLiteral true | ["CandEnd"; n] -> MCandEnd (z_of_string n) | ["CandInterp"; n] -> MCandInterp (z_of_string n)
  | ["QCandInterp"; n] -> MQCandInterp (z_of_string n) | ["Error"] -> MError | ["Buffered"] -> MLiteral false
  | _ -> failwith "bad multistring raw token"

let sym_of (s : string) : sym =
  match String.split_on_char ':' s with
  | "N" :: r -> { sN = raw_n r; sS = SLiteral false; sM = MLiteral false }
  | "S" :: r -> { sN = NOther; sS = raw_s r; sM = MLiteral false }
  | "M" :: r -> { sN = NOther; sS = SLiteral false; sM = raw_m r }
  | _ -> failwith "bad symbol"

let show_rawn = function
  | NOther -> "Other" | NDQuote -> "DQuote" | NStrEnumTagBegin -> "StrEnumTagBegin"
  | NMultiStart d -> "MultiStart:" ^ string_of_z d | NSymStart d -> "SymStart:" ^ string_of_z d
  | NLBrace -> "LBrace" | NRBrace -> "RBrace" | NComment -> "Comment" | NError -> "Error"

let show_emit = function
  | Tok (TNormal t) -> "N." ^ show_rawn t
  | Tok TStrLiteral -> "S.Literal" | Tok TStrInterp -> "S.Interp" | Tok TStrEsc -> "S.EscChar"
  | Tok (TMLiteral None) -> "M.Literal" | Tok (TMLiteral (Some n)) -> "M.Literal:" ^ string_of_z n
  | Tok TMInterp -> "M.Interp" | Tok TMEnd -> "M.End"
  | Err EUnmatchedCloseBrace -> "E.UnmatchedCloseBrace" | Err EInvalidEscape -> "E.InvalidEscapeSequence"
  | Err EInvalidAscii -> "E.InvalidAsciiEscapeCode" | Err EDelimMismatch -> "E.StringDelimiterMismatch" | Err EGeneric -> "E.Generic"
  | Again -> "Again"

let show_mode = function MdString -> "S" | MdMulti pc -> "M" ^ string_of_z pc | MdNormal b -> "N" ^ string_of_z b
let show_cur = function CNormal b -> "N" ^ string_of_z b | CString -> "S" | CMulti (pc, buf) -> "M" ^ string_of_z pc ^ (if buf then "b" else "")

let show_spans (l : (z * z) list) = String.concat " " (List.map (fun (a, b) -> string_of_z a ^ "-" ^ string_of_z b) l)

let handle (line : string) : string =
  match String.split_on_char ' ' (String.trim line) with
  | ["num"; "div"; a; b] -> show_outcome show_q (div_exact (q_of_string a) (q_of_string b))
  | ["num"; "mod"; a; b] -> show_outcome show_q (mod_exact (q_of_string a) (q_of_string b))
  | ["num"; "pow"; a; b] ->
    (match pow_exact (q_of_string a) (q_of_string b) with
     | Some o -> show_outcome show_q o
     | None -> "F64")
  | ["substr"; n; a; b] -> show_outcome ints (substring (range (int_of_string n)) (q_of_string a) (q_of_string b))
  | ["slice"; n; a; b] -> show_outcome ints (op_array_slice (q_of_string a) (q_of_string b) (range (int_of_string n)))
  | ["at"; n; a] -> show_outcome string_of_z (op_array_at (range (int_of_string n)) (q_of_string a))
  | ["gen"; a] -> show_outcome string_of_z (op_array_gen_len (q_of_string a))
  | ["findall"; len; ms] ->
    let n = int_of_string len in
    let offsets = range n and len = z_of_int n in
    let go f =
      let rec loop acc = function
        | [] -> "VAL " ^ ints (List.rev acc)
        | m :: rest -> (match f offsets len m with
            | Val i -> loop (i :: acc) rest
            | Error c -> loop acc rest
            | Panic s -> "PANIC") in
      loop [] (split_dots ms) in
    "orig=" ^ go find_all_index ^ " fixed=" ^ go find_all_index_fixed
  | "lex" :: syms ->
    (match run init (List.map sym_of (List.filter (fun s -> s <> "") syms)) with
     | Val (es, final) ->
       String.concat " " (List.map show_emit es) ^ " | " ^ show_cur final.lexer ^ " [" ^ String.concat "," (List.map show_mode final.modes) ^ "]"
     | Error c -> "ERR " ^ c
     | Panic s -> "PANIC " ^ s)
  | "lexv" :: syms ->
    (* one item per step: <state before>/<emit>/<stack depth after> *)
    let rec go st acc = function
      | [] -> String.concat " " (List.rev acc)
      | s :: rest ->
        (match next_step st (sym_of s) with
         | Val (st', e) ->
           go st' ((show_cur st.lexer ^ "/" ^ show_emit e ^ "/" ^ string_of_int (List.length st'.modes)) :: acc) rest
         | Error c -> String.concat " " (List.rev (("ERR " ^ c) :: acc))
         | Panic p -> String.concat " " (List.rev (("PANIC " ^ p) :: acc))) in
    go init [] (List.filter (fun s -> s <> "") syms)
  | ["lexerr"; name; nums; ts; te] ->
    let t = (z_of_string ts, z_of_string te) in
    let ns = split_dots nums in
    let e = (match name, ns with
        | "Generic", [a; b] -> LGeneric (a, b)
        | "UnmatchedCloseBrace", _ -> LUnmatchedCloseBrace t
        | "InvalidEscapeSequence", _ -> LInvalidEscape t
        | "InvalidAsciiEscapeCode", _ -> LInvalidAscii t
        | "StringDelimiterMismatch", [a; b; c; d] -> LDelimMismatch ((a, b), (c, d))
        | _ -> failwith "bad lexical error") in
    "orig=" ^ show_spans (from_lexical e) ^ " fixed=" ^ show_spans (from_lexical_fixed e)
  | ["split"; s; e; pc] ->
    (match split_spans (z_of_string s, z_of_string e) (z_of_string pc) with
     | Val (a, b) -> show_spans [a; b]
     | Error c -> "ERR " ^ c
     | Panic s -> "PANIC " ^ s)
  | ["prio"; a; b] ->
    let pr s = (match s with "B" -> Bottom | "N" -> Neutral | "T" -> Top | q -> Numeral (q_of_string q)) in
    (match select_value true true (pr a) (pr b) with
     | Val MergeBoth -> "VAL both" | Val TakeLeft -> "VAL left" | Val TakeRight -> "VAL right" | Val NoValue -> "VAL none"
     | Error c -> "ERR " ^ c | Panic s -> "PANIC " ^ s)
  | ["toml"; t] ->
    (* item: V<value> | T[item*] | A[[item*]*];  value: f | n | o | a[value*] | i[value*] *)
    let pos = ref 0 in
    let n = String.length t in
    let peek () = if !pos < n then t.[!pos] else '$' in
    let eat c = if peek () = c then incr pos else failwith (Printf.sprintf "toml tree: expected %c at %d" c !pos) in
    let rec many f = if peek () = ']' then [] else (let x = f () in x :: many f) in
    let rec value () =
      match peek () with
      | 'f' -> incr pos; VFloat true
      | 'n' -> incr pos; VFloat false
      | 'o' -> incr pos; VOther
      | 'a' -> incr pos; eat '['; let l = many value in eat ']'; VArray l
      | 'i' -> incr pos; eat '['; let l = many value in eat ']'; VInline l
      | c -> failwith (Printf.sprintf "toml tree: bad value %c" c) in
    let rec item () =
      match peek () with
      | 'V' -> incr pos; IValue (value ())
      | 'T' -> incr pos; eat '['; let l = many item in eat ']'; ITable l
      | 'A' -> incr pos; eat '['; let l = many (fun () -> eat '['; let l = many item in eat ']'; l) in eat ']'; IAoT l
      | c -> failwith (Printf.sprintf "toml tree: bad item %c" c) in
    (match from_doc (item ()) with Val () -> "VAL" | Error c -> "ERR" | Panic s -> "PANIC " ^ s)
  | ["cap"; mx; ws] ->
    let w = split_dots ws and m = z_of_string mx in
    let sh o = (match o with Val l -> "VAL " ^ string_of_int (List.length l) | Error c -> "ERR" | Panic _ -> "PANIC") in
    "orig=" ^ sh (pretty_print_cap w m) ^ " fixed=" ^ sh (pretty_print_cap_fixed w m)
  | _ -> "BAD-CASE"

let () =
  try
    while true do
      let line = input_line stdin in
      let r = (try handle line with Failure m -> "DRIVER-ERROR " ^ m | Not_found -> "DRIVER-ERROR not_found" | Invalid_argument m -> "DRIVER-ERROR " ^ m) in
      print_string r; print_newline ()
    done
  with End_of_file -> ()
