(* Reads one case per line (same format as harness/src/bin/c19.rs), runs the extracted model of
   the language server's World ([trace_from], Lsp/World.v) and prints, per step, the sorted
   multiset of diagnostics publications in the harness' format; "CRASH:<kind>" when the model
   says the server dies.   argv.(1) = "code" (default; the code as it is) | "patched";
   with "state" as second argument also prints the final bookkeeping state (for hook H8). *)
open C19_model

let rec nat_of_int n = if n <= 0 then O else S (nat_of_int (n - 1))
let rec int_of_nat = function O -> 0 | S n -> 1 + int_of_nat n

let parse_content (s : string) : content =
  match String.split_on_char '/' s with
  | [vid; imps; st] ->
      { c_vid = nat_of_int (int_of_string vid);
        c_imports = (if imps = "" then [] else List.map (fun x -> nat_of_int (int_of_string x)) (String.split_on_char '.' imps));
        c_status = (match st with "t" -> STerr | "p" -> SPerr | _ -> SOk) }
  | _ -> failwith ("bad content " ^ s)

let split2 c s =
  match String.index_opt s c with
  | Some i -> (String.sub s 0 i, String.sub s (i + 1) (String.length s - i - 1))
  | None -> failwith ("bad token " ^ s)

let parse_op (s : string) : op =
  let k = s.[0] and rest = String.sub s 1 (String.length s - 1) in
  match k with
  | 'X' -> Close (nat_of_int (int_of_string rest))
  | 'O' -> let (p, c) = split2 '=' rest in Open (nat_of_int (int_of_string p), parse_content c)
  | 'C' -> let (p, c) = split2 '=' rest in Change (nat_of_int (int_of_string p), parse_content c)
  | _ -> failwith ("bad op " ^ s)

let show_diag = function
  | DParse -> "P" | DType -> "T"
  | DMissing p -> Printf.sprintf "M%d" (int_of_nat p)
  | DImpParse p -> Printf.sprintf "IP%d" (int_of_nat p)
  | DImpType p -> Printf.sprintf "IT%d" (int_of_nat p)

let show_pub (p, ds) =
  Printf.sprintf "%d:%s" (int_of_nat p) (String.concat "+" (List.sort compare (List.map show_diag ds)))

let show_state n w =
  let b = Buffer.create 256 in
  let nx = int_of_nat w.w_next in
  let ids l = String.concat "." (List.map string_of_int (List.sort compare (List.map int_of_nat l))) in
  for f = 0 to nx - 1 do
    let fn = nat_of_int f in
    (match w.w_files fn with
     | Some (p, c) ->
         Buffer.add_string b (Printf.sprintf "f%d=%d/v%d" f (int_of_nat p) (int_of_nat c.c_vid));
         (match w.w_an fn with
          | Some a -> Buffer.add_string b (Printf.sprintf "/%s/v%d/%s"
                        (match a.a_state with Parsed -> "parsed" | Typechecking -> "typechecking" | Typechecked -> "typechecked")
                        (int_of_nat a.a_src.c_vid)
                        (String.concat "+" (List.sort compare (List.map show_diag a.a_tdiags))))
          | None -> Buffer.add_string b "/-");
         Buffer.add_string b (Printf.sprintf "/i%s/r%s" (ids (w.w_imports fn)) (ids (w.w_rev fn)));
         (match w.w_uris fn with Some p -> Buffer.add_string b (Printf.sprintf "/u%d" (int_of_nat p)) | None -> ());
         Buffer.add_char b ' '
     | None -> ())
  done;
  for p = 0 to n - 1 do
    let pn = nat_of_int p in
    (match w.w_ids pn with
     | Some (f, k) -> Buffer.add_string b (Printf.sprintf "p%d=%d%s " p (int_of_nat f)
                        (match k with KMem -> "m" | KClosed -> "c" | KFs -> "f"))
     | None -> ());
    (match w.w_failed pn with [] -> () | l -> Buffer.add_string b (Printf.sprintf "x%d=%s " p (ids l)))
  done;
  Buffer.contents b

(* some FileId that is no longer the id of its path (a closed buffer) has a cached analysis *)
let has_dead_analysis w =
  let nx = int_of_nat w.w_next in
  let r = ref false in
  for f = 0 to nx - 1 do
    let fn = nat_of_int f in
    match w.w_files fn, w.w_an fn with
    | Some (p, _), Some _ ->
        (match w.w_ids p with
         | Some (g, (KMem | KFs)) when int_of_nat g = f -> ()
         | _ -> r := true)
    | _ -> ()
  done;
  !r

let () =
  let cfg = if Array.length Sys.argv > 1 && Sys.argv.(1) = "patched" then cfg_patched else cfg_code in
  let want_state = Array.length Sys.argv > 2 && Sys.argv.(2) = "state" in
  let fuel = nat_of_int 300 in
  try
    while true do
      let line = String.trim (input_line stdin) in
      if line = "" || line.[0] = '#' then print_endline "SKIP" else begin
        let toks = List.filter (fun s -> s <> "") (String.split_on_char ' ' line) in
        let n, disk_s, ops_s = match toks with
          | [n; d] -> (int_of_string n, d, "")
          | n :: d :: o :: _ -> (int_of_string n, d, o)
          | _ -> failwith ("bad case " ^ line) in
        let disk_l = if disk_s = "-" then [] else
            List.map (fun e -> let (p, c) = split2 '=' e in (int_of_string p, parse_content c)) (String.split_on_char ',' disk_s) in
        let disk p = List.assoc_opt (int_of_nat p) disk_l in
        let ops = List.map parse_op (List.filter (fun s -> s <> "") (String.split_on_char ',' ops_s)) in
        let tr = trace_from cfg (fun l -> l) disk fuel empty_world ops in
        let last = ref None in
        let dead = ref false in
        let steps = List.map (function
            | Ok w -> last := Some w; if has_dead_analysis w then dead := true;
                String.concat "," (List.sort compare (List.map show_pub w.w_log))
            | Crash Overflow -> last := None; "CRASH"
            | Crash Panic -> last := None; "CRASH") tr in
        let kind = List.fold_left (fun acc r -> match r with Crash Overflow -> "overflow" | Crash Panic -> "panic" | _ -> acc) "-" tr in
        let st = if want_state then (match !last with Some w -> " | " ^ show_state n w | None -> " | -") else "" in
        print_endline (String.concat ";" steps ^ " # " ^ kind ^ (if !dead then " dead" else " nodead") ^ st)
      end
    done
  with End_of_file -> ()
