(* Reads one case per line (same format as harness/src/bin/c19.rs), runs the extracted model of
   the language server's World ([trace_from], Lsp/World.v) and prints, per step, the sorted
   multiset of diagnostics publications in the harness' format; "CRASH:<kind>" when the model
   says the server dies.   argv.(1) = "code" (default; the code as it is) | "patched" | "<purge><self>"
   (two 0/1 flags selecting the proposed patches individually);
   with "state" as second argument also prints the bookkeeping state after every step (for hook H8). *)
open C19_model

let rec nat_of_int n = if n <= 0 then O else S (nat_of_int (n - 1))
let rec int_of_nat = function O -> 0 | S n -> 1 + int_of_nat n

let parse_content (s : string) : content =
  match String.split_on_char '/' s with
  | [vid; imps; st] ->
      { c_vid = nat_of_int (int_of_string vid);
        c_imports = (if imps = "" then [] else List.map (fun x -> nat_of_int (int_of_string x)) (String.split_on_char '.' imps));
        c_status = (match st with "t" -> STerr | "p" -> SPerr | _ -> SOk) }
  | _ -> failwith ("bad content " ^ s)

let split2 c s =
  match String.index_opt s c with
  | Some i -> (String.sub s 0 i, String.sub s (i + 1) (String.length s - i - 1))
  | None -> failwith ("bad token " ^ s)

let parse_op (s : string) : op =
  let k = s.[0] and rest = String.sub s 1 (String.length s - 1) in
  match k with
  | 'X' -> Close (nat_of_int (int_of_string rest))
  | 'O' -> let (p, c) = split2 '=' rest in Open (nat_of_int (int_of_string p), parse_content c)
  | 'C' -> let (p, c) = split2 '=' rest in Change (nat_of_int (int_of_string p), parse_content c)
  | _ -> failwith ("bad op " ^ s)

let show_diag = function
  | DParse -> "P" | DType -> "T"
  | DMissing p -> Printf.sprintf "M%d" (int_of_nat p)
  | DImpParse p -> Printf.sprintf "IP%d" (int_of_nat p)
  | DImpType p -> Printf.sprintf "IT%d" (int_of_nat p)

let show_pub (p, ds) =
  Printf.sprintf "%d:%s" (int_of_nat p) (String.concat "+" (List.sort compare (List.map show_diag ds)))

(* the bookkeeping state in the canonical format of the harness (hook H8): a file id is named
   <path>#<k> = the k-th id allocated for that path *)
let show_state n w =
  let nx = int_of_nat w.w_next in
  let names = Hashtbl.create 16 and counts = Hashtbl.create 16 in
  for f = 0 to nx - 1 do
    match w.w_files (nat_of_int f) with
    | Some (p, _) ->
        let p = int_of_nat p in
        let k = try Hashtbl.find counts p with Not_found -> 0 in
        Hashtbl.replace counts p (k + 1);
        Hashtbl.replace names f (Printf.sprintf "%d#%d" p k)
    | None -> ()
  done;
  let nm f = try Hashtbl.find names (int_of_nat f) with Not_found -> Printf.sprintf "?%d" (int_of_nat f) in
  let lst l = String.concat "." (List.sort compare (List.map nm l)) in
  let out = ref [] in
  let add s = out := s :: !out in
  for f = 0 to nx - 1 do
    let fn = nat_of_int f in
    match w.w_files fn with
    | Some (_, c) ->
        add (Printf.sprintf "F%s=v%d" (nm fn) (int_of_nat c.c_vid));
        (match w.w_an fn with
         | Some a -> add (Printf.sprintf "A%s=%s/%s/%s" (nm fn)
                       (match a.a_state with Parsed -> "parsed" | Typechecking -> "typechecking" | Typechecked -> "typechecked")
                       (match a.a_src.c_status with SPerr -> "perr" | _ -> "ok")
                       (String.concat "+" (List.sort compare (List.map show_diag a.a_tdiags))))
         | None -> ());
        (match w.w_imports fn with [] -> () | l -> add (Printf.sprintf "I%s=%s" (nm fn) (lst l)));
        (match w.w_rev fn with [] -> () | l -> add (Printf.sprintf "R%s=%s" (nm fn) (lst l)));
        (match w.w_uris fn with Some p -> add (Printf.sprintf "U%s=%d" (nm fn) (int_of_nat p)) | None -> ())
    | None -> ()
  done;
  for p = 0 to n - 1 do
    let pn = nat_of_int p in
    (match w.w_ids pn with
     | Some (f, k) -> add (Printf.sprintf "E%d=%s%s" p (nm f) (match k with KMem -> "m" | KClosed -> "c" | KFs -> "f"))
     | None -> ());
    (match w.w_failed pn with [] -> () | l -> add (Printf.sprintf "X%d=%s" p (lst l)))
  done;
  String.concat " " (List.sort compare !out)

(* some FileId that is no longer the id of its path (a closed buffer) has a cached analysis *)
let has_dead_analysis w =
  let nx = int_of_nat w.w_next in
  let r = ref false in
  for f = 0 to nx - 1 do
    let fn = nat_of_int f in
    match w.w_files fn, w.w_an fn with
    | Some (p, _), Some _ ->
        (match w.w_ids p with
         | Some (g, (KMem | KFs)) when int_of_nat g = f -> ()
         | _ -> r := true)
    | _ -> ()
  done;
  !r

let () =
  let cfg =
    if Array.length Sys.argv <= 1 then cfg_code else
    match Sys.argv.(1) with
    | "patched" | "11" -> cfg_patched
    | "10" -> { purge_closed = true; self_guard = false }
    | "01" -> { purge_closed = false; self_guard = true }
    | _ -> cfg_code in
  let want_state = Array.length Sys.argv > 2 && Sys.argv.(2) = "state" in
  let fuel = nat_of_int 300 in
  try
    while true do
      let line = String.trim (input_line stdin) in
      if line = "" || line.[0] = '#' then print_endline "SKIP" else begin
        let toks = List.filter (fun s -> s <> "") (String.split_on_char ' ' line) in
        let n, disk_s, ops_s = match toks with
          | [n; d] -> (int_of_string n, d, "")
          | n :: d :: o :: _ -> (int_of_string n, d, o)
          | _ -> failwith ("bad case " ^ line) in
        let disk_l = if disk_s = "-" then [] else
            List.map (fun e -> let (p, c) = split2 '=' e in (int_of_string p, parse_content c)) (String.split_on_char ',' disk_s) in
        let disk p = List.assoc_opt (int_of_nat p) disk_l in
        let ops = List.map parse_op (List.filter (fun s -> s <> "") (String.split_on_char ',' ops_s)) in
        let tr = trace_from cfg (fun l -> l) disk fuel empty_world ops in
        let last = ref None in
        let dead = ref false in
        let states = ref [] in
        let steps = List.map (function
            | Ok w -> last := Some w; if has_dead_analysis w then dead := true;
                if want_state then states := show_state n w :: !states;
                String.concat "," (List.sort compare (List.map show_pub w.w_log))
            | Crash Overflow -> last := None; "CRASH"
            | Crash Panic -> last := None; "CRASH") tr in
        let kind = List.fold_left (fun acc r -> match r with Crash Overflow -> "overflow" | Crash Panic -> "panic" | _ -> acc) "-" tr in
        let st = if want_state then (match !last with Some _ -> " | " ^ String.concat " || " (List.rev !states) | None -> " | -") else "" in
        print_endline (String.concat ";" steps ^ " # " ^ kind ^ (if !dead then " dead" else " nodead") ^ st)
      end
    done
  with End_of_file -> ()
