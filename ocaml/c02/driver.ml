(* C02 model driver.  Modes (first command line argument):
     src   one type s-expression per line  ->  its Nickel source
     skel  one type s-expression per line (as dumped by harness bin c02, with the excluded sets the
           parser computed)  ->  F <skeleton of contract_of T> TAB S <skeleton of contract_static_of T>
           TAB N <number of negative checks of T> TAB NS <same for static_type T> TAB WK <0|1>
     negs  one type s-expression per line  ->  its negative checks, `path kind` separated by `;`
           (path steps D C E I F:<hex field> V:<hex tag> joined by `/`)
     beh   one behavioural case per line (tab separated, see below)  ->
           <prediction default> TAB <prediction static-full> TAB <Nickel program>
   The skeleton and the predictions are computed by the functions extracted from Coq
   (Contract/Gen.v, Apply.v, Checks.v); the printers are hand-written. *)
open C02_model

(* ---------------------------------------------------------------- numbers *)
let rec pos_of_int n = if n <= 1 then XH else if n land 1 = 0 then XO (pos_of_int (n lsr 1)) else XI (pos_of_int (n lsr 1))
let z_of_int n = if n = 0 then Z0 else if n > 0 then Zpos (pos_of_int n) else Zneg (pos_of_int (-n))
let rec int_of_pos = function XH -> 1 | XO p -> 2 * int_of_pos p | XI p -> 2 * int_of_pos p + 1
let int_of_z = function Z0 -> 0 | Zpos p -> int_of_pos p | Zneg p -> - (int_of_pos p)
let rec nat_of_int n = if n <= 0 then O else S (nat_of_int (n - 1))
let rec gcd a b = if b = 0 then abs a else gcd b (a mod b)

(* ---------------------------------------------------------------- s-expression reader *)
type sx = Atom of string | L of sx list

let tokenize (s : string) : string list =
  let toks = ref [] and buf = Buffer.create 16 in
  let flush () = if Buffer.length buf > 0 then (toks := Buffer.contents buf :: !toks; Buffer.clear buf) in
  String.iter (fun c ->
    match c with
    | '(' | ')' -> flush (); toks := String.make 1 c :: !toks
    | ' ' -> flush ()
    | c -> Buffer.add_char buf c) s;
  flush ();
  List.rev !toks

let parse_sx (s : string) : sx =
  let rec one = function
    | "(" :: rest -> let (items, rest) = many rest in (L items, rest)
    | ")" :: _ -> failwith "unexpected )"
    | a :: rest -> (Atom a, rest)
    | [] -> failwith "eof"
  and many = function
    | ")" :: rest -> ([], rest)
    | toks -> let (x, rest) = one toks in let (xs, rest) = many rest in (x :: xs, rest)
  in
  match one (tokenize s) with
  | (x, []) -> x
  | _ -> failwith "trailing tokens"

let unhex (s : string) : string =
  (* "x6162" -> "ab" *)
  if String.length s = 0 || s.[0] <> 'x' then failwith ("bad hex " ^ s);
  let n = (String.length s - 1) / 2 in
  String.init n (fun i -> Char.chr (int_of_string ("0x" ^ String.sub s (1 + 2 * i) 2)))

let rec parse_dv = function
  | L [Atom "n"; Atom a; Atom b] -> DNum (z_of_int (int_of_string a), pos_of_int (int_of_string b))
  | L [Atom "s"; Atom h] -> DStr (unhex h)
  | L [Atom "b"; Atom b] -> DBool (b = "1")
  | L [Atom "u"] -> DNull
  | L [Atom "e"; Atom h] -> DEnum (unhex h, None)
  | L [Atom "v"; Atom h; x] -> DEnum (unhex h, Some (parse_dv x))
  | L (Atom "a" :: xs) -> DArr (List.map parse_dv xs)
  | L (Atom "r" :: fs) -> DRec (List.map (function L [Atom k; x] -> (unhex k, parse_dv x) | _ -> failwith "field") fs)
  | _ -> failwith "bad value"

let rec parse_ty = function
  | Atom "Dyn" -> TDyn | Atom "Num" -> TNum | Atom "Str" -> TStr | Atom "Bool" -> TBool
  | L [Atom "arr"; t] -> TArr (parse_ty t)
  | L [Atom "fun"; a; b] -> TArrow (parse_ty a, parse_ty b)
  | L (Atom "rec" :: tail :: rows) ->
      let tail = match tail with
        | Atom "closed" -> RClosed | Atom "dyn" -> RDyn
        | L [Atom "var"; Atom x] -> RVar (unhex x) | _ -> failwith "rtail" in
      TRec (List.map (function L [Atom k; t] -> (unhex k, parse_ty t) | _ -> failwith "row") rows, tail)
  | L [Atom "dict"; Atom f; t] -> TDict ((if f = "c" then FContract else FType), parse_ty t)
  | L (Atom "enum" :: tail :: rows) ->
      let tail = match tail with
        | Atom "closed" -> EClosed | L [Atom "var"; Atom x] -> EVar (unhex x) | _ -> failwith "etail" in
      TEnum (List.map (function
               | L [Atom k] -> (unhex k, None)
               | L [Atom k; t] -> (unhex k, Some (parse_ty t))
               | _ -> failwith "erow") rows, tail)
  | L [Atom "all"; Atom x; k; t] ->
      let k = match k with
        | Atom "ty" -> KType | Atom "en" -> KEnumRows
        | L (Atom "rr" :: xs) -> KRecRows (List.map (function Atom h -> unhex h | _ -> failwith "excl") xs)
        | _ -> failwith "kind" in
      TForall (unhex x, k, parse_ty t)
  | L [Atom "tv"; Atom x] -> TVar (unhex x)
  | L [Atom "op"; Atom n] -> TOpaque (nat_of_int (int_of_string n))
  | _ -> failwith "bad type"

(* ---------------------------------------------------------------- printers: Nickel source *)
let keywords = ["if"; "then"; "else"; "let"; "in"; "fun"; "match"; "forall"; "import"; "rec"; "null";
                "true"; "false"; "or"; "as"; "include"; "Dyn"; "Number"; "String"; "Bool"; "Array"]

let is_simple_ident (s : string) : bool =
  String.length s > 0
  && (match s.[0] with 'a' .. 'z' | 'A' .. 'Z' -> true | _ -> false)
  && (let ok = ref true in
      String.iter (fun c -> match c with 'a' .. 'z' | 'A' .. 'Z' | '0' .. '9' | '_' -> () | _ -> ok := false) s; !ok)
  && not (List.mem s keywords)

let nickel_string (s : string) : string =
  let b = Buffer.create (String.length s + 2) in
  Buffer.add_char b '"';
  String.iter (fun c ->
    match c with
    | '"' -> Buffer.add_string b "\\\""
    | '\\' -> Buffer.add_string b "\\\\"
    | '%' -> Buffer.add_string b "\\%"
    | '\n' -> Buffer.add_string b "\\n"
    | '\t' -> Buffer.add_string b "\\t"
    | c -> Buffer.add_char b c) s;
  Buffer.add_char b '"';
  Buffer.contents b

let ident (s : string) : string = if is_simple_ident s then s else nickel_string s

let rec src_dv (v : dv) : string =
  match v with
  | DNum (n, d) ->
      let n = int_of_z n and d = int_of_pos d in
      let body = if d = 1 then string_of_int n else Printf.sprintf "%d/%d" n d in
      if n < 0 || d <> 1 then "(" ^ body ^ ")" else body
  | DStr s -> nickel_string s
  | DBool b -> if b then "true" else "false"
  | DNull -> "null"
  | DEnum (t, None) -> "'" ^ ident t
  | DEnum (t, Some a) -> "('" ^ ident t ^ " " ^ src_dv a ^ ")"
  | DArr es -> "[" ^ String.concat ", " (List.map src_dv es) ^ "]"
  | DRec [] -> "{}"
  | DRec fs -> "{ " ^ String.concat ", " (List.map (fun (k, x) -> ident k ^ " = " ^ src_dv x) fs) ^ " }"

let rec src_ty (t : ty) : string =
  match t with
  | TDyn -> "Dyn" | TNum -> "Number" | TStr -> "String" | TBool -> "Bool"
  | TArr t -> "Array " ^ atom_ty t
  | TArrow (a, b) -> atom_ty a ^ " -> " ^ (match b with TArrow _ -> src_ty b | _ -> atom_ty b)
  | TRec (rows, tail) ->
      let rows = String.concat ", " (List.map (fun (k, t) -> ident k ^ " : " ^ src_ty t) rows) in
      (match tail with
       | RClosed -> "{ " ^ rows ^ " }"
       | RDyn -> "{ " ^ rows ^ " ; Dyn }"
       | RVar x -> "{ " ^ rows ^ " ; " ^ x ^ " }"
       | RExcl _ -> "{ " ^ rows ^ " ; Dyn }")
  | TDict (FType, t) -> "{ _ : " ^ src_ty t ^ " }"
  | TDict (FContract, t) -> "{ _ | " ^ src_ty t ^ " }"
  | TEnum (rows, tail) ->
      let rows = String.concat ", " (List.map (fun (k, ot) ->
        match ot with None -> "'" ^ ident k | Some t -> "'" ^ ident k ^ " " ^ atom_ty t) rows) in
      (match tail with
       | EClosed -> "[| " ^ rows ^ " |]"
       | EVar x -> "[| " ^ rows ^ " ; " ^ x ^ " |]")
  | TForall (x, _, t) -> "forall " ^ x ^ ". " ^ src_ty t
  | TVar x -> x
  | TOpaque n -> "Ctr0"
and atom_ty t =
  match t with
  | TDyn | TNum | TStr | TBool | TRec _ | TEnum _ | TDict _ | TVar _ | TOpaque _ -> src_ty t
  | _ -> "(" ^ src_ty t ^ ")"

(* ---------------------------------------------------------------- printer: nkeval's result tree *)
let json_str (s : string) : string =
  let b = Buffer.create (String.length s + 2) in
  Buffer.add_char b '"';
  String.iter (fun c ->
    match c with
    | '"' -> Buffer.add_string b "\\\""
    | '\\' -> Buffer.add_string b "\\\\"
    | '\n' -> Buffer.add_string b "\\n"
    | '\t' -> Buffer.add_string b "\\t"
    | c when Char.code c < 0x20 -> Buffer.add_string b (Printf.sprintf "\\u%04x" (Char.code c))
    | c -> Buffer.add_char b c) s;
  Buffer.add_char b '"';
  Buffer.contents b

let rec tree_dv (v : dv) : string =
  match v with
  | DNum (n, d) ->
      let n = int_of_z n and d = int_of_pos d in
      let g = gcd n d in
      let g = if g = 0 then 1 else g in
      let n = n / g and d = d / g in
      if d = 1 then Printf.sprintf "#%d" n else Printf.sprintf "#%d/%d" n d
  | DStr s -> json_str s
  | DBool b -> if b then "true" else "false"
  | DNull -> "null"
  | DEnum (t, None) -> "'" ^ json_str t
  | DEnum (t, Some a) -> "('" ^ json_str t ^ " " ^ tree_dv a ^ ")"
  | DArr es -> "[" ^ String.concat "," (List.map tree_dv es) ^ "]"
  | DRec fs ->
      let fs = List.sort (fun (a, _) (b, _) -> compare a b) (List.map (fun (k, x) -> (k, tree_dv x)) fs) in
      "{" ^ String.concat "," (List.map (fun (k, x) -> json_str k ^ ":" ^ x) fs) ^ "}"


(* ---------------------------------------------------------------- skeletons *)
let sort_hex (l : string list) : string =
  "[" ^ String.concat " " (List.sort compare (List.map (fun s ->
     "x" ^ String.concat "" (List.map (fun c -> Printf.sprintf "%02x" (Char.code c)) (List.init (String.length s) (String.get s))))
     l)) ^ "]"

let hexs (s : string) : string =
  "x" ^ String.concat "" (List.map (fun c -> Printf.sprintf "%02x" (Char.code c)) (List.init (String.length s) (String.get s)))

let rec int_of_nat = function O -> 0 | S n -> 1 + int_of_nat n

let show_pol = function Pos -> "+" | Neg -> "-"

let skel_var = function
  | VForallVar k -> Printf.sprintf "($forall_var %d)" (int_of_nat k)
  | VForallEnumTail -> "$forall_enum_tail"
  | VForallRecordTail (k, ex) -> Printf.sprintf "($forall_record_tail %d %s)" (int_of_nat k) (sort_hex ex)
  | VExcludedOnly ex -> Printf.sprintf "($forall_record_tail_excluded_only %s)" (sort_hex ex)

let rec skel = function
  | CDyn -> "$dyn" | CNum -> "$num" | CBool -> "$bool" | CStr -> "$string"
  | CArray c -> "($array " ^ skel c ^ ")"
  | CArrayDyn -> "$array_dyn"
  | CFunc (d, c) -> "($func " ^ skel d ^ " " ^ skel c ^ ")"
  | CFuncDom d -> "($func_dom " ^ skel d ^ ")"
  | CFuncCodom c -> "($func_codom " ^ skel c ^ ")"
  | CFuncDyn -> "$func_dyn"
  | CVarRef b -> skel_var b
  | CForall (k, p, c) -> Printf.sprintf "($forall %d %s %s)" (int_of_nat k) (show_pol p) (skel c)
  | CEnum (bs, def) ->
      let subs = List.concat (List.map (fun (_, oc) -> match oc with Some c -> [skel c] | None -> []) bs) in
      let d = match def with None -> "$enum_fail" | Some b -> skel_var b in
      "($enum" ^ String.concat "" (List.map (fun s -> " " ^ s) (subs @ [d])) ^ ")"
  | CRecord (fs, tail, ht) ->
      let t = match tail with CTEmpty -> "$empty_tail" | CTDyn -> "$dyn_tail" | CTVar b -> skel_var b in
      "($record_type {" ^ String.concat " " (List.map (fun (k, c) -> hexs k ^ "=" ^ skel c) fs) ^ "} " ^ t ^ " "
      ^ (if ht then "true" else "false") ^ ")"
  | CDictDyn -> "$dict_dyn"
  | CDictContract c -> "($dict_contract " ^ skel c ^ ")"
  | CDictType c -> "($dict_type " ^ skel c ^ ")"
  | COpaque _ -> "(opaque)"

let skel_opt = function Some c -> skel c | None -> "UNBOUND"

(* well-kinded and closed, as the parser guarantees (mirrors GenProofs.wk; only reported) *)
let rec wk t kenv =
  match t with
  | TDyn | TNum | TStr | TBool | TOpaque _ -> true
  | TArr t -> wk t kenv
  | TArrow (a, b) -> wk a kenv && wk b kenv
  | TRec (rows, tail) ->
      List.for_all (fun (_, t) -> wk t kenv) rows
      && (match tail with RVar x -> (match List.assoc_opt x kenv with Some (KRecRows _) -> true | _ -> false) | _ -> true)
  | TDict (_, t) -> wk t kenv
  | TEnum (rows, tail) ->
      List.for_all (fun (_, ot) -> match ot with Some t -> wk t kenv | None -> true) rows
      && (match tail with EVar x -> (match List.assoc_opt x kenv with Some KEnumRows -> true | _ -> false) | EClosed -> true)
  | TForall (x, k, t) -> wk t ((x, k) :: kenv)
  | TVar x -> (match List.assoc_opt x kenv with Some KType -> true | _ -> false)

(* ---------------------------------------------------------------- the negative checks of a type *)
let show_step = function
  | SDom -> "D" | SCodom -> "C" | SElem -> "E" | SDict -> "I"
  | SField f -> "F:" ^ hexs f
  | SVariant t -> "V:" ^ hexs t

let show_kind = function
  | KNumber -> "number" | KString -> "string" | KBoolean -> "bool"
  | KIsArray -> "isarray" | KIsFun -> "isfun" | KIsRecord -> "isrecord" | KIsEnum -> "isenum"
  | KHasField f -> "hasfield:" ^ hexs f
  | KNoExtra -> "noextra" | KEnumTag -> "enumtag"
  | KVar _ -> "var" | KTailUnseal _ -> "tailunseal" | KTailSeal _ -> "tailseal"
  | KExcluded fs -> "excluded:" ^ String.concat "," (List.map hexs fs)
  | KOpaque _ -> "opaque"

let show_check (c : chk) : string =
  String.concat "/" (List.map show_step c.c_path) ^ " " ^ show_kind c.c_kind

(* ---------------------------------------------------------------- outcomes *)
let show_outcome = function
  | Ok v -> "OK " ^ tree_dv v
  | Err (Blame p) -> "ERR Blame" ^ show_pol p
  | Err UnboundTypeVar -> "ERR UnboundId"
  | Err FieldMissing -> "ERR FieldMissing"
  | Err OutOfFragment -> "ERR OutOfFragment"

let obind o f = match o with Ok a -> f a | Err e -> Err e

let beh (fields : string list) : string =
  let pv s = parse_dv (parse_sx s) and pt s = parse_ty (parse_sx s) in
  match fields with
  | ["data"; st; sv] ->
      let t = pt st and v = pv sv in
      let full = obind (check t v) (fun v' -> check t v') in
      let dflt = obind (check t v) (fun v' ->
        match contract_static_of t with Some c -> apply_data c Pos v' | None -> Err UnboundTypeVar) in
      let prog = Printf.sprintf "let x : %s = ((%s) | %s) in x" (src_ty t) (src_dv v) (src_ty t) in
      String.concat "\t" [show_outcome dflt; show_outcome full; prog]
  | ["fun1"; ann; sa; sb; sarg; sres] ->
      let a = pt sa and b = pt sb and arg = pv sarg and res = pv sres in
      let t = TArrow (a, b) in
      if ann = "ctr" then begin
        let g = fun _ -> Ok res in
        let full = obind (wrap_full t g) (fun w -> w arg) in
        let prog = Printf.sprintf "let f | %s = fun x => std.deep_seq (x | Dyn) (%s) in f (%s)" (src_ty t) (src_dv res) (src_dv arg) in
        String.concat "\t" [show_outcome full; show_outcome full; prog]
      end else begin
        let g = fun _ -> check b res in
        let full = obind (wrap_full t g) (fun w -> w arg) in
        let dflt = obind (wrap_static t g) (fun w -> w arg) in
        let prog = Printf.sprintf "let f : %s = fun x => std.deep_seq (x | Dyn) ((%s) | %s) in f (%s)"
                     (src_ty t) (src_dv res) (src_ty b) (src_dv arg) in
        String.concat "\t" [show_outcome dflt; show_outcome full; prog]
      end
  | ["fun2"; sa; sb; sc; sa0; sr; sc0; cbkind] ->
      let a = pt sa and b = pt sb and c = pt sc and a0 = pv sa0 and r = pv sr and c0 = pv sc0 in
      let t = TArrow (TArrow (a, b), c) in
      let h = fun cb -> obind (check a a0) (fun x -> obind (cb x) (fun _ -> check c c0)) in
      let arg = if cbkind = "data" then AData r else ACallback (fun _ -> Ok r) in
      let full = obind (wrap2_full t h) (fun w -> w arg) in
      let dflt = obind (wrap2_static t h) (fun w -> w arg) in
      let cbsrc = if cbkind = "data" then Printf.sprintf "(%s)" (src_dv r)
                  else Printf.sprintf "(fun x => std.deep_seq x (%s))" (src_dv r) in
      let prog = Printf.sprintf "let f : %s = fun cb => std.deep_seq ((cb ((%s) | %s)) | Dyn) ((%s) | %s) in f %s"
                   (src_ty t) (src_dv a0) (src_ty a) (src_dv c0) (src_ty c) cbsrc in
      String.concat "\t" [show_outcome dflt; show_outcome full; prog]
  | _ -> "BADLINE"

let () =
  let mode = if Array.length Sys.argv > 1 then Sys.argv.(1) else "skel" in
  try
    while true do
      let line = input_line stdin in
      let out =
        try
          match mode with
          | "src" -> src_ty (parse_ty (parse_sx line))
          | "skel" ->
              let t = parse_ty (parse_sx line) in
              let n l = List.length l in
              String.concat "\t" [
                "F " ^ skel_opt (contract_of t);
                "S " ^ skel_opt (contract_static_of t);
                Printf.sprintf "N %d" (n (negs (checks t Pos [])));
                Printf.sprintf "NS %d" (n (negs (checks (static_type t) Pos [])));
                (if wk t [] then "WK 1" else "WK 0") ]
          | "negs" ->
              (* the negative checks of the type (the ones simplify must keep) *)
              let t = parse_ty (parse_sx line) in
              String.concat ";" (List.map show_check (negs (checks t Pos [])))
          | _ -> beh (String.split_on_char '\t' line)
        with Failure m -> "MODEL-ERR " ^ m
      in
      print_string out; print_newline ()
    done
  with End_of_file -> ()
