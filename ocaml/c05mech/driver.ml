(* Reads one s-expression program per line (the format of checks/mergegen.py, same as ocaml/c05),
   elaborates it in the MECHANISM model (record literals: fields inserted in written order, merges
   suspended) and prints, TAB-separated, in the format of harness nkeval:
     0  export            nkeval ""            sorted tree / error-kind set
     1  export, map order nkeval "order"
     2  full,   map order nkeval "full,order"  (hidden fields forced and shown, without the ~ mark)
     3  %record/fields%            of the value
     4  %record/fields_with_opts%  of the value
     5  %record/values%            of the value, each element exported
     6  std.record.to_array        of the value, each element exported
     7  the ALGEBRA's export of the same program (must equal column 0: theorem export_refines)
     8  WF / !WF: the hypothesis [mwfb] of the theorems, and abs (melab e) = elab e (melab_refines)
   Only parsing and printing happen here. *)
open Mergemech_model

type sx = A of string | L of sx list

let parse (s : string) : sx =
  let n = String.length s in
  let pos = ref 0 in
  let rec skip () = while !pos < n && s.[!pos] = ' ' do incr pos done in
  let rec item () =
    skip ();
    if s.[!pos] = '(' then begin
      incr pos;
      let items = ref [] in
      skip ();
      while s.[!pos] <> ')' do items := item () :: !items; skip () done;
      incr pos;
      L (List.rev !items)
    end else begin
      let st = !pos in
      while !pos < n && s.[!pos] <> ' ' && s.[!pos] <> ')' && s.[!pos] <> '(' do incr pos done;
      A (String.sub s st (!pos - st))
    end in
  item ()

let rec pos_of_int n = if n <= 1 then XH else if n land 1 = 0 then XO (pos_of_int (n lsr 1)) else XI (pos_of_int (n lsr 1))
let n_of_int n = if n = 0 then N0 else Npos (pos_of_int n)
let z_of_int n = if n = 0 then Z0 else if n > 0 then Zpos (pos_of_int n) else Zneg (pos_of_int (-n))
let rec int_of_pos = function XH -> 1 | XO p -> 2 * int_of_pos p | XI p -> 2 * int_of_pos p + 1
let int_of_n = function N0 -> 0 | Npos p -> int_of_pos p
let int_of_z = function Z0 -> 0 | Zpos p -> int_of_pos p | Zneg p -> - (int_of_pos p)

let ios = int_of_string

let atom_of = function
  | L [A "n"; A p; A q] -> Some (ANum (z_of_int (ios p), pos_of_int (ios q)))
  | L [A "s"; A k] -> Some (AStr (n_of_int (ios k)))
  | L [A "b"; A k] -> Some (ABool (k = "1"))
  | L [A "z"] -> Some ANull
  | L [A "t"; A k] -> Some (AEnum (n_of_int (ios k)))
  | _ -> None

let prio_of = function
  | A "d" -> SBot | A "x" -> SNeutral | A "F" -> STop
  | L [A "p"; A p; A q] -> SNum { qnum = z_of_int (ios p); qden = pos_of_int (ios q) }
  | _ -> failwith "prio"

let rec expr_of (x : sx) : expr =
  match atom_of x with
  | Some a -> EAtom a
  | None ->
    match x with
    | L [A "v"; A k; e] -> EVar (n_of_int (ios k), expr_of e)
    | L (A "a" :: es) -> EArr (List.map expr_of es)
    | L (A "r" :: fs) -> ERec (List.map field_of fs)
    | L [A "m"; a; b] -> EMerge (expr_of a, expr_of b)
    | _ -> failwith "expr"
and field_of = function
  | L [A "f"; A k; p; A o; A h; L cs; v] ->
      (((((n_of_int (ios k), prio_of p), o = "1"), h = "1"),
        List.map (function A c -> n_of_int (ios c) | _ -> failwith "cid") cs),
       (match v with A "_" -> None | e -> Some (expr_of e)))
  | _ -> failwith "field"

let sat (c : n) (j : j) : bool =
  match int_of_n c, j with
  | 0, JAtom (ANum _) -> true
  | 1, JAtom (AStr _) -> true
  | 2, JAtom (ABool _) -> true
  | 3, JAtom (ANum (p, _)) -> int_of_z p > 0
  | 4, JAtom (ANum (p, q)) -> int_of_pos q = 1 && (int_of_z p) mod 2 = 0
  | 5, JAtom (AStr s) -> int_of_n s <> 0
  | _, _ -> false

let key k = String.make 1 (Char.chr (97 + int_of_n k))

let show_atom = function
  | ANum (p, q) -> if int_of_pos q = 1 then Printf.sprintf "#%d" (int_of_z p) else Printf.sprintf "#%d/%d" (int_of_z p) (int_of_pos q)
  | AStr s -> let k = int_of_n s in if k = 0 then "\"\"" else Printf.sprintf "\"s%d\"" k
  | ABool b -> if b then "true" else "false"
  | ANull -> "null"
  | AEnum t -> Printf.sprintf "'\"T%d\"" (int_of_n t)

let rec show_j = function
  | JAtom a -> show_atom a
  | JArr es -> "[" ^ String.concat "," (List.map show_j es) ^ "]"
  | JObj fs -> "{" ^ String.concat "," (List.map (fun (k, v) -> Printf.sprintf "\"%s\":%s" (key k) (show_j v)) fs) ^ "}"

let show_errk = function
  | ENonMergeable -> "NonMergeable" | EMissingDef -> "MissingDef" | EBlame -> "Blame"
  | ENotExportable -> "NotExportable" | EFuel -> "Fuel"

let names_of_eset (e : eset) : string list =
  List.concat [ (if e.e_bl then ["Blame"] else []); (if e.e_fuel then ["Fuel"] else []);
                (if e.e_md then ["MissingDef"] else []); (if e.e_nm then ["NonMergeable"] else []);
                (if e.e_ne then ["NotExportable"] else []); (if e.e_panic then ["Panic"] else []) ]

let show_mres = function
  | Inl j -> "OK " ^ show_j j
  | Inr e -> "ERR " ^ String.concat "|" (List.sort compare (names_of_eset e))

let show_out (f : 'a -> string) (o : 'a out) : string =
  match o with
  | Ok a -> f a
  | Err k -> "ERR " ^ show_errk k
  | TypeErr -> "ERR TypeErr"
  | Panic -> "ERR Panic"

let union_names a b = List.sort_uniq compare (a @ b)

(* a lazily handed-out field value, forced for printing: the value exported, its pending contracts
   checked on the result (glue of the tie: the same rule as field_export) *)
let export_lazy ((cs, x) : cid list * mval) : (string, string list) Either.t =
  match x_export_json sat x with
  | Inl j -> if List.for_all (fun c -> sat c j) cs then Either.Left (show_j j) else Either.Right ["Blame"]
  | Inr e -> Either.Right (union_names (names_of_eset e) (if cs = [] then [] else ["Blame"]))

let collect (parts : (string, string list) Either.t list) : string =
  let errs = List.concat_map (function Either.Right e -> e | _ -> []) parts in
  if errs <> [] then "ERR " ^ String.concat "|" (List.sort_uniq compare errs)
  else "OK [" ^ String.concat "," (List.filter_map (function Either.Left s -> Some s | _ -> None) parts) ^ "]"

let show_fields ks = "OK [" ^ String.concat "," (List.map (fun k -> "\"" ^ key k ^ "\"") ks) ^ "]"

let () =
  try
    while true do
      let line = input_line stdin in
      (try
         let e = expr_of (parse line) in
         match x_melab e with
         | Ok v ->
             let cols = [
               show_mres (x_export_json sat v);
               show_mres (x_export_ordered sat v);
               show_mres (x_full_ordered sat v);
               show_out show_fields (x_record_fields false v);
               show_out show_fields (x_record_fields true v);
               show_out (fun vs -> collect (List.map export_lazy vs)) (x_record_values v);
               show_out (fun kvs ->
                   collect (List.map (fun (k, acc) ->
                       match acc with
                       | Ok (Some lv) ->
                           (match export_lazy lv with
                            | Either.Left s -> Either.Left (Printf.sprintf "{\"field\":\"%s\",\"value\":%s}" (key k) s)
                            | Either.Right er -> Either.Right er)
                       | Ok None -> Either.Right ["FieldMissing"]
                       | Err k -> Either.Right [show_errk k]
                       | TypeErr -> Either.Right ["TypeErr"]
                       | Panic -> Either.Right ["Panic"]) kvs))
                 (x_record_to_array v);
               (let d = elab e in
                match export sat d with
                | Inl j -> (if wf d then "OK " else "OK!WF ") ^ show_j j
                | Inr es -> (if wf d then "ERR " else "ERR!WF ") ^ String.concat "|" (List.sort compare (List.map show_errk es)));
               (if mwfb v && abs0 v = elab e then "WF" else "!WF")
             ] in
             print_string (String.concat "\t" cols)
         | Err _ | TypeErr | Panic -> print_string "BAD melab"
       with Failure m -> print_string ("BAD " ^ m));
      print_newline ()
    done
  with End_of_file -> ()
