(* C13 model driver.  One case per line on stdin: `<kind>\t<field>\t...`, one result line per case,
   in the same format as harness/src/bin/c13.rs (see that file for the protocol).
   Strings travel as lists of code points `c1.c2.c3` (`-` = empty); big integers in binary. *)
open C13_model

let rec pos_of_int n = if n <= 1 then XH else if n land 1 = 1 then XI (pos_of_int (n lsr 1)) else XO (pos_of_int (n lsr 1))
let n_of_int n = if n <= 0 then N0 else Npos (pos_of_int n)
let rec int_of_pos = function XH -> 1 | XO p -> 2 * int_of_pos p | XI p -> 2 * int_of_pos p + 1
let int_of_n = function N0 -> 0 | Npos p -> int_of_pos p

(* binary strings, most significant bit first *)
let rec bits_of_pos p acc = match p with
  | XH -> "1" ^ acc | XO q -> bits_of_pos q ("0" ^ acc) | XI q -> bits_of_pos q ("1" ^ acc)
let bits_of_pos p =
  let b = Buffer.create 64 in
  let rec go p l = match p with XH -> '1' :: l | XO q -> go q ('0' :: l) | XI q -> go q ('1' :: l) in
  List.iter (Buffer.add_char b) (go p []); Buffer.contents b
let show_z = function Z0 -> "0" | Zpos p -> bits_of_pos p | Zneg p -> "-" ^ bits_of_pos p
let pos_of_bits s =
  (* s starts with '1' *)
  let p = ref XH in
  for i = 1 to String.length s - 1 do
    p := if s.[i] = '1' then XI !p else XO !p
  done; !p
let z_of_bits s =
  if s = "0" || s = "" then Z0
  else if s.[0] = '-' then Zneg (pos_of_bits (String.sub s 1 (String.length s - 1)))
  else Zpos (pos_of_bits s)

let cps_of_string s : str =
  if s = "-" || s = "" then [] else List.map (fun x -> n_of_int (int_of_string x)) (String.split_on_char '.' s)
let show_cps (l : str) = if l = [] then "-" else String.concat "." (List.map (fun c -> string_of_int (int_of_n c)) l)

let show_err = function
  | EGeneric -> "Generic" | EInvalidEscape -> "InvalidEscape" | EInvalidAscii -> "InvalidAscii"
  | EEof -> "Eof" | ENotAString -> "NotAString" | EFuel -> "Fuel"

let show_lex = function
  | LexStatic (s, rest) -> "S:" ^ show_cps s ^ "|R:" ^ show_cps rest
  | LexInterp (pre, rest) -> "I:" ^ show_cps pre
  | LexErr e -> "E:" ^ show_err e

let show_sres = function
  | RNull -> "Z" | RBool true -> "B:true" | RBool false -> "B:false"
  | RNum (m, e) -> "N:" ^ show_z m ^ ":" ^ show_z e
  | RStr s -> "S:" ^ show_cps s | RErr -> "E"

let style_of = function
  | "plain" -> Plain | "single" -> SingleQuoted | "double" -> DoubleQuoted | "literal" -> Literal | "folded" -> Folded
  | s -> failwith ("style " ^ s)
let tag_of = function
  | "none" -> None | "bool" -> Some TagBool | "int" -> Some TagInt | "float" -> Some TagFloat
  | "null" -> Some TagNull | "str" -> Some TagStr | "coreother" -> Some TagCoreOther | "noncore" -> Some TagNonCore
  | s -> failwith ("tag " ^ s)

let b2s b = if b then "1" else "0"

(* events: `{ } [ ] s:<cps> n:<cps> t f z` separated by spaces *)
let ev_of_string w =
  match w with
  | "{" -> EBeginObj | "}" -> EEndObj | "[" -> EBeginArr | "]" -> EEndArr
  | "t" -> EBool true | "f" -> EBool false | "z" -> ENull
  | _ ->
      let body = String.sub w 2 (String.length w - 2) in
      if w.[0] = 's' then EStr (cps_of_string body) else ENum (cps_of_string body)

let dec_z (z : z) : string = String.concat "" (List.map (fun c -> String.make 1 (Char.chr (int_of_n c))) (dec_of_Z z))

let rec show_dv (v : dv) : string =
  match v with
  | DNull -> "null" | DBool b -> if b then "true" else "false"
  | DNum (m, e) -> "#" ^ dec_z m ^ (if e = Z0 then "" else "e" ^ dec_z e)
  | DFloat _ -> "~float"
  | DStr s -> "s" ^ show_cps s
  | DArr l -> "[" ^ String.concat "," (List.map show_dv l) ^ "]"
  | DRec fs ->
      let ks = List.map (fun (k, _) -> List.map int_of_n k) fs in
      let sorted = List.sort_uniq compare ks in
      if List.length sorted <> List.length ks then "{dup}"
      else
        let fs' = List.sort (fun (a, _) (b, _) -> compare (List.map int_of_n a) (List.map int_of_n b)) fs in
        "{" ^ String.concat "," (List.map (fun (k, v) -> show_cps k ^ ":" ^ show_dv v) fs') ^ "}"

let show_odv = function Some v -> show_dv v | None -> "ERR"

let handle (line : string) : string =
  match String.split_on_char '\t' line with
  | ["esc"; s] ->
      let s = cps_of_string s in
      let p = print_string s in
      Printf.sprintf "P=%s L=%s" (show_cps p) (show_lex (lex_string p))
  | ["lex"; s] -> Printf.sprintf "L=%s" (show_lex (lex_string (cps_of_string s)))
  | ["key"; k] ->
      let k = cps_of_string k in
      let p = print_key printer_keywords k in
      let after = List.map n_of_int [32; 61; 32; 49] in   (* " = 1" *)
      let r = match key_of grammar_accepted (lex_key lexer_reserved (app p after)) with
        | Some (k', rest) -> if rest = after then show_cps k' else "!rest"
        | None -> "!" in
      Printf.sprintf "P=%s K=%s" (show_cps p) r
  | ["ktok"; s] ->
      (match lex_key lexer_reserved (cps_of_string s) with
       | KIdent (id, _) -> "I:" ^ show_cps id
       | KKw (id, _) -> "W:" ^ show_cps id
       | KStr (s, _) -> "S:" ^ show_cps s
       | KDyn -> "D" | KStrStart -> "M" | KErr e -> "E:" ^ show_err e | KOther -> "O")
  | ["int"; b] ->
      let z = z_of_bits b in
      let path = match serialize_int z with NI64 _ -> "i64" | NU64 _ -> "u64" | NF64 -> "f64" in
      (match int_token z with
       | None -> Printf.sprintf "T=! P=%s" path
       | Some t ->
           let y = show_sres (resolve Plain None t) in
           let yj = y in
           let j = match json_serde_int t with SInt v -> "N:" ^ show_z v ^ ":0" | SFloat -> "F" | SBad -> "!" in
           let m = match toml_int t with TInt v -> "N:" ^ show_z v ^ ":0" | TErr -> "E" in
           Printf.sprintf "T=%s P=%s Y=%s JL=%s J=%s M=%s" (show_cps t) path y yj j m)
  | ["ys"; st; tg; v] ->
      let v = cps_of_string v in
      Printf.sprintf "%s ns=%s ov=%s" (show_sres (resolve (style_of st) (tag_of tg) v))
        (b2s (nonstring_spelling v)) (b2s (float_overflow_spelling v))
  | ["evs"; evs] ->
      let ws = List.filter (fun w -> w <> "") (String.split_on_char ' ' evs) in
      let es = List.map ev_of_string ws in
      Printf.sprintf "loader=%s serde=%s" (show_odv (loader_run es)) (show_odv (serde_run es))
  | _ -> "!badcase"

let () =
  try
    while true do
      let line = input_line stdin in
      let out = try handle line with e -> "!exn " ^ Printexc.to_string e in
      Stdlib.print_string out; Stdlib.print_newline ()
    done
  with End_of_file -> ()
