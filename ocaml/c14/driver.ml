(* C14 model driver.  One request per stdin line, one answer per stdout line (fields separated by
   tabs, escaped with \n \t \r \\ like harness/src/bin/c14.rs).

     print <sexp>     build the model AST from the s-expression (same format as the harness),
                      -> <tokens of [print t]> <parser_image t: 0|1> <status> where status is
                         OK      parse (print t) = Some t
                         DIFF    parse (print t) = Some t' <> t      (third field: dump of t')
                         NONE    parse (print t) = None
     parse <tokens>   -> <parser_image of the result: 0|1> <dump of the parsed term> | NONE
     lexmulti ...     see [Multi] below

   Only glue: s-expression reading/writing and token rendering.  Everything that decides
   something ([print], [parse], the tables) is extracted from Coq. *)
open C14_model

(* ------------------------------------------------------------------ line protocol *)

let unescape s =
  let b = Buffer.create (String.length s) in
  let n = String.length s in
  let i = ref 0 in
  while !i < n do
    let c = s.[!i] in
    if c = '\\' && !i + 1 < n then begin
      (match s.[!i + 1] with
       | 'n' -> Buffer.add_char b '\n'
       | 't' -> Buffer.add_char b '\t'
       | 'r' -> Buffer.add_char b '\r'
       | '\\' -> Buffer.add_char b '\\'
       | d -> Buffer.add_char b '\\'; Buffer.add_char b d);
      i := !i + 2
    end else begin Buffer.add_char b c; incr i end
  done;
  Buffer.contents b

let escape s =
  let b = Buffer.create (String.length s) in
  String.iter (function
      | '\\' -> Buffer.add_string b "\\\\"
      | '\n' -> Buffer.add_string b "\\n"
      | '\t' -> Buffer.add_string b "\\t"
      | '\r' -> Buffer.add_string b "\\r"
      | c -> Buffer.add_char b c) s;
  Buffer.contents b

(* ------------------------------------------------------------------ s-expressions *)

type sx = A of string | Q of string | L of sx list

exception Bad of string

let parse_sx (src : string) : sx =
  let n = String.length src in
  let i = ref 0 in
  let ws () = while !i < n && (match src.[!i] with ' ' | '\n' | '\t' | '\r' -> true | _ -> false) do incr i done in
  let rec rd () =
    ws ();
    if !i >= n then raise (Bad "eof");
    match src.[!i] with
    | '(' ->
      incr i;
      let items = ref [] in
      let fin = ref false in
      while not !fin do
        ws ();
        if !i >= n then raise (Bad "eof in list");
        if src.[!i] = ')' then (incr i; fin := true) else items := rd () :: !items
      done;
      L (List.rev !items)
    | '"' ->
      incr i;
      let b = Buffer.create 16 in
      let fin = ref false in
      while not !fin do
        if !i >= n then raise (Bad "eof in string");
        let c = src.[!i] in
        incr i;
        if c = '"' then fin := true
        else if c = '\\' then begin
          let d = src.[!i] in
          incr i;
          (match d with
           | 'n' -> Buffer.add_char b '\n'
           | 'r' -> Buffer.add_char b '\r'
           | 't' -> Buffer.add_char b '\t'
           | 'x' ->
             Buffer.add_char b (Char.chr (int_of_string ("0x" ^ String.sub src !i 2)));
             i := !i + 2
           | d -> Buffer.add_char b d)
        end else Buffer.add_char b c
      done;
      Q (Buffer.contents b)
    | _ ->
      let st = !i in
      while !i < n && (match src.[!i] with ' ' | '\n' | '\t' | '\r' | '(' | ')' | '"' -> false | _ -> true) do incr i done;
      A (String.sub src st (!i - st))
  in
  let r = rd () in
  ws ();
  if !i <> n then raise (Bad "trailing input");
  r

let quote (x : string) : string =
  let b = Buffer.create (String.length x + 2) in
  Buffer.add_char b '"';
  String.iter (fun c ->
      match c with
      | '"' -> Buffer.add_string b "\\\""
      | '\\' -> Buffer.add_string b "\\\\"
      | '\n' -> Buffer.add_string b "\\n"
      | '\r' -> Buffer.add_string b "\\r"
      | '\t' -> Buffer.add_string b "\\t"
      | c when Char.code c < 0x20 -> Buffer.add_string b (Printf.sprintf "\\x%02x" (Char.code c))
      | c -> Buffer.add_char b c) x;
  Buffer.add_char b '"';
  Buffer.contents b

let rec show = function
  | A s -> s
  | Q s -> quote s
  | L xs -> "(" ^ String.concat " " (List.map show xs) ^ ")"

let l tag xs = L (A tag :: xs)
let opt = function None -> l "none" [] | Some x -> l "some" [x]
let b01 b = A (if b then "1" else "0")

let bad what x = raise (Bad (what ^ ": " ^ show x))
let str = function Q s -> s | x -> bad "expected string" x
let get_opt = function
  | L [A "none"] -> None
  | L [A "some"; x] -> Some x
  | x -> bad "expected option" x
let get_b01 = function A "0" -> false | A "1" -> true | x -> bad "expected 0/1" x
let items = function L xs -> xs | x -> bad "expected list" x

let rec nat_of_int n = if n <= 0 then O else S (nat_of_int (n - 1))
let rec int_of_nat = function O -> 0 | S n -> 1 + int_of_nat n

let num_of_string s =
  match q_of_string s with Some q -> q | None -> raise (Bad ("bad number " ^ s))

(* ------------------------------------------------------------------ sexp -> model AST *)

let op_of = function
  | L [A "stat_access"; Q id] -> OStatAccess id
  | L [A "enum_embed"; Q id] -> OEnumEmbed id
  | Q name -> ONamed name
  | x -> bad "bad op" x

let prio_of = function
  | A "bottom" -> PBottom
  | A "neutral" -> PNeutral
  | A "top" -> PTop
  | L [A "numeral"; Q n] -> PNumeral (num_of_string n)
  | x -> bad "bad priority" x

let ptail_of = function
  | A "closed" -> TClosed
  | A "open" -> TOpen
  | L [A "capture"; Q x] -> TCapture x
  | x -> bad "bad tail" x

let rec term_of (x : sx) : term =
  match x with
  | A "null" -> Null
  | L [A "bool"; A b] -> Bool (b = "true")
  | L [A "num"; Q n] -> Num (num_of_string n)
  | L [A "str"; Q s] -> Str s
  | L (A "chunks" :: cs) -> Chunks (List.map chunk_of cs)
  | L [A "fun"; ps; body] -> Fun (List.map pat_of (items ps), term_of body)
  | L [A "let"; r; bs; body] -> Let (get_b01 r, List.map binding_of (items bs), term_of body)
  | L (A "app" :: h :: args) -> App (term_of h, List.map term_of args)
  | L [A "var"; Q v] -> Var v
  | L [A "enum"; Q t] -> Enum (t, None)
  | L [A "variant"; Q t; a] -> Enum (t, Some (term_of a))
  | L [A "record"; incs; fds; o] ->
    Record (List.map incl_of (items incs), List.map fdef_of (items fds), get_b01 o)
  | L [A "if"; c; a; b] -> If (term_of c, term_of a, term_of b)
  | L (A "match" :: bs) -> Match (List.map branch_of bs)
  | L (A "array" :: es) -> Array (List.map term_of es)
  | L (A "op" :: o :: args) -> Op (op_of o, List.map term_of args)
  | L [A "annot"; an; inner] -> Annot (annot_of an, term_of inner)
  | L [A "import"; Q p; A f] -> ImportPath (p, f)
  | L [A "import_pkg"; Q id] -> ImportPkg id
  | L [A "type"; t] -> TypeT (typ_of t)
  | x -> bad "bad term" x

and chunk_of = function
  | L [A "lit"; Q s] -> CLit s
  | L [A "expr"; e; A i] -> CExpr (term_of e, nat_of_int (int_of_string i))
  | x -> bad "bad chunk" x

and annot_of = function
  | L [A "ann"; t; cs] ->
    { a_typ = (match get_opt t with None -> None | Some t -> Some (typ_of t));
      a_ctrs = List.map typ_of (items cs) }
  | x -> bad "bad annotation" x

and fmeta_of = function
  | L [A "fmeta"; d; an; o; ne; p] ->
    { m_doc = (match get_opt d with None -> None | Some d -> Some (str d));
      m_ann = annot_of an; m_opt = get_b01 o; m_ne = get_b01 ne; m_prio = prio_of p }
  | x -> bad "bad field metadata" x

and binding_of = function
  | L [A "bind"; p; L [A "lmeta"; d; an]; v] ->
    { b_pat = pat_of p; b_doc = (match get_opt d with None -> None | Some d -> Some (str d));
      b_ann = annot_of an; b_val = term_of v }
  | x -> bad "bad binding" x

and incl_of = function
  | L [A "incl"; Q id; m] -> { i_id = id; i_meta = fmeta_of m }
  | x -> bad "bad include" x

and fdef_of = function
  | L [A "fdef"; path; m; v] ->
    { f_path = List.map pelem_of (items path); f_meta = fmeta_of m;
      f_val = (match get_opt v with None -> None | Some v -> Some (term_of v)) }
  | x -> bad "bad field" x

and pelem_of = function
  | L [A "id"; Q s] -> PId s
  | L [A "pexpr"; L (A "chunks" :: cs)] -> PExpr (List.map chunk_of cs)
  | x -> bad "bad path element" x

and branch_of = function
  | L [A "branch"; p; g; b] ->
    { br_pat = pat_of p; br_guard = (match get_opt g with None -> None | Some g -> Some (term_of g));
      br_body = term_of b }
  | x -> bad "bad branch" x

and pat_of = function
  | L [A "pat"; al; d] ->
    Pat ((match get_opt al with None -> None | Some a -> Some (str a)), pdata_of d)
  | x -> bad "bad pattern" x

and pdata_of = function
  | A "wild" -> PWild
  | L [A "any"; Q v] -> PAny v
  | L [A "prec"; fs; t] -> PRecord (List.map fpat_of (items fs), ptail_of t)
  | L [A "parr"; ps; t] -> PArray (List.map pat_of (items ps), ptail_of t)
  | L [A "penum"; Q tag; a] -> PEnum (tag, (match get_opt a with None -> None | Some p -> Some (pat_of p)))
  | L [A "pconst"; c] ->
    PConst (match c with
        | L [A "bool"; A b] -> CBool (b = "true")
        | L [A "num"; Q n] -> CNum (num_of_string n)
        | L [A "str"; Q s] -> CStr s
        | A "null" -> CNull
        | x -> bad "bad constant pattern" x)
  | L (A "por" :: ps) -> POr (List.map pat_of ps)
  | x -> bad "bad pattern data" x

and fpat_of = function
  | L [A "fpat"; Q id; an; d; p] ->
    { fp_id = id; fp_ann = annot_of an;
      fp_default = (match get_opt d with None -> None | Some t -> Some (term_of t));
      fp_pat = pat_of p }
  | x -> bad "bad field pattern" x

and typ_of (x : sx) : typ =
  match x with
  | A "dyn" -> TDyn
  | A "number" -> TNumber
  | A "bool" -> TBool
  | A "string" -> TString
  | A "symbol" -> TSymbol
  | A "foreignid" -> TForeignId
  | L [A "contract"; t] -> TContract (term_of t)
  | L [A "arrow"; a; b] -> TArrow (typ_of a, typ_of b)
  | L [A "tvar"; Q v] -> TVar v
  | L [A "forall"; Q v; body] -> TForall (v, typ_of body)
  | L [A "forall"; Q v; _kind; body] -> TForall (v, typ_of body)
  | L [A "enumt"; rows; tail] ->
    TEnum (List.map (function
        | L [A "erow"; Q id; t] -> (id, (match get_opt t with None -> None | Some t -> Some (typ_of t)))
        | x -> bad "bad enum row" x) (items rows),
           (match get_opt tail with None -> None | Some v -> Some (str v)))
  | L [A "rect"; rows; tail] ->
    TRecord (List.map (function
        | L [A "rrow"; Q id; t] -> (id, typ_of t)
        | x -> bad "bad record row" x) (items rows),
             (match tail with
              | A "closed" -> RClosed
              | A "taildyn" -> RTailDyn
              | L [A "tailvar"; Q v] -> RTailVar v
              | x -> bad "bad record tail" x))
  | L [A "dict"; A fl; t] -> TDict (fl = "contract", typ_of t)
  | L [A "arrayt"; t] -> TArrayT (typ_of t)
  | L [A "wildcard"; A n] -> TWildcard (nat_of_int (int_of_string n))
  | x -> bad "bad type" x

(* ------------------------------------------------------------------ model AST -> sexp *)

let num_sx q = l "num" [Q (string_of_q q)]

let op_sx = function
  | OStatAccess id -> l "stat_access" [Q id]
  | OEnumEmbed id -> l "enum_embed" [Q id]
  | ONamed n -> Q n

let prio_sx = function
  | PBottom -> A "bottom" | PNeutral -> A "neutral" | PTop -> A "top"
  | PNumeral q -> l "numeral" [Q (string_of_q q)]

let ptail_sx = function TClosed -> A "closed" | TOpen -> A "open" | TCapture x -> l "capture" [Q x]

let rec term_sx (t : term) : sx =
  match t with
  | Null -> A "null"
  | Bool b -> l "bool" [A (if b then "true" else "false")]
  | Num q -> num_sx q
  | Str s -> l "str" [Q s]
  | Chunks cs -> l "chunks" (List.map chunk_sx cs)
  | Fun (ps, body) -> l "fun" [L (List.map pat_sx ps); term_sx body]
  | Let (r, bs, body) -> l "let" [b01 r; L (List.map binding_sx bs); term_sx body]
  | App (h, args) -> l "app" (term_sx h :: List.map term_sx args)
  | Var v -> l "var" [Q v]
  | Enum (t, None) -> l "enum" [Q t]
  | Enum (t, Some a) -> l "variant" [Q t; term_sx a]
  | Record (incs, fds, o) -> l "record" [L (List.map incl_sx incs); L (List.map fdef_sx fds); b01 o]
  | If (c, a, b) -> l "if" [term_sx c; term_sx a; term_sx b]
  | Match bs -> l "match" (List.map branch_sx bs)
  | Array es -> l "array" (List.map term_sx es)
  | Op (o, args) -> l "op" (op_sx o :: List.map term_sx args)
  | Annot (an, inner) -> l "annot" [annot_sx an; term_sx inner]
  | ImportPath (p, f) -> l "import" [Q p; A f]
  | ImportPkg id -> l "import_pkg" [Q id]
  | TypeT ty -> l "type" [typ_sx ty]

and chunk_sx = function
  | CLit s -> l "lit" [Q s]
  | CExpr (e, i) -> l "expr" [term_sx e; A (string_of_int (int_of_nat i))]

and annot_sx an =
  l "ann" [opt (match an.a_typ with None -> None | Some t -> Some (typ_sx t)); L (List.map typ_sx an.a_ctrs)]

and fmeta_sx m =
  l "fmeta" [opt (match m.m_doc with None -> None | Some d -> Some (Q d)); annot_sx m.m_ann;
             b01 m.m_opt; b01 m.m_ne; prio_sx m.m_prio]

and binding_sx b =
  l "bind" [pat_sx b.b_pat;
            l "lmeta" [opt (match b.b_doc with None -> None | Some d -> Some (Q d)); annot_sx b.b_ann];
            term_sx b.b_val]

and incl_sx i = l "incl" [Q i.i_id; fmeta_sx i.i_meta]

and fdef_sx f =
  l "fdef" [L (List.map (function
      | PId s -> l "id" [Q s]
      | PExpr cs -> l "pexpr" [l "chunks" (List.map chunk_sx cs)]) f.f_path);
            fmeta_sx f.f_meta;
            opt (match f.f_val with None -> None | Some v -> Some (term_sx v))]

and branch_sx b =
  l "branch" [pat_sx b.br_pat; opt (match b.br_guard with None -> None | Some g -> Some (term_sx g));
              term_sx b.br_body]

and pat_sx (Pat (al, d)) =
  l "pat" [opt (match al with None -> None | Some a -> Some (Q a)); pdata_sx d]

and pdata_sx = function
  | PWild -> A "wild"
  | PAny v -> l "any" [Q v]
  | PRecord (fs, t) ->
    l "prec" [L (List.map (fun f ->
        l "fpat" [Q f.fp_id; annot_sx f.fp_ann;
                  opt (match f.fp_default with None -> None | Some d -> Some (term_sx d));
                  pat_sx f.fp_pat]) fs); ptail_sx t]
  | PArray (ps, t) -> l "parr" [L (List.map pat_sx ps); ptail_sx t]
  | PEnum (tag, a) -> l "penum" [Q tag; opt (match a with None -> None | Some p -> Some (pat_sx p))]
  | PConst c ->
    l "pconst" [match c with
        | CBool b -> l "bool" [A (if b then "true" else "false")]
        | CNum q -> num_sx q
        | CStr s -> l "str" [Q s]
        | CNull -> A "null"]
  | POr ps -> l "por" (List.map pat_sx ps)

and typ_sx (ty : typ) : sx =
  match ty with
  | TDyn -> A "dyn" | TNumber -> A "number" | TBool -> A "bool" | TString -> A "string"
  | TSymbol -> A "symbol" | TForeignId -> A "foreignid"
  | TContract t -> l "contract" [term_sx t]
  | TArrow (a, b) -> l "arrow" [typ_sx a; typ_sx b]
  | TVar v -> l "tvar" [Q v]
  | TForall (v, body) -> l "forall" [Q v; typ_sx body]
  | TEnum (rows, tail) ->
    l "enumt" [L (List.map (fun (id, t) ->
        l "erow" [Q id; opt (match t with None -> None | Some t -> Some (typ_sx t))]) rows);
               opt (match tail with None -> None | Some v -> Some (Q v))]
  | TRecord (rows, tail) ->
    l "rect" [L (List.map (fun (id, t) -> l "rrow" [Q id; typ_sx t]) rows);
              (match tail with RClosed -> A "closed" | RTailDyn -> A "taildyn" | RTailVar v -> l "tailvar" [Q v])]
  | TDict (fl, t) -> l "dict" [A (if fl then "contract" else "type"); typ_sx t]
  | TArrayT t -> l "arrayt" [typ_sx t]
  | TWildcard n -> l "wildcard" [A (string_of_int (int_of_nat n))]

(* ------------------------------------------------------------------ tokens *)

let tok_escape (x : string) : string =
  let b = Buffer.create (String.length x) in
  String.iter (function
      | '\\' -> Buffer.add_string b "\\\\"
      | ' ' -> Buffer.add_string b "\\s"
      | '\n' -> Buffer.add_string b "\\n"
      | '\r' -> Buffer.add_string b "\\r"
      | '\t' -> Buffer.add_string b "\\t"
      | c -> Buffer.add_char b c) x;
  Buffer.contents b

let tok_unescape (x : string) : string =
  let b = Buffer.create (String.length x) in
  let n = String.length x in
  let i = ref 0 in
  while !i < n do
    if x.[!i] = '\\' && !i + 1 < n then begin
      (match x.[!i + 1] with
       | 's' -> Buffer.add_char b ' '
       | 'n' -> Buffer.add_char b '\n'
       | 'r' -> Buffer.add_char b '\r'
       | 't' -> Buffer.add_char b '\t'
       | c -> Buffer.add_char b c);
      i := !i + 2
    end else begin Buffer.add_char b x.[!i]; incr i end
  done;
  Buffer.contents b

let show_token = function
  | TK s -> "K" ^ tok_escape s
  | TId s -> "I" ^ tok_escape s
  | TNum q -> "N" ^ string_of_q q
  | TTag s -> "T" ^ tok_escape s
  | TQTag -> "Q"
  | TStr -> "S"
  | TMStr n -> "M" ^ string_of_int (int_of_nat n)
  | TLit s -> "L" ^ tok_escape s
  | TInterp i -> "X" ^ string_of_int (int_of_nat i)
  | TEnd -> "E"
  | TPanic -> "PANIC"

let read_token (w : string) : token =
  let rest = String.sub w 1 (String.length w - 1) in
  match w.[0] with
  | 'K' -> TK (tok_unescape rest)
  | 'I' -> TId (tok_unescape rest)
  | 'N' -> TNum (num_of_string rest)
  | 'T' -> TTag (tok_unescape rest)
  | 'Q' -> TQTag
  | 'S' -> TStr
  | 'M' -> TMStr (nat_of_int (int_of_string rest))
  | 'L' -> TLit (tok_unescape rest)
  | 'X' -> TInterp (nat_of_int (int_of_string rest))
  | 'E' -> TEnd
  | _ -> raise (Bad ("bad token " ^ w))

let show_tokens ts = String.concat " " (List.map show_token ts)
let read_tokens line =
  List.map read_token (List.filter (fun w -> w <> "") (String.split_on_char ' ' line))

(* ------------------------------------------------------------------ main *)

let quirks = ref repaired_code

let do_print q x = print keywords op_spelling infix_ops postfix_ops q x
let do_parse q ts = parse binops prefixops max_level primops q ts

let handle (line : string) : string =
  match String.split_on_char '\t' line with
  | ["print"; payload] ->
    let t = term_of (parse_sx (unescape payload)) in
    let toks = do_print !quirks t in
    let status =
      if List.mem TPanic toks then "PANIC"
      else match do_parse !quirks toks with
        | None -> "NONE"
        | Some t' -> if t' = t then "OK" else "DIFF\t" ^ escape (show (term_sx t'))
    in
    let img = if parser_image primops infix_ops t then "1" else "0" in
    escape (show_tokens toks) ^ "\t" ^ img ^ "\t" ^ status
  | ["parse"; payload] ->
    (match do_parse !quirks (read_tokens (unescape payload)) with
     | None -> "NONE"
     | Some t ->
       (if parser_image primops infix_ops t then "1" else "0") ^ "\t" ^ escape (show (term_sx t)))
  | ["roundtrips"; payload] ->
    (* the printer's decision procedure on a chunk list, for the tie with the Rust function *)
    (match term_of (parse_sx (unescape payload)) with
     | Chunks cs -> if multiline_roundtrips cs then "1" else "0"
     | _ -> "ERR")
  | _ -> "ERR:bad request"

(* `flags=a,b,...` selects the variant of the printer/parser: the listed behaviours of the pinned
   commit are switched on, on top of the repaired code *)
let set_flags (names : string list) =
  let has n = List.mem n names in
  quirks := { q_num_round = has "num"; q_annot_noparens = has "annot"; q_dynaccess = has "dyn";
              q_drop_not_exported = has "ne"; q_drop_alias = has "alias"; q_include_only = has "incl";
              q_keep_empty_lit = has "emptylit"; q_multiline_unchecked = has "multiline";
              q_alias_in_parens = has "aliaspar" }

let () =
  Array.iter (fun a ->
      if a = "pinned" then quirks := pinned_code
      else if String.length a > 6 && String.sub a 0 6 = "flags=" then
        set_flags (String.split_on_char ',' (String.sub a 6 (String.length a - 6)))) Sys.argv;
  try
    while true do
      let line = input_line stdin in
      let out = try handle line with
        | Bad m -> "ERR:" ^ escape m
        | Stack_overflow -> "ERR:stack overflow"
        | e -> "ERR:" ^ escape (Printexc.to_string e) in
      print_string out; print_newline ()
    done
  with End_of_file -> ()
