(* C20 model driver.  Reads one universe per line in the format of harness/src/bin/c20.rs, with an
   optional extra section `A:<p0:1.2.3+2.0.0,p1:0.1.0>` = the index_packages returned by the Rust
   resolver for this universe.  Prints one line per universe:
     exists=1|0|skip          brute force over all candidate assignments (extracted exists_solution)
     sol=<assignment>         the brute-force solution, if any
   and, when A: is present (translation validation of the oracle's answer + everything downstream):
     valid=1|0                extracted valid_solution on the oracle's answer
     ipsame=1|0               the answer's version lists equal the model's sort+dedup of them
     lockok=1|0|-             (L: given) the given lock is itself a complete valid solution
     lockreach=<assignment>   its part reachable from the root (what re-resolution must return)
     known=<edges>            edges in the known class of lookup failures of the unchanged tree
     cur{E=.. SD=.. K=.. M=.. LV=..}  precise / sorted_dependencies / LockFile::new / package_map as
                              modelled with the matcher of the unchanged tree (matches_cur);
                              LV = the lock file's entries are themselves a valid solution
                              (the hypothesis of relock_stable)
     fix{E=.. SD=.. K=.. M=..}  the same with the repaired matcher (matches_fix)
   With an `R2:` section (manifest edited, lock file kept; `B:` = the Rust resolver's answer of the
   second phase when it had to resolve again) each block continues with
     UP=1|0 (is_lock_file_up_to_date) V2 (the second assignment is valid for the edited manifest)
     A2 E2 SD2 K2 M2 LV2, and the line has exists2= for the edited manifest.
   Only parsing and printing happen here; every decision is made by extracted code. *)
open C20_model

let rec pos_of_int n = if n = 1 then XH else if n land 1 = 0 then XO (pos_of_int (n lsr 1)) else XI (pos_of_int (n lsr 1))
let n_of_int n = if n = 0 then N0 else Npos (pos_of_int n)
let rec int_of_pos = function XH -> 1 | XO p -> 2 * int_of_pos p | XI p -> 2 * int_of_pos p + 1
let int_of_n = function N0 -> 0 | Npos p -> int_of_pos p
let rec nat_of_int n = if n <= 0 then O else S (nat_of_int (n - 1))

let split c s = if s = "" then [] else String.split_on_char c s

let parse_ver s =
  let core, pre = match String.index_opt s '-' with
    | Some i -> (String.sub s 0 i, String.sub s (i + 1) (String.length s - i - 1))
    | None -> (s, "") in
  match List.map int_of_string (String.split_on_char '.' core) with
  | [a; b; c] -> { vmaj = n_of_int a; vmin = n_of_int b; vpat = n_of_int c; vpre = pre }
  | _ -> failwith ("bad version " ^ s)

let show_ver v =
  let b = Printf.sprintf "%d.%d.%d" (int_of_n v.vmaj) (int_of_n v.vmin) (int_of_n v.vpat) in
  if v.vpre = "" then b else b ^ "-" ^ v.vpre

let parse_req s =
  if String.length s > 0 && s.[0] = '=' then RExact (parse_ver (String.sub s 1 (String.length s - 1)))
  else
    let num x = if x = "_" then None else Some (n_of_int (int_of_string x)) in
    match String.split_on_char '.' s with
    | [a] -> RCompat (n_of_int (int_of_string a), None, None)
    | [a; b] -> RCompat (n_of_int (int_of_string a), num b, None)
    | [a; b; c] -> RCompat (n_of_int (int_of_string a), num b, num c)
    | _ -> failwith ("bad requirement " ^ s)

let show_req = function
  | RExact v -> "=" ^ show_ver v
  | RCompat (m, mi, pa) ->
      let f = function Some n -> string_of_int (int_of_n n) | None -> "_" in
      (match mi, pa with
       | None, None -> string_of_int (int_of_n m)
       | Some a, None -> Printf.sprintf "%d.%d" (int_of_n m) (int_of_n a)
       | _ -> Printf.sprintf "%d.%s.%s" (int_of_n m) (f mi) (f pa))

let parse_pkg s = (* "p12" *)
  if String.length s < 2 || s.[0] <> 'p' then failwith ("bad package " ^ s);
  n_of_int (int_of_string (String.sub s 1 (String.length s - 1)))
let show_pkg id = "p" ^ string_of_int (int_of_n id)

let parse_dep s =
  let i = String.index s '>' in
  let name = String.sub s 0 i in
  let rest = String.sub s (i + 1) (String.length s - i - 1) in
  let j = String.index rest ':' in
  { dname = name; dpkg = parse_pkg (String.sub rest 0 j); dreq = parse_req (String.sub rest (j + 1) (String.length rest - j - 1)) }

let parse_deps s = List.map parse_dep (split ',' s)

let parse_pkgver s =
  let i = String.index s '(' in
  let head = String.sub s 0 i in
  let deps = String.sub s (i + 1) (String.length s - i - 2) in
  let j = String.index head '@' in
  { pid = parse_pkg (String.sub head 0 j);
    pver = parse_ver (String.sub head (j + 1) (String.length head - j - 1));
    pdeps = parse_deps deps }

type case = { idx : index; root : manifest; root2 : manifest option; locked : (n * ver) list option;
              ans : (n * ver list) list option; ans2 : (n * ver list) list option }

let parse_case line =
  let c = ref { idx = []; root = []; root2 = None; locked = None; ans = None; ans2 = None } in
  List.iter (fun sec ->
    if sec <> "" then begin
      let sec = if String.length sec >= 3 && String.sub sec 0 3 = "R2:" then "S:" ^ String.sub sec 3 (String.length sec - 3) else sec in
      let tag = String.sub sec 0 2 and body = String.sub sec 2 (String.length sec - 2) in
      let parse_ip body = List.map (fun s ->
            let j = String.index s ':' in
            (parse_pkg (String.sub s 0 j),
             List.map parse_ver (split '+' (String.sub s (j + 1) (String.length s - j - 1))))) (split ',' body) in
      match tag with
      | "S:" -> c := { !c with root2 = Some (parse_deps body) }
      | "B:" -> c := { !c with ans2 = Some (parse_ip body) }
      | "I:" -> c := { !c with idx = List.map parse_pkgver (split ';' body) }
      | "R:" -> c := { !c with root = parse_deps body }
      | "L:" ->
          c := { !c with locked = Some (List.map (fun s ->
            let j = String.index s '@' in
            (parse_pkg (String.sub s 0 j), parse_ver (String.sub s (j + 1) (String.length s - j - 1)))) (split ',' body)) }
      | "A:" ->
          c := { !c with ans = Some (List.map (fun s ->
            let j = String.index s ':' in
            (parse_pkg (String.sub s 0 j),
             List.map parse_ver (split '+' (String.sub s (j + 1) (String.length s - j - 1))))) (split ',' body)) }
      | _ -> failwith ("bad section " ^ sec)
    end) (String.split_on_char ' ' line);
  !c

let cmp_of = function Lt -> -1 | Eq -> 0 | Gt -> 1
let cmp_ppkg (a, v) (b, w) =
  let c = compare (show_pkg a) (show_pkg b) in
  if c <> 0 then c else cmp_of (ver_compare v w)

let show_ppkg (id, v) = show_pkg id ^ "@" ^ show_ver v
let show_en (name, c) = name ^ "#" ^ string_of_int (int_of_n c)

let show_assignment (a : assignment) =
  (* same shape as the harness' A: ids sorted, versions as stored by index_packages *)
  let ip = index_packages a in
  let ip = List.sort (fun (a, _) (b, _) -> compare (show_pkg a) (show_pkg b)) ip in
  String.concat "," (List.map (fun (id, vs) -> show_pkg id ^ ":" ^ String.concat "+" (List.map show_ver vs)) ip)

let show_res f = function Ok x -> f x | Panic -> "PANIC" | Err -> "ERR" | OutOfFuel -> "FUEL"

let by_name l = List.sort (fun a b -> compare a.dname b.dname) l

let rec downstream ?(sfx = "") mt (c : case) (root : manifest) (ip : (n * ver list) list) =
  let c = { c with root = root } in
  let r = { r_idx = c.idx; r_ip = ip } in
  let bind d = match precise mt r d with Ok (_, v) -> show_ver v | Panic -> "!" | _ -> "?" in
  let edge pre d = Printf.sprintf "%s/%s>%s:%s=%s" pre d.dname (show_pkg d.dpkg) (show_req d.dreq) (bind d) in
  let resolved = List.sort cmp_ppkg (all_packages r) in
  let e_root = List.map (edge "root") (by_name c.root) in
  let e_pk = List.concat_map (fun (id, v) ->
      match deps_of c.idx id v with
      | Some ds -> List.map (edge (show_ppkg (id, v))) (by_name ds)
      | None -> [show_ppkg (id, v) ^ "/Err:UnknownIndexPackageVersion"]) resolved in
  let sd = List.map (fun p ->
      show_ppkg p ^ "[" ^
      show_res (fun l -> String.concat "," (List.map (fun (n, (_, q)) -> n ^ "=" ^ show_ppkg q) l))
        (sorted_dependencies mt r p) ^ "]") resolved in
  let lk = lock_new (nat_of_int 400) mt r c.root in
  (* hypothesis of relock_stable, validated per universe: the lock's entries are a valid solution *)
  let lv = match lk with
    | Ok l -> if valid_solution c.idx c.root (locked_of (lock_entries l)) then "1" else "0"
    | _ -> "-" in
  let k = show_res (fun ((deps, acc) : lockfile) ->
      let deps = List.map (fun (n, e) -> n ^ "=" ^ show_en e) (List.sort (fun (a, _) (b, _) -> compare a b) deps) in
      let acc = List.sort (fun ((n1, c1), _) ((n2, c2), _) -> compare (n1, int_of_n c1) (n2, int_of_n c2)) acc in
      let pk = List.map (fun (en, (p, ds)) ->
          Printf.sprintf "%s=%s[%s]" (show_en en) (show_ppkg p)
            (String.concat "," (List.map (fun (n, e) -> n ^ "=" ^ show_en e) ds))) acc in
      "ok{" ^ String.concat "," deps ^ "|" ^ String.concat ";" pk ^ "}")
      lk in
  let m = show_res (fun (top, pk) ->
      let top = List.sort compare (List.map (fun (n, p) -> n ^ "=" ^ show_ppkg p) top) in
      let pk = List.sort_uniq compare (List.map (fun ((pp, n), q) -> show_ppkg pp ^ "/" ^ n ^ "=" ^ show_ppkg q) pk) in
      "ok{" ^ String.concat "," top ^ "|" ^ String.concat "," pk ^ "}")
      (package_map mt r c.root) in
  let first = Printf.sprintf "E%s=%s SD%s=%s K%s=%s M%s=%s LV%s=%s" sfx (String.concat "," (e_root @ e_pk)) sfx (String.concat ";" sd) sfx k sfx m sfx lv in
  (* second phase: the manifest is edited, the lock file stays (ManifestFile::lock) *)
  match sfx, c.root2, lk with
  | "", Some root2, Ok l ->
      let up = up_to_date mt l root2 in
      let ip2 = if up then Some (copy_from_lock l) else c.ans2 in
      (match ip2 with
       | Some ip2 ->
           let a2 = assignment_of_ip ip2 in
           Printf.sprintf "%s UP=%d V2=%d A2=%s %s" first (if up then 1 else 0)
             (if valid_solution c.idx root2 a2 then 1 else 0)
             (String.concat "," (List.map (fun (id, vs) -> show_pkg id ^ ":" ^ String.concat "+" (List.map show_ver vs))
                (List.sort (fun (a, _) (b, _) -> compare (show_pkg a) (show_pkg b)) ip2)))
             (downstream ~sfx:"2" mt c root2 ip2)
       | None -> Printf.sprintf "%s UP=%d" first (if up then 1 else 0))
  | _ -> first

let cap = 200000

(* `LAWS V:.. Q:..`: the model's comparison and matching on a pool, same layout as the harness *)
let laws line =
  let vs = ref [] and qs = ref [] in
  List.iter (fun sec ->
    if String.length sec > 2 then begin
      let tag = String.sub sec 0 2 and body = String.sub sec 2 (String.length sec - 2) in
      if tag = "V:" then vs := List.map parse_ver (split ',' body)
      else if tag = "Q:" then qs := List.map parse_req (split ',' body)
    end) (List.tl (String.split_on_char ' ' line));
  let vs = !vs and qs = !qs in
  let row f = String.concat "" (List.map f vs) in
  let cmp = List.map (fun a -> row (fun b -> match ver_compare a b with Lt -> "<" | Eq -> "=" | Gt -> ">")) vs in
  let eq = List.map (fun a -> row (fun b -> if ver_eqb a b then "1" else "0")) vs in
  let sd = dedup_vers (sort_vers vs) in
  let show_bucket = function
    | BMajor m -> string_of_int (int_of_n m)
    | BMinor m -> "0." ^ string_of_int (int_of_n m)
    | BPre v -> show_ver v in
  let bk = List.map (fun v -> show_bucket (bucket_of_ver v)) vs in
  let m mt = List.map (fun q -> row (fun v -> if mt q v then "1" else "0")) qs in
  let bc = List.map (fun q -> row (fun v -> if bucket_contains (bucket_of_req q) v then "1" else "0")) qs in
  Printf.sprintf "laws cmp=%s eq=%s bt=%d sd=%s bk=%s mcur=%s mfix=%s bc=%s"
    (String.concat "/" cmp) (String.concat "/" eq) (List.length sd)
    (String.concat "," (List.map show_ver sd)) (String.concat "," bk)
    (String.concat "/" (m matches_cur)) (String.concat "/" (m matches_fix)) (String.concat "/" bc)

let () =
  try
    while true do
      let line = input_line stdin in
      let out =
        try
          if String.length line >= 5 && String.sub line 0 5 = "LAWS " then laws line else
          let c = parse_case line in
          let buf = Buffer.create 512 in
          let size = int_of_n (enum_size c.idx (cand_keys c.idx c.root)) in
          (if size > cap || size < 0 then Buffer.add_string buf "exists=skip"
           else match exists_solution c.idx c.root with
             | Some a -> Buffer.add_string buf ("exists=1 sol=" ^ show_assignment a)
             | None -> Buffer.add_string buf "exists=0");
          (match c.root2 with
           | Some root2 ->
               let size2 = int_of_n (enum_size c.idx (cand_keys c.idx root2)) in
               if size2 > cap || size2 < 0 then Buffer.add_string buf " exists2=skip"
               else Buffer.add_string buf (match exists_solution c.idx root2 with Some _ -> " exists2=1" | None -> " exists2=0")
           | None -> ());
          (match c.locked with
           | Some l ->
               let la = locked_of l in
               let ok = valid_solution c.idx c.root la in
               Buffer.add_string buf (Printf.sprintf " lockok=%d" (if ok then 1 else 0));
               if ok then Buffer.add_string buf (" lockreach=" ^ show_assignment (reachable_part c.idx c.root la))
           | None -> ());
          (match c.ans with
           | Some ip ->
               let a = assignment_of_ip ip in
               Buffer.add_string buf (Printf.sprintf " valid=%d" (if valid_solution c.idx c.root a then 1 else 0));
               (* the oracle's lists are what sort + dedup of its own versions gives *)
               let canon l = List.sort compare (List.map (fun (id, vs) -> (int_of_n id, List.map show_ver vs)) l) in
               Buffer.add_string buf (Printf.sprintf " ipsame=%d" (if canon (index_packages a) = canon ip then 1 else 0));
               (* edges in the known class *)
               let r_edges = List.map (fun d -> ("root", d)) (by_name c.root) in
               let p_edges = List.concat_map (fun (id, v) ->
                   match deps_of c.idx id v with
                   | Some ds -> List.map (fun d -> (show_ppkg (id, v), d)) (by_name ds)
                   | None -> []) (List.sort cmp_ppkg (all_packages { r_idx = c.idx; r_ip = ip })) in
               let known = List.filter_map (fun (pre, d) ->
                   match alookup (dep_key d) a with
                   | Some w when known_class ip d w -> Some (Printf.sprintf "%s/%s" pre d.dname)
                   | _ -> None) (r_edges @ p_edges) in
               Buffer.add_string buf (" known=" ^ String.concat "," known);
               Buffer.add_string buf (" cur{" ^ downstream matches_cur c c.root ip ^ "}");
               Buffer.add_string buf (" fix{" ^ downstream matches_fix c c.root ip ^ "}")
           | None -> ());
          Buffer.contents buf
        with e -> "MODEL-ERROR:" ^ Printexc.to_string e in
      print_endline out
    done
  with End_of_file -> ()
