(* C12 model driver.  Reads one history per line (the s-expression language of
   harness/src/bin/c12.rs), runs the extracted machine model of coq/Mech/Machine.v and prints the
   canonical outcome of every input, ` | `-separated, followed by ` ## ` and, per input, the
   number of black-holed / locked thunks left in the session heap (`bh,lk`).
   argv[1] = "spec"   : print instead the stand-alone call-by-name meaning (coq/Mech/Spec.v) of
                        every non-def input (`-` for defs);
   argv[1] = "broken" : use the deliberately broken [unwind_broken];
   argv[1] = "nounlock" : eval_guarded without the unlock on the error path;
   argv[1] = "satcopy" : copies of thunk data keep the state (the pinned ThunkData::clone). *)
open C12_model

let inf_steps = 5000
let spec_fuel = 1500

type sx = Atom of string | List of sx list

let tokenize (s : string) : string list =
  let out = ref [] and cur = Buffer.create 16 in
  let flush () = if Buffer.length cur > 0 then (out := Buffer.contents cur :: !out; Buffer.clear cur) in
  String.iter (fun c ->
    match c with
    | '(' | ')' -> flush (); out := String.make 1 c :: !out
    | ' ' | '\t' | '\r' | '\n' -> flush ()
    | c -> Buffer.add_char cur c) s;
  flush ();
  List.rev !out

let rec parse_sx (toks : string list) : sx * string list =
  match toks with
  | "(" :: rest ->
      let rec items acc toks =
        match toks with
        | ")" :: rest -> (List (List.rev acc), rest)
        | [] -> failwith "unbalanced"
        | _ -> let (x, rest) = parse_sx toks in items (x :: acc) rest in
      items [] rest
  | a :: rest -> (Atom a, rest)
  | [] -> failwith "empty"

let parse_line s =
  let rec go acc toks = match toks with [] -> List.rev acc | _ -> let (x, r) = parse_sx toks in go (x :: acc) r in
  go [] (tokenize s)

let atom = function Atom a -> a | List _ -> failwith "expected an atom"

let nat_of_int n = let rec go acc n = if n <= 0 then acc else go (S acc) (n - 1) in go O n
let rec int_of_nat = function O -> 0 | S n -> 1 + int_of_nat n

let rec pos_of_int n = if n = 1 then XH else if n land 1 = 0 then XO (pos_of_int (n lsr 1)) else XI (pos_of_int (n lsr 1))
let z_of_int n = if n = 0 then Z0 else if n > 0 then Zpos (pos_of_int n) else Zneg (pos_of_int (-n))

(* big integers as decimal strings: the extracted Z is unbounded, OCaml int is 63 bits; values in
   generated programs stay far below that, so convert through int and check for overflow *)
let rec int_of_pos = function XH -> 1 | XO p -> 2 * int_of_pos p | XI p -> 2 * int_of_pos p + 1
let string_of_z = function Z0 -> "0" | Zpos p -> string_of_int (int_of_pos p) | Zneg p -> "-" ^ string_of_int (int_of_pos p)

let rec tm_of (s : sx) : tm =
  match s with
  | List (Atom h :: args) ->
      let a i = tm_of (List.nth args i) and x i = atom (List.nth args i) in
      (match h with
       | "v" -> Var (x 0)
       | "lam" -> Lam (x 0, a 1)
       | "app" -> App (a 0, a 1)
       | "let" -> Let (x 0, a 1, a 2)
       | "letrec" -> LetRec (x 0, a 1, a 2)
       | "n" -> Num (z_of_int (int_of_string (x 0)))
       | "b" -> Bool (x 0 = "t")
       | "add" -> Op2 (OAdd, a 0, a 1)
       | "sub" -> Op2 (OSub, a 0, a 1)
       | "lt" -> Op2 (OLt, a 0, a 1)
       | "merge" -> Op2 (OMerge, a 0, a 1)
       | "seq" -> Seq (a 0, a 1)
       | "if" -> If (a 0, a 1, a 2)
       | "rec" -> Rec (List.map (function List [Atom f; e] -> (f, tm_of e) | _ -> failwith "field") args)
       | "proj" -> Proj (a 0, x 1)
       | "fail" -> Fail
       | h -> failwith ("unknown term head " ^ h))
  | _ -> failwith "expected a term"

let budget s = match atom s with "inf" -> nat_of_int inf_steps | k -> nat_of_int (int_of_string k)

let input_of (s : sx) : input =
  match s with
  | List (Atom "def" :: x :: e :: []) -> IDef (atom x, tm_of e)
  | List (Atom "eval" :: k :: e :: []) -> IEval (budget k, tm_of e)
  | List (Atom "full" :: k :: e :: []) -> IFull (budget k, tm_of e)
  | List (Atom "query" :: k :: x :: path) -> IQuery (budget k, atom x, List.map atom path)
  | List (Atom "spine" :: k :: e :: []) -> ISpine (budget k, tm_of e)
  | _ -> failwith "unknown input"

let class_of = function
  | ETypeErr -> "TypeErr" | ENotAFunc -> "NotAFunc" | EFieldMissing -> "FieldMissing"
  | EUnbound -> "UnboundId" | EBlame -> "Blame+" | EInfRec -> "InfiniteRec"
  | EQueryNonRecord -> "QueryNonRecord" | EPanic -> "ModelPanic"
  | ENonMergeable -> "NonMergeable" | EOutOfFragment -> "ModelOutOfFragment"

let show_obs = function
  | ONum n -> "#" ^ string_of_z n
  | OBool b -> if b then "true" else "false"
  | OFun -> "<fun>"
  | ORec fs -> "{" ^ String.concat "," (List.sort compare fs) ^ "}"

let rec show_data = function
  | DNum n -> "#" ^ string_of_z n
  | DBool b -> if b then "true" else "false"
  | DFun -> "<fun>"
  | DRec fs ->
      let fs = List.sort (fun (a, _) (b, _) -> compare a b) fs in
      "{" ^ String.concat "," (List.map (fun (f, d) -> Printf.sprintf "%S:%s" f (show_data d)) fs) ^ "}"
  | DThunk -> "<thunk>"

(* the result of eval_record_spine, in the format of harness/src/bin/c12.rs show_spine *)
let rec show_spine = function
  | DRec fs ->
      let fs = List.sort (fun (a, _) (b, _) -> compare a b) fs in
      "{" ^ String.concat "," (List.map (fun (f, d) -> Printf.sprintf "%s:%s" f (show_spine d)) fs) ^ "}"
  | d -> show_data d

let show_outcome = function
  | OBound -> "bound"
  | OOk o -> "OK " ^ show_obs o
  | OData d -> "OK " ^ show_data d
  | OErr e -> "ERR " ^ class_of e
  | OBudget -> "ERR Budget"

let show_res f = function Val a -> "OK " ^ f a | Err e -> "ERR " ^ class_of e | OOF -> "ERR Budget"

let () =
  let mode = if Array.length Sys.argv > 1 then Sys.argv.(1) else "model" in
  let unw = if mode = "broken" then unwind_broken else unwind in
  let unlock_on_err = mode <> "nounlock" in
  try
    while true do
      let line = input_line stdin in
      let inputs = List.map input_of (parse_line line) in
      if mode = "spec" then begin
        let n = nat_of_int spec_fuel in
        let rec go defs = function
          | [] -> []
          | i :: rest ->
              (match i with
               | IDef (x, e) -> "-" :: go (defs @ [(x, e)]) rest
               | IEval (_, e) -> show_res (fun v -> show_obs (sobs v)) (spec_run n defs e) :: go defs rest
               | IFull (_, e) -> show_res show_data (spec_run_full n defs e) :: go defs rest
               | IQuery (_, x, path) ->
                   show_res (fun v -> show_obs (sobs v)) (spec_run_query n defs x path) :: go defs rest
               | ISpine (_, _) -> "-" :: go defs rest) in
        print_endline (String.concat " | " (go [] inputs))
      end else begin
        let rec go s = function
          | [] -> ([], [])
          | i :: rest ->
              let (s', o) = if mode = "satcopy" then sess_step_satcopy s i else sess_step_gen unlock_on_err unw s i in
              let st = Printf.sprintf "%d,%d" (int_of_nat (count_blackholed s'.sheap)) (int_of_nat (count_locked s'.sheap)) in
              let (os, sts) = go s' rest in
              let shown = match i, o with ISpine _, OData dt -> "OK " ^ show_spine dt | _ -> show_outcome o in
              (shown :: os, st :: sts) in
        let (os, sts) = go empty_session inputs in
        print_endline (String.concat " | " os ^ " ## " ^ String.concat " " sts)
      end
    done
  with End_of_file -> ()
