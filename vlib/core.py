"""Shared machinery of the /verif driver.

A property check (checks/cNN.py) builds a `Check` object and calls, in order,
  ck.coq(...)            proof obligations  (make target, forbidden-token scan, Print Assumptions)
  ck.harness(...)        build of the Rust harness against /repo's working tree
  ck.model(...)          extraction of the Coq model to OCaml + build of its driver
  ... its own correspondence loop, reporting through ck.disagree()/ck.violation() ...
  ck.finish()            evidence file, KNOWN-FINDING / VIOLATION lines, exit status
Nothing in here decides a property: it only runs coqc/cargo/ocaml, compares and reports.
"""
import fcntl
import glob
import hashlib
import json
import os
import re
import shutil
import subprocess
import sys
import time

ROOT = os.path.dirname(os.path.dirname(os.path.abspath(__file__)))
COQ = os.path.join(ROOT, "coq")
BUILD = os.path.join(ROOT, ".build")
HARNESS = os.environ.get("VERIF_HARNESS", os.path.join(ROOT, "harness"))     # overridable for tests against a scratch copy
TARGET = os.environ.get("VERIF_TARGET", os.path.join(BUILD, "target"))
REPO = os.environ.get("VERIF_REPO", "/repo")
NPROC = os.cpu_count() or 4

# Axioms of the Coq standard library that a theorem may depend on (each one that actually
# occurs is listed in the evidence file).  Anything else reported by Print Assumptions fails
# the obligation.
AXIOM_ALLOW = {
    "functional_extensionality_dep",
    "FunctionalExtensionality.functional_extensionality_dep",
    "Coq.Logic.FunctionalExtensionality.functional_extensionality_dep",
    "Eqdep.Eq_rect_eq.eq_rect_eq",
    "Coq.Logic.Eqdep.Eq_rect_eq.eq_rect_eq",
    "JMeq_eq", "JMeq.JMeq_eq", "Coq.Logic.JMeq.JMeq_eq",
    "proof_irrelevance", "ProofIrrelevance.proof_irrelevance",
    "Coq.Logic.ProofIrrelevance.proof_irrelevance",
    "classic", "Classical_Prop.classic", "Coq.Logic.Classical_Prop.classic",
    "propositional_extensionality",
    "Coq.Logic.PropExtensionality.propositional_extensionality",
}

FORBIDDEN = re.compile(
    r"\b(Admitted|admit|Axiom|Axioms|Parameter|Parameters|Conjecture|Conjectures|Admit Obligations)\b"
    r"|Unset\s+Guard|Unset\s+Positivity|Unset\s+Universe\s+Checking|bypass_check|type-in-type|impredicative-set"
)


def sh(cmd, cwd=None, timeout=None, env=None, input=None):
    """Run a command, return (rc, combined output). rc=124 on timeout."""
    e = dict(os.environ)
    e.setdefault("CARGO_NET_OFFLINE", "true")
    if env:
        e.update(env)
    try:
        p = subprocess.run(cmd, cwd=cwd, env=e, input=input, timeout=timeout,
                           stdout=subprocess.PIPE, stderr=subprocess.STDOUT,
                           shell=isinstance(cmd, str), text=True, errors="replace")
        return p.returncode, p.stdout
    except subprocess.TimeoutExpired as ex:
        out = ex.stdout or ""
        if isinstance(out, bytes):
            out = out.decode(errors="replace")
        return 124, out + "\n[timeout after %ss]" % timeout


class Lock:
    def __init__(self, name):
        os.makedirs(BUILD, exist_ok=True)
        self.path = os.path.join(BUILD, name + ".lock")

    def __enter__(self):
        self.f = open(self.path, "w")
        fcntl.flock(self.f, fcntl.LOCK_EX)
        return self

    def __exit__(self, *a):
        fcntl.flock(self.f, fcntl.LOCK_UN)
        self.f.close()


class SplitMix64:
    """The single PRNG every generator draws from (seeded by VERIF_SEED)."""
    M = (1 << 64) - 1

    def __init__(self, seed):
        self.s = seed & self.M

    def next(self):
        self.s = (self.s + 0x9E3779B97F4A7C15) & self.M
        z = self.s
        z = ((z ^ (z >> 30)) * 0xBF58476D1CE4E5B9) & self.M
        z = ((z ^ (z >> 27)) * 0x94D049BB133111EB) & self.M
        return z ^ (z >> 31)

    def below(self, n):
        return self.next() % n if n > 0 else 0

    def range(self, lo, hi):
        return lo + self.below(hi - lo + 1)

    def choice(self, xs):
        return xs[self.below(len(xs))]

    def chance(self, num, den):
        return self.below(den) < num

    def weighted(self, pairs):
        tot = sum(w for _, w in pairs)
        r = self.below(tot)
        for x, w in pairs:
            if r < w:
                return x
            r -= w
        return pairs[-1][0]

    def shuffle(self, xs):
        xs = list(xs)
        for i in range(len(xs) - 1, 0, -1):
            j = self.below(i + 1)
            xs[i], xs[j] = xs[j], xs[i]
        return xs

    def fork(self):
        return SplitMix64(self.next())


# --------------------------------------------------------------------------- Coq

def coq_project():
    """(Re)generate coq/_CoqProject and coq/Makefile.coq from the files present."""
    files = sorted(
        os.path.relpath(p, COQ)
        for p in glob.glob(os.path.join(COQ, "**", "*.v"), recursive=True)
        if "/Extract/" not in p and not os.path.basename(p).startswith(".")
    )
    body = "-Q . NV\n-arg -w -arg -notation-overridden,-deprecated-hint-without-locality,-deprecated-instance-without-locality\n" + "\n".join(files) + "\n"
    proj = os.path.join(COQ, "_CoqProject")
    old = open(proj).read() if os.path.exists(proj) else None
    if old != body or not os.path.exists(os.path.join(COQ, "Makefile.coq")):
        open(proj, "w").write(body)
        rc, out = sh(["coq_makefile", "-f", "_CoqProject", "-o", "Makefile.coq"], cwd=COQ, timeout=120)
        if rc != 0:
            raise RuntimeError("coq_makefile failed:\n" + out)


def coq_make(targets, timeout=1500, clean=False):
    """Full .vo build of the given targets (paths relative to coq/, ending in .vo)."""
    with Lock("coq"):
        coq_project()
        if clean:
            sh(["make", "-f", "Makefile.coq", "clean"], cwd=COQ, timeout=300)
        rc, out = sh(["timeout", str(timeout), "make", "-f", "Makefile.coq", "-j%d" % NPROC] + list(targets),
                     cwd=COQ, timeout=timeout + 30)
    return rc, out


def coq_deps(vfile):
    """Transitive .v dependencies (inside coq/) of coq/<vfile>, from Makefile.coq's dependency file."""
    dep = os.path.join(COQ, ".Makefile.coq.d")
    graph = {}
    if os.path.exists(dep):
        for line in open(dep).read().replace("\\\n", " ").split("\n"):
            if ":" not in line:
                continue
            lhs, rhs = line.split(":", 1)
            tgt = [t for t in lhs.split() if t.endswith(".vo")]
            if not tgt:
                continue
            src = tgt[0][:-1]
            graph.setdefault(src, set()).update(d[:-1] for d in rhs.split() if d.endswith(".vo") and not d.startswith("/"))
    seen, todo = set(), [vfile]
    while todo:
        f = todo.pop()
        if f in seen:
            continue
        seen.add(f)
        todo += list(graph.get(f, ()))
    return sorted(seen)


def forbidden_scan(files=None):
    """Scan for Admitted/Axiom/... (comments stripped) in the given files (relative to coq/), or in
    the whole development.  Returns list of hits."""
    hits = []
    paths = [os.path.join(COQ, f) for f in files] if files else glob.glob(os.path.join(COQ, "**", "*.v"), recursive=True)
    for p in paths:
        if not os.path.exists(p):
            continue
        src = open(p, errors="replace").read()
        src = strip_coq_comments(src)
        for i, line in enumerate(src.split("\n"), 1):
            if FORBIDDEN.search(line):
                hits.append("%s:%d: %s" % (os.path.relpath(p, ROOT), i, line.strip()[:120]))
    return hits


def strip_coq_comments(s):
    out, depth, i, n = [], 0, 0, len(s)
    instr = False
    while i < n:
        if not instr and s.startswith("(*", i):
            depth += 1
            i += 2
            continue
        if depth > 0 and s.startswith("*)", i):
            depth -= 1
            i += 2
            continue
        c = s[i]
        if depth == 0:
            if c == '"':
                instr = not instr
            out.append(c)
        elif c == "\n":
            out.append(c)
        i += 1
    return "".join(out)


def print_assumptions(module, theorems, timeout=600):
    """Compile a scratch file that Requires NV.<module> and prints the assumptions of each
    theorem.  Returns {theorem: [axioms]} ([] = closed under the global context), or raises."""
    d = os.path.join(BUILD, "assum")
    os.makedirs(d, exist_ok=True)
    name = "Assum_" + module.replace(".", "_")
    path = os.path.join(d, name + ".v")
    with open(path, "w") as f:
        f.write("From NV Require Import %s.\n" % module)
        for t in theorems:
            f.write('Goal True. idtac "@@BEGIN %s". Abort.\nPrint Assumptions %s.\n' % (t, t))
        f.write('Goal True. idtac "@@END". Abort.\n')
    rc, out = sh(["coqc", "-Q", COQ, "NV", "-w", "-all", path], cwd=d, timeout=timeout)
    if rc != 0:
        raise RuntimeError("Print Assumptions run failed:\n" + out[-3000:])
    res = {}
    cur = None
    for line in out.split("\n"):
        m = re.match(r"@@BEGIN (\S+)", line)
        if m:
            cur = m.group(1)
            res[cur] = []
            continue
        if line.startswith("@@END"):
            cur = None
            continue
        if cur is None:
            continue
        if "Closed under the global context" in line or line.startswith("Axioms:") or not line.strip():
            continue
        m = re.match(r"^(\S+)\s*:", line)
        if m and not line.startswith(" "):
            res[cur].append(m.group(1))
    for t in theorems:
        if t not in res:
            raise RuntimeError("no Print Assumptions output for " + t)
    return res


def theorems_in(props_file):
    """Names of the Theorem statements of coq/Props/<file>."""
    src = strip_coq_comments(open(os.path.join(COQ, props_file)).read())
    return re.findall(r"^\s*Theorem\s+([A-Za-z0-9_']+)", src, flags=re.M)


# --------------------------------------------------------------------------- Rust / OCaml

def cargo_build(bins, timeout=3000, features=None):
    """Build harness binaries against /repo's current working tree (path dependencies, so
    cargo re-checks the sources itself).  Returns (rc, output)."""
    with Lock("cargo"):
        lock_src = os.path.join(REPO, "Cargo.lock")
        lock_dst = os.path.join(HARNESS, "Cargo.lock")
        if not os.path.exists(lock_dst):
            shutil.copy(lock_src, lock_dst)
        cmd = ["cargo", "build", "--offline", "--quiet"]
        for b in bins:
            cmd += ["--bin", b]
        if features:
            cmd += ["--features", ",".join(features)]
        rc, out = sh(cmd, cwd=HARNESS, timeout=timeout,
                     env={"CARGO_TARGET_DIR": TARGET, "CARGO_NET_OFFLINE": "true"})
    return rc, out


def harness_bin(name):
    return os.path.join(TARGET, "debug", name)


def ocaml_build(pid, extract_v, driver_ml, extra_ml=(), timeout=900):
    """Extract coq/Extract/<extract_v> (run with cwd = build dir, so `Extraction "x.ml"` lands
    there) and link it with ocaml/<pid>/<driver_ml>.  Returns (rc, out, exe)."""
    d = os.path.join(BUILD, "ocaml", pid)
    os.makedirs(d, exist_ok=True)
    exe = os.path.join(d, "modelrun")
    with Lock("ocaml_" + pid):
        src = os.path.join(COQ, "Extract", extract_v)
        shutil.copy(src, os.path.join(d, extract_v))
        rc, out = sh(["coqc", "-Q", COQ, "NV", "-w", "-all", extract_v], cwd=d, timeout=timeout)
        if rc != 0:
            return rc, out, exe
        mls = sorted(f for f in os.listdir(d) if f.endswith(".ml") and f != driver_ml and f not in extra_ml)
        # extracted modules: .mli first
        for f in list(extra_ml) + [driver_ml]:
            shutil.copy(os.path.join(ROOT, "ocaml", pid, f), os.path.join(d, f))
        order = ocaml_order(d, mls) + list(extra_ml) + [driver_ml]
        mlis = [f[:-3] + ".mli" for f in order if os.path.exists(os.path.join(d, f[:-3] + ".mli"))]
        srcs = []
        for f in order:
            if f[:-3] + ".mli" in mlis:
                srcs.append(f[:-3] + ".mli")
            srcs.append(f)
        rc, out2 = sh(["ocamlfind", "ocamlopt", "-O2" if False else "-inline", "50", "-w", "-a", "-package", "str", "-linkpkg",
                       "-o", exe] + srcs, cwd=d, timeout=timeout)
        return rc, out + out2, exe


def ocaml_order(d, mls):
    """Topological order of extracted modules via ocamldep -sort."""
    if len(mls) <= 1:
        return mls
    rc, out = sh(["ocamlfind", "ocamldep", "-sort"] + mls, cwd=d, timeout=120)
    if rc == 0 and out.strip():
        return [x for x in out.split() if x.endswith(".ml")]
    return mls


def run_lines(exe, args, lines, timeout=1800, env=None, cwd=None):
    """Feed `lines` (list of str) on stdin, return (rc, list of stdout lines, stderr-tail)."""
    e = dict(os.environ)
    if env:
        e.update(env)
    try:
        p = subprocess.run([exe] + list(args), input="\n".join(lines) + "\n", timeout=timeout, env=e, cwd=cwd,
                           stdout=subprocess.PIPE, stderr=subprocess.PIPE, text=True, errors="replace")
        return p.returncode, p.stdout.split("\n")[:-1] if p.stdout.endswith("\n") else p.stdout.split("\n"), p.stderr[-4000:]
    except subprocess.TimeoutExpired:
        return 124, [], "timeout"


def run_sharded(exe, args, lines, shards=None, timeout=1800, env=None):
    """Run `exe` over `lines` split in contiguous shards, in parallel; results in input order.
    Each shard must print exactly one line per input line."""
    import concurrent.futures as cf
    shards = shards or NPROC
    n = len(lines)
    if n == 0:
        return 0, [], ""
    size = (n + shards - 1) // shards
    chunks = [lines[i:i + size] for i in range(0, n, size)]
    with cf.ThreadPoolExecutor(max_workers=len(chunks)) as ex:
        futs = [ex.submit(run_lines, exe, args, c, timeout, env) for c in chunks]
        outs = [f.result() for f in futs]
    rc = 0
    res, err = [], ""
    for (r, o, e), c in zip(outs, chunks):
        if r != 0:
            rc = r
            err += e
        if len(o) != len(c):
            rc = rc or 99
            err += "\n[shard produced %d lines for %d inputs] %s" % (len(o), len(c), e[-500:])
            o = (o + ["<missing>"] * len(c))[:len(c)]
        res += o
    return rc, res, err


# --------------------------------------------------------------------------- known findings

def load_known():
    known, fixed = [], []
    p = os.path.join(ROOT, "known_findings.txt")
    if os.path.exists(p):
        for line in open(p):
            line = line.strip()
            m = re.match(r"known:\s+property=(\S+)\s+key=(\S+)\s+(.*)", line)
            if m:
                known.append({"property": m.group(1), "key": m.group(2), "text": m.group(3)})
            m = re.match(r"fixed:\s+property=(\S+)\s+(\S+)\s+(.*)", line)
            if m:
                fixed.append({"property": m.group(1), "commit": m.group(2), "text": m.group(3)})
    return known, fixed


# --------------------------------------------------------------------------- the Check object

class Check:
    def __init__(self, pid, tier, seed, level="proof"):
        self.pid = pid
        self.tier = tier
        self.seed = seed
        self.level = level
        self.t0 = time.time()
        self.obligations = []      # {name, kind, ok, detail}
        self.coverage = {}         # extra keys for the evidence file
        self.samples = []
        self.assumptions = []
        self.trusted = ["Coq 8.16.1 kernel via coqc (vm_compute used; native_compute not used)"]
        self.violations = []       # {key, text, replay}
        self.known_hits = []
        self.broken = []           # names of proof obligations / correspondences that no longer check
        self.axioms_seen = {}
        self.evaluations = 0
        self.distinct = set()
        self.stats = {}
        self.known, self.fixed = load_known()
        os.makedirs(os.path.join(ROOT, "evidence"), exist_ok=True)
        os.makedirs(os.path.join(ROOT, "replays", pid), exist_ok=True)

    # ---- logging
    def log(self, *a):
        print("[%s %6.1fs]" % (self.pid, time.time() - self.t0), *a, flush=True)

    def count(self, key, n=1):
        self.stats[key] = self.stats.get(key, 0) + n

    def hist(self, name, key, n=1):
        h = self.stats.setdefault(name, {})
        h[str(key)] = h.get(str(key), 0) + n

    # ---- proof obligations
    def obligation(self, name, kind, ok, detail=""):
        self.obligations.append({"name": name, "kind": kind, "ok": bool(ok), "detail": detail[-1500:] if detail else ""})
        if not ok:
            self.broken.append(name)
            self.log("OBLIGATION FAILED:", name, "(%s)" % kind, "\n" + (detail[-1500:] if detail else ""))
        return ok

    def coq(self, props_module, extra_targets=(), clean=False, timeout=1500):
        """props_module e.g. 'Props.C17': builds Props/C17.vo (+ Props/C17_pins.vo if present),
        then checks forbidden tokens and Print Assumptions for each Theorem in it."""
        base = props_module.replace(".", "/")
        targets = [base + ".vo"] + list(extra_targets)
        pins = base + "_pins.v"
        if os.path.exists(os.path.join(COQ, pins)):
            targets.append(pins + "o")
        t = time.time()
        # `clean` (thorough tier) no longer wipes the shared tree (other checks build in it); the
        # independent re-check of the compiled proofs is done with coqchk below instead
        rc, out = coq_make(targets, timeout=timeout, clean=False)
        self.coverage["checker_cmd"] = "make -C coq -f Makefile.coq -j%d %s ; coqc Print Assumptions on every Theorem of %s" % (
            NPROC, " ".join(targets), base + ".v")
        self.coverage.setdefault("coq_build_s", 0)
        self.coverage["coq_build_s"] = round(self.coverage["coq_build_s"] + time.time() - t, 1)
        thms = theorems_in(base + ".v") if os.path.exists(os.path.join(COQ, base + ".v")) else []
        if rc != 0:
            # which theorem broke?  name the failing file from the make output
            m = re.findall(r'File "\./([^"]+)", line (\d+)', out)
            where = ", ".join("%s:%s" % x for x in m[-3:]) or "make"
            self.obligation("coq-build:" + where, "make", False, out[-3000:])
            for th in thms:
                self.obligation(th, "theorem", False, "not checked: build of %s failed at %s" % (base + ".vo", where))
            return False
        deps = []
        for t in targets:
            deps += coq_deps(t[:-1])
        deps = sorted(set(deps))
        hits = forbidden_scan(deps)
        self.coverage["coq_files"] = deps
        self.obligation("no Admitted/Axiom/Parameter/unsafe flags in the %d .v files the theorems depend on" % len(deps), "scan", not hits, "\n".join(hits))
        try:
            ass = print_assumptions(props_module, thms)
        except RuntimeError as ex:
            self.obligation("print-assumptions:" + props_module, "assumptions", False, str(ex))
            return False
        ok = True
        for th in thms:
            bad = [a for a in ass[th] if a.split(".")[-1] not in {x.split(".")[-1] for x in AXIOM_ALLOW}]
            self.axioms_seen[th] = ass[th]
            ok &= self.obligation(th, "theorem", not bad,
                                  "depends on non-allow-listed assumptions: " + ", ".join(bad) if bad else
                                  ("axioms: " + (", ".join(ass[th]) or "none (closed under the global context)")))
        if os.path.exists(os.path.join(COQ, pins)):
            self.obligation("pinned statements " + pins, "pins", True, "compiled")
        if clean:
            t = time.time()
            rc2, out2 = sh(["coqchk", "-silent", "-o", "-Q", COQ, "NV", "NV." + props_module], cwd=COQ, timeout=2400)
            ax = out2[out2.find("Axioms"):] if "Axioms" in out2 else out2[-800:]
            self.coverage["coqchk_s"] = round(time.time() - t, 1)
            self.coverage["coqchk_axioms"] = ax[:1500]
            self.obligation("coqchk NV." + props_module, "coqchk", rc2 == 0, out2[-1500:])
        return ok and not hits

    # ---- builds
    def harness(self, bins, timeout=3000):
        t = time.time()
        rc, out = cargo_build(bins, timeout=timeout)
        self.coverage["harness_build_s"] = round(time.time() - t, 1)
        if rc != 0:
            self.log("harness build failed:\n" + out[-4000:])
            self.obligation("harness-build:" + ",".join(bins), "build", False, out[-3000:])
            return False
        return True

    def model(self, extract_v, driver_ml="driver.ml", extra_ml=()):
        t = time.time()
        rc, out, exe = ocaml_build(self.pid.lower(), extract_v, driver_ml, extra_ml)
        self.coverage["model_build_s"] = round(time.time() - t, 1)
        if rc != 0:
            self.obligation("model-extraction:" + extract_v, "build", False, out[-3000:])
            return None
        return exe

    # ---- correspondence / violations
    def case(self, key=None, nontrivial=True):
        self.evaluations += 1
        if nontrivial and key is not None:
            self.distinct.add(hashlib.sha1(str(key).encode()).hexdigest()[:16])

    def sample(self, s, limit=8):
        if len(self.samples) < limit:
            self.samples.append(s)

    def write_replay(self, obj, tag=None):
        blob = json.dumps(obj, indent=1, sort_keys=True, default=str)
        h = tag or hashlib.sha1(blob.encode()).hexdigest()[:12]
        path = os.path.join(ROOT, "replays", self.pid, h + ".json")
        with open(path, "w") as f:
            f.write(blob + "\n")
        return path

    def violation(self, key, text, replay_obj, no_input=False):
        """Report a violation of the property.  `key` is the stable witness key matched against
        known_findings.txt."""
        for k in self.known:
            if k["property"] == self.pid and k["key"] == key:
                if key not in [h["key"] for h in self.known_hits]:
                    self.known_hits.append({"key": key, "text": k["text"]})
                return
        if key in [v["key"] for v in self.violations]:
            return
        replay_obj = dict(replay_obj)
        replay_obj.setdefault("property", self.pid)
        replay_obj.setdefault("seed", self.seed)
        replay_obj.setdefault("key", key)
        replay_obj.setdefault("what", text)
        path = self.write_replay(replay_obj)
        self.violations.append({"key": key, "text": text, "replay": path, "no_input": no_input})

    def finish(self):
        wall = time.time() - self.t0
        # a broken obligation with no concrete witness is still a violation
        if self.broken and not [v for v in self.violations if not v["no_input"]]:
            path = self.write_replay({"property": self.pid, "broken": self.broken,
                                      "obligations": [o for o in self.obligations if not o["ok"]],
                                      "what": "proof obligation / correspondence no longer checks; search found no failing input"},
                                     tag="broken-" + hashlib.sha1(",".join(self.broken).encode()).hexdigest()[:10])
            self.violations.append({"key": "broken:" + ",".join(self.broken)[:200], "text": "unchecked: " + ", ".join(self.broken)[:300],
                                    "replay": path, "no_input": True})
        nobl = len(self.obligations)
        ndis = len([o for o in self.obligations if o["ok"]])
        cov = dict(self.coverage)
        cov.update({
            "obligations": nobl, "discharged": ndis,
            "checker_cmd": cov.get("checker_cmd", "n/a"),
            "trusted_base": self.trusted + ["axioms per theorem: " + json.dumps(self.axioms_seen, sort_keys=True)],
            "obligation_list": self.obligations,
            "evaluations": self.evaluations,
            "distinct_nontrivial": len(self.distinct),
            "samples": self.samples or ["(no correspondence cases were run)"],
            "distribution": self.stats,
            "known_findings_reproduced": self.known_hits,
        })
        ev = {"property_id": self.pid, "tier": self.tier, "seed": self.seed, "level": self.level,
              "coverage": cov, "assumptions": self.assumptions, "wall_s": round(wall, 1),
              "violations": len(self.violations)}
        with open(os.path.join(ROOT, "evidence", self.pid + ".json"), "w") as f:
            json.dump(ev, f, indent=1, sort_keys=True, default=str)
            f.write("\n")
        for h in self.known_hits:
            print("KNOWN-FINDING: property=%s %s" % (self.pid, h["text"]), flush=True)
        for v in self.violations:
            print("VIOLATION property=%s replay=%s %s%s" % (
                self.pid, v["replay"], v["text"].replace("\n", " ")[:300],
                " no-failing-input-found" if v["no_input"] else ""), flush=True)
        self.log("obligations %d/%d, cases %d (distinct non-trivial %d), violations %d, known %d, %.1fs" % (
            ndis, nobl, self.evaluations, len(self.distinct), len(self.violations), len(self.known_hits), wall))
        return 1 if self.violations else 0
