//! Evaluate a Nickel program from source and map the result to a canonical outcome:
//! `OK <tree>` or `ERR <class>` (see DESIGN.md §1.2).  Numbers are printed as exact rationals.
use nickel_lang_core::{
    error::{Error, EvalErrorKind, NullReporter},
    eval::cache::CacheImpl,
    eval::value::{Container, NickelValue, ValueContentRef},
    label::Polarity,
    program::Program,
    typecheck::TypecheckMode,
};
use std::io::Cursor;

#[derive(Clone, Debug)]
pub struct Opts {
    pub fuel: u64,
    pub full_static: bool,
    pub no_dedup: bool,
    pub deps_unknown: bool,
    /// evaluate only this field path (as `--field`)
    pub field: Option<String>,
    /// run the typechecker first (walk mode, like the CLI)
    pub typecheck: bool,
    /// keep the insertion order of record fields in the printed tree (default: sorted by key)
    pub keep_order: bool,
    /// `export`: eval_full_for_export and print what the serializer would see;
    /// `full`: eval_full and print every field (hidden ones included)
    pub mode: Mode,
    /// with `Mode::Export`: print the text the real serializer produces for this format
    /// (as a JSON string literal) instead of the canonical tree
    pub text_format: Option<nickel_lang_core::serialize::ExportFormat>,
    /// append ` TRACE <json array of std.trace lines>` to a successful outcome
    pub capture_trace: bool,
    /// evaluate to weak head normal form only and print the number of pending contracts of this
    /// field of the resulting record (observes the deduplication decision of a merge)
    pub pending_of: Option<String>,
}

/// `std.trace` sink shared with the caller.
#[derive(Clone, Default)]
pub struct TraceBuf(pub std::sync::Arc<std::sync::Mutex<Vec<u8>>>);

impl std::io::Write for TraceBuf {
    fn write(&mut self, buf: &[u8]) -> std::io::Result<usize> {
        self.0.lock().unwrap().extend_from_slice(buf);
        Ok(buf.len())
    }
    fn flush(&mut self) -> std::io::Result<()> {
        Ok(())
    }
}

#[derive(Clone, Copy, Debug, PartialEq)]
pub enum Mode {
    Export,
    Full,
}

impl Default for Opts {
    fn default() -> Self {
        Opts {
            fuel: 2_000_000,
            full_static: false,
            no_dedup: false,
            deps_unknown: false,
            field: None,
            typecheck: true,
            keep_order: false,
            mode: Mode::Export,
            text_format: None,
            capture_trace: false,
            pending_of: None,
        }
    }
}

#[derive(Clone, Debug, PartialEq)]
pub enum Outcome {
    Ok(String),
    Err { class: String, detail: String },
}

impl Outcome {
    pub fn line(&self) -> String {
        match self {
            Outcome::Ok(s) => format!("OK {s}"),
            Outcome::Err { class, .. } => format!("ERR {class}"),
        }
    }
    pub fn line_detail(&self) -> String {
        match self {
            Outcome::Ok(s) => format!("OK {s}"),
            Outcome::Err { class, detail } => {
                format!("ERR {class} -- {}", detail.replace('\n', " "))
            }
        }
    }
}

pub fn json_str(s: &str) -> String {
    serde_json::to_string(s).unwrap()
}

pub fn show_number(n: &nickel_lang_core::term::Number) -> String {
    // malachite's Display for Rational prints `p/q` in lowest terms, or `p` for integers
    format!("#{n}")
}

/// Print a fully evaluated value.  `Err(class)` when something isn't data.
pub fn show_value(v: &NickelValue, export: bool, keep_order: bool) -> Result<String, String> {
    match v.content_ref() {
        ValueContentRef::Null => Ok("null".into()),
        ValueContentRef::Bool(b) => Ok(format!("{b}")),
        ValueContentRef::Number(n) => Ok(show_number(n)),
        ValueContentRef::String(s) => Ok(json_str(s.as_ref())),
        ValueContentRef::EnumVariant(d) => match &d.arg {
            None => Ok(format!("'{}", json_str(d.tag.label()))),
            Some(a) => {
                if export {
                    Err("NotExportable".into())
                } else {
                    Ok(format!("('{} {})", json_str(d.tag.label()), show_value(a, export, keep_order)?))
                }
            }
        },
        ValueContentRef::Array(Container::Empty) => Ok("[]".into()),
        ValueContentRef::Array(Container::Alloc(a)) => {
            let mut parts = Vec::new();
            for e in a.array.iter() {
                parts.push(show_value(e, export, keep_order)?);
            }
            Ok(format!("[{}]", parts.join(",")))
        }
        ValueContentRef::Record(Container::Empty) => Ok("{}".into()),
        ValueContentRef::Record(Container::Alloc(r)) => {
            let mut entries: Vec<(String, String)> = Vec::new();
            for (id, field) in r.fields.iter() {
                let hidden = field.metadata.not_exported();
                match &field.value {
                    Some(v) => {
                        if export && hidden {
                            continue;
                        }
                        let mut s = show_value(v, export, keep_order)?;
                        if !export && hidden {
                            s = format!("~{s}");
                        }
                        entries.push((id.label().to_owned(), s));
                    }
                    None => {
                        if field.metadata.opt() || (export && hidden) {
                            continue;
                        }
                        if export {
                            return Err("MissingDef".into());
                        }
                        entries.push((id.label().to_owned(), "<nodef>".into()));
                    }
                }
            }
            if !keep_order {
                entries.sort();
            }
            let parts: Vec<String> =
                entries.iter().map(|(k, v)| format!("{}:{}", json_str(k), v)).collect();
            Ok(format!("{{{}}}", parts.join(",")))
        }
        ValueContentRef::Term(t) => {
            use nickel_lang_core::term::Term;
            match t {
                Term::Fun(..) => {
                    if export { Err("NotExportable".into()) } else { Ok("<fun>".into()) }
                }
                _ => {
                    if export { Err("NotExportable".into()) } else { Ok("<term>".into()) }
                }
            }
        }
        ValueContentRef::Label(_) => if export { Err("NotExportable".into()) } else { Ok("<label>".into()) },
        ValueContentRef::CustomContract(_) => if export { Err("NotExportable".into()) } else { Ok("<contract>".into()) },
        ValueContentRef::Type(_) => if export { Err("NotExportable".into()) } else { Ok("<type>".into()) },
        ValueContentRef::ForeignId(_) => if export { Err("NotExportable".into()) } else { Ok("<foreign>".into()) },
        ValueContentRef::SealingKey(_) => if export { Err("NotExportable".into()) } else { Ok("<sealingkey>".into()) },
        ValueContentRef::Thunk(_) => Err("Unevaluated".into()),
    }
}

pub fn classify_eval(e: &EvalErrorKind) -> (String, String) {
    use EvalErrorKind::*;
    let class = match e {
        BlameError { label, .. } => match label.polarity {
            Polarity::Positive => "Blame+".to_string(),
            Polarity::Negative => "Blame-".to_string(),
        },
        MissingFieldDef { .. } => "MissingDef".into(),
        TypeError { .. } | UnaryPrimopTypeError { .. } | NAryPrimopTypeError { .. } => "TypeErr".into(),
        ParseError(_) => "Parse".into(),
        NotAFunc(..) => "NotAFunc".into(),
        FieldMissing { .. } => "FieldMissing".into(),
        NotEnoughArgs(..) => "NotEnoughArgs".into(),
        MergeIncompatibleArgs { .. } => "NonMergeable".into(),
        UnboundIdentifier(..) => "UnboundId".into(),
        InfiniteRecursion(..) => "InfiniteRec".into(),
        SerializationError(..) => "Serialization".into(),
        DeserializationError(..) | DeserializationErrorWithInner { .. } => "Deserialization".into(),
        IllegalPolymorphicTailAccess { .. } => "TailAccess".into(),
        IncomparableValues { .. } => "Incomparable".into(),
        NonExhaustiveEnumMatch { .. } | NonExhaustiveMatch { .. } => "NonExhaustive".into(),
        FailedDestructuring { .. } => "FailedDestructuring".into(),
        QueryNonRecord { .. } => "QueryNonRecord".into(),
        InternalError(..) => "Internal".into(),
        Other(msg, _) => {
            if msg == nickel_lang_core::verif_hooks::BUDGET_MSG {
                "Budget".into()
            } else if msg.contains("division by zero") {
                "DivByZero".into()
            } else {
                "OtherErr".into()
            }
        }
    };
    let detail = match e {
        Other(msg, _) | InternalError(msg, _) => msg.clone(),
        BlameError { label, .. } => format!("path={:?} diag={:?}", label.path, label.diagnostics.iter().map(|d| d.message.clone()).collect::<Vec<_>>()),
        IllegalPolymorphicTailAccess { action, .. } => format!("{action:?}"),
        FieldMissing { id, .. } => format!("field {id}"),
        UnboundIdentifier(id, _) => format!("ident {id}"),
        MissingFieldDef { id, .. } => format!("field {id}"),
        // never Debug-print values or labels: they may be cyclic thunk graphs
        _ => String::new(),
    };
    (class, detail)
}

pub fn classify(e: &Error) -> Outcome {
    let (class, detail) = match e {
        Error::EvalError(d) => classify_eval(&d.error),
        Error::TypecheckError(t) => ("Typecheck".into(), format!("{t:?}").chars().take(300).collect()),
        Error::ParseErrors(p) => ("Parse".into(), format!("{p:?}").chars().take(300).collect()),
        Error::ImportError(i) => ("Import".into(), format!("{i:?}").chars().take(300).collect()),
        Error::ExportError(x) => ("Export".into(), format!("{x:?}").chars().take(300).collect()),
        Error::IOError(x) => ("IO".into(), format!("{x:?}")),
        Error::ReplError(x) => ("Repl".into(), format!("{x:?}").chars().take(300).collect()),
    };
    Outcome::Err { class, detail }
}

fn set_knobs(o: &Opts) {
    use nickel_lang_core::verif_hooks as h;
    h::set_fuel(o.fuel);
    h::set_full_static_contracts(o.full_static);
    h::set_no_dedup(o.no_dedup);
    h::set_deps_unknown(o.deps_unknown);
}

fn run_inner(src: &str, o: &Opts) -> Outcome {
    // the knobs are thread-local: set them on the evaluating thread; stdlib loading is not metered
    let trace = TraceBuf::default();
    let mut prog: Program<CacheImpl> = match Program::new_from_source(
        Cursor::new(src.to_owned()),
        "<verif>",
        trace.clone(),
        NullReporter {},
    ) {
        Ok(p) => p,
        Err(e) => return Outcome::Err { class: "IO".into(), detail: format!("{e}") },
    };
    if let Some(f) = &o.field {
        match prog.parse_field_path(f.clone()) {
            Ok(p) => prog.field = p,
            Err(e) => return Outcome::Err { class: "Parse".into(), detail: format!("{e:?}") },
        }
    }
    {
        use nickel_lang_core::verif_hooks as h;
        h::set_fuel(u64::MAX);
        h::set_full_static_contracts(o.full_static);
        h::set_no_dedup(o.no_dedup);
        h::set_deps_unknown(o.deps_unknown);
    }
    if o.typecheck {
        if let Err(e) = prog.typecheck(TypecheckMode::Walk) {
            return classify(&e);
        }
    }
    set_knobs(o);
    if let Some(fname) = &o.pending_of {
        let res = prog.eval();
        nickel_lang_core::verif_hooks::set_fuel(u64::MAX);
        return match res {
            Ok(v) => match v.content_ref() {
                ValueContentRef::Record(Container::Alloc(r)) => {
                    match r.fields.iter().find(|(id, _)| id.label() == fname) {
                        Some((_, f)) => Outcome::Ok(format!(
                            "{} {}",
                            f.pending_contracts.len(),
                            if f.value.is_some() { "val" } else { "noval" }
                        )),
                        None => Outcome::Err { class: "NoSuchField".into(), detail: String::new() },
                    }
                }
                _ => Outcome::Err { class: "NotARecord".into(), detail: String::new() },
            },
            Err(e) => classify(&e),
        };
    }
    let res = match o.mode {
        Mode::Export => prog.eval_full_for_export(),
        Mode::Full => prog.eval_full(),
    };
    nickel_lang_core::verif_hooks::set_fuel(u64::MAX);
    if let (Some(fmt), Ok(v)) = (o.text_format, &res) {
        return match nickel_lang_core::serialize::validate(fmt, v)
            .and_then(|_| nickel_lang_core::serialize::to_string(fmt, v))
        {
            Ok(text) => Outcome::Ok(json_str(&text)),
            Err(e) => Outcome::Err { class: "Export".into(), detail: format!("at {:?}", e.path).chars().take(200).collect() },
        };
    }
    match res {
        Ok(v) => match show_value(&v, o.mode == Mode::Export, o.keep_order) {
            Ok(s) if o.capture_trace => {
                let t = String::from_utf8_lossy(&trace.0.lock().unwrap()).into_owned();
                let lines: Vec<&str> = t.lines().collect();
                Outcome::Ok(format!("{s} TRACE {}", serde_json::to_string(&lines).unwrap()))
            }
            Ok(s) => Outcome::Ok(s),
            Err(class) => Outcome::Err { class, detail: "while printing the result".into() },
        },
        Err(e) => classify(&e),
    }
}

/// Run on a dedicated thread with a big stack; panics and stack overflows are mapped to `Panic`.
pub fn run(src: &str, o: &Opts) -> Outcome {
    let src = src.to_owned();
    let o = o.clone();
    let h = std::thread::Builder::new()
        .stack_size(512 << 20)
        .spawn(move || std::panic::catch_unwind(std::panic::AssertUnwindSafe(|| run_inner(&src, &o))))
        .unwrap();
    match h.join() {
        Ok(Ok(out)) => out,
        Ok(Err(p)) | Err(p) => {
            let msg = p
                .downcast_ref::<String>()
                .cloned()
                .or_else(|| p.downcast_ref::<&str>().map(|s| s.to_string()))
                .unwrap_or_default();
            Outcome::Err { class: "Panic".into(), detail: msg }
        }
    }
}

/// Decode the line protocol escape: `\n` `\\` -> newline, backslash.
pub fn unescape(s: &str) -> String {
    let mut out = String::new();
    let mut it = s.chars();
    while let Some(c) = it.next() {
        if c == '\\' {
            match it.next() {
                Some('n') => out.push('\n'),
                Some('t') => out.push('\t'),
                Some('r') => out.push('\r'),
                Some('\\') => out.push('\\'),
                Some(o) => { out.push('\\'); out.push(o) }
                None => out.push('\\'),
            }
        } else {
            out.push(c);
        }
    }
    out
}
