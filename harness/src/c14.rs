//! C14 helpers (printer / parser round trip).
//!
//! * `Sx`: a tiny s-expression type with reader and writer (the exchange format between the case
//!   generator, this harness and the extracted Coq model).
//! * `dump_*`: position-erased s-expression of a parser AST (`nickel_lang_parser::ast`).  Two ASTs
//!   are "equal up to source positions" iff their dumps are equal.
//! * `Builder`: the inverse, builds a real `Ast` in an `AstAlloc` from an s-expression.
//! * `tokens`: lexes a source text with the real lexer and renders the token stream in the
//!   model's token vocabulary (string-like constructs are regrouped into chunks the way the
//!   grammar's `StringChunks`/`ChunkLiteral` rules do, multiline strings go through the parser's
//!   own `strip_indent`).
use nickel_lang_parser::{
    ast::{
        pattern::*,
        primop::PrimOp,
        record::{FieldDef, FieldMetadata, FieldPathElem, Include, Record},
        typ::{EnumRow, EnumRows, RecordRow, RecordRows, Type},
        *,
    },
    identifier::{Ident, LocIdent},
    lexer::{Lexer, MultiStringToken, NormalToken, StringToken, Token},
    position::TermPos,
    typ::{DictTypeFlavour, EnumRowsF, RecordRowsF, TypeF, VarKind},
};
use std::str::FromStr;

// ------------------------------------------------------------------------------------------ Sx

#[derive(Clone, Debug, PartialEq)]
pub enum Sx {
    /// bare atom
    A(String),
    /// quoted string
    S(String),
    L(Vec<Sx>),
}

pub fn a(s: &str) -> Sx {
    Sx::A(s.to_owned())
}
pub fn s(x: &str) -> Sx {
    Sx::S(x.to_owned())
}
pub fn l(tag: &str, mut rest: Vec<Sx>) -> Sx {
    let mut v = vec![a(tag)];
    v.append(&mut rest);
    Sx::L(v)
}
fn opt(x: Option<Sx>) -> Sx {
    match x {
        None => l("none", vec![]),
        Some(v) => l("some", vec![v]),
    }
}
fn b01(b: bool) -> Sx {
    a(if b { "1" } else { "0" })
}

/// String quoting shared by all sides: `"`, `\` and control characters are escaped, everything
/// else is raw bytes.
pub fn quote(x: &str) -> String {
    let mut o = String::with_capacity(x.len() + 2);
    o.push('"');
    for c in x.chars() {
        match c {
            '"' => o.push_str("\\\""),
            '\\' => o.push_str("\\\\"),
            '\n' => o.push_str("\\n"),
            '\r' => o.push_str("\\r"),
            '\t' => o.push_str("\\t"),
            c if (c as u32) < 0x20 => o.push_str(&format!("\\x{:02x}", c as u32)),
            c => o.push(c),
        }
    }
    o.push('"');
    o
}

impl Sx {
    pub fn write(&self, o: &mut String) {
        match self {
            Sx::A(x) => o.push_str(x),
            Sx::S(x) => o.push_str(&quote(x)),
            Sx::L(v) => {
                o.push('(');
                for (i, x) in v.iter().enumerate() {
                    if i > 0 {
                        o.push(' ');
                    }
                    x.write(o);
                }
                o.push(')');
            }
        }
    }
    pub fn show(&self) -> String {
        let mut o = String::new();
        self.write(&mut o);
        o
    }
    pub fn parse(src: &str) -> Result<Sx, String> {
        let cs: Vec<char> = src.chars().collect();
        let mut i = 0;
        let r = parse_sx(&cs, &mut i)?;
        skip_ws(&cs, &mut i);
        if i != cs.len() {
            return Err(format!("trailing input at {i}"));
        }
        Ok(r)
    }
    pub fn tag(&self) -> &str {
        match self {
            Sx::A(x) => x,
            Sx::L(v) => match v.first() {
                Some(Sx::A(x)) => x,
                _ => "",
            },
            Sx::S(_) => "",
        }
    }
    pub fn args(&self) -> &[Sx] {
        match self {
            Sx::L(v) if !v.is_empty() => &v[1..],
            _ => &[],
        }
    }
    pub fn str(&self) -> Result<&str, String> {
        match self {
            Sx::S(x) => Ok(x),
            other => Err(format!("expected string, got {}", other.show())),
        }
    }
    pub fn items(&self) -> Result<&[Sx], String> {
        match self {
            Sx::L(v) => Ok(v),
            other => Err(format!("expected list, got {}", other.show())),
        }
    }
}

fn skip_ws(cs: &[char], i: &mut usize) {
    while *i < cs.len() && cs[*i].is_whitespace() {
        *i += 1;
    }
}

fn parse_sx(cs: &[char], i: &mut usize) -> Result<Sx, String> {
    skip_ws(cs, i);
    if *i >= cs.len() {
        return Err("eof".into());
    }
    match cs[*i] {
        '(' => {
            *i += 1;
            let mut v = Vec::new();
            loop {
                skip_ws(cs, i);
                if *i >= cs.len() {
                    return Err("eof in list".into());
                }
                if cs[*i] == ')' {
                    *i += 1;
                    return Ok(Sx::L(v));
                }
                v.push(parse_sx(cs, i)?);
            }
        }
        ')' => Err(format!("unexpected ) at {i}")),
        '"' => {
            *i += 1;
            let mut o = String::new();
            loop {
                if *i >= cs.len() {
                    return Err("eof in string".into());
                }
                let c = cs[*i];
                *i += 1;
                match c {
                    '"' => return Ok(Sx::S(o)),
                    '\\' => {
                        let d = *cs.get(*i).ok_or("eof in escape")?;
                        *i += 1;
                        match d {
                            'n' => o.push('\n'),
                            'r' => o.push('\r'),
                            't' => o.push('\t'),
                            'x' => {
                                let h: String = cs[*i..*i + 2].iter().collect();
                                *i += 2;
                                o.push(u8::from_str_radix(&h, 16).map_err(|e| e.to_string())? as char);
                            }
                            d => o.push(d),
                        }
                    }
                    c => o.push(c),
                }
            }
        }
        _ => {
            let st = *i;
            while *i < cs.len() && !cs[*i].is_whitespace() && cs[*i] != '(' && cs[*i] != ')' && cs[*i] != '"' {
                *i += 1;
            }
            Ok(Sx::A(cs[st..*i].iter().collect()))
        }
    }
}

// ---------------------------------------------------------------------------------------- dump

#[derive(Clone, Copy)]
pub struct DumpOpts {
    /// include the kind of `forall`-bound variables (computed by the parser, ignored by the printer)
    pub var_kind: bool,
}

pub fn op_name(op: &PrimOp) -> Sx {
    match op {
        PrimOp::RecordStatAccess(id) => l("stat_access", vec![s(id.label())]),
        PrimOp::EnumEmbed(id) => l("enum_embed", vec![s(id.label())]),
        op => s(canon_name(op).expect("canonical name")),
    }
}

pub fn num(n: &Number) -> Sx {
    l("num", vec![s(&format!("{n}"))])
}

pub fn dump_term(t: &Ast, o: DumpOpts) -> Sx {
    dump_node(&t.node, o)
}

pub fn dump_node(n: &Node, o: DumpOpts) -> Sx {
    match n {
        Node::Null => a("null"),
        Node::Bool(b) => l("bool", vec![a(if *b { "true" } else { "false" })]),
        Node::Number(q) => num(q),
        Node::String(x) => l("str", vec![s(x)]),
        Node::StringChunks(cs) => l("chunks", cs.iter().map(|c| dump_chunk(c, o)).collect()),
        Node::Fun { args, body } => l(
            "fun",
            vec![Sx::L(args.iter().map(|p| dump_pat(p, o)).collect()), dump_term(body, o)],
        ),
        Node::Let { bindings, body, rec } => l(
            "let",
            vec![
                b01(*rec),
                Sx::L(bindings.iter().map(|b| dump_binding(b, o)).collect()),
                dump_term(body, o),
            ],
        ),
        Node::App { head, args } => {
            let mut v = vec![dump_term(head, o)];
            v.extend(args.iter().map(|x| dump_term(x, o)));
            l("app", v)
        }
        Node::Var(id) => l("var", vec![s(id.label())]),
        Node::EnumVariant { tag, arg: None } => l("enum", vec![s(tag.label())]),
        Node::EnumVariant { tag, arg: Some(x) } => l("variant", vec![s(tag.label()), dump_term(x, o)]),
        Node::Record(r) => dump_record(r, o),
        Node::IfThenElse { cond, then_branch, else_branch } => l(
            "if",
            vec![dump_term(cond, o), dump_term(then_branch, o), dump_term(else_branch, o)],
        ),
        Node::Match(m) => l("match", m.branches.iter().map(|b| dump_branch(b, o)).collect()),
        Node::Array(es) => l("array", es.iter().map(|x| dump_term(x, o)).collect()),
        Node::PrimOpApp { op, args } => {
            let mut v = vec![op_name(op)];
            v.extend(args.iter().map(|x| dump_term(x, o)));
            l("op", v)
        }
        Node::Annotated { annot, inner } => l("annot", vec![dump_annot(annot, o), dump_term(inner, o)]),
        Node::Import(Import::Path { path, format }) => {
            l("import", vec![s(&path.to_string_lossy()), a(format.to_str())])
        }
        Node::Import(Import::Package { id }) => l("import_pkg", vec![s(id.label())]),
        Node::Type(t) => l("type", vec![dump_type(t, o)]),
        Node::ParseError(_) => l("parse_error", vec![]),
    }
}

fn dump_chunk(c: &StringChunk<Ast>, o: DumpOpts) -> Sx {
    match c {
        StringChunk::Literal(x) => l("lit", vec![s(x)]),
        StringChunk::Expr(e, indent) => l("expr", vec![dump_term(e, o), a(&indent.to_string())]),
    }
}

fn dump_annot(an: &Annotation, o: DumpOpts) -> Sx {
    l(
        "ann",
        vec![
            opt(an.typ.as_ref().map(|t| dump_type(t, o))),
            Sx::L(an.contracts.iter().map(|t| dump_type(t, o)).collect()),
        ],
    )
}

fn dump_prio(p: &MergePriority) -> Sx {
    match p {
        MergePriority::Bottom => a("bottom"),
        MergePriority::Neutral => a("neutral"),
        MergePriority::Top => a("top"),
        MergePriority::Numeral(n) => l("numeral", vec![s(&format!("{n}"))]),
    }
}

fn dump_fmeta(m: &FieldMetadata, o: DumpOpts) -> Sx {
    l(
        "fmeta",
        vec![
            opt(m.doc.map(s)),
            dump_annot(&m.annotation, o),
            b01(m.opt),
            b01(m.not_exported),
            dump_prio(&m.priority),
        ],
    )
}

fn dump_binding(b: &LetBinding, o: DumpOpts) -> Sx {
    l(
        "bind",
        vec![
            dump_pat(&b.pattern, o),
            l("lmeta", vec![opt(b.metadata.doc.map(s)), dump_annot(&b.metadata.annotation, o)]),
            dump_term(&b.value, o),
        ],
    )
}

fn dump_record(r: &Record, o: DumpOpts) -> Sx {
    l(
        "record",
        vec![
            Sx::L(r.includes.iter().map(|i| l("incl", vec![s(i.ident.label()), dump_fmeta(&i.metadata, o)])).collect()),
            Sx::L(r.field_defs.iter().map(|f| dump_fdef(f, o)).collect()),
            b01(r.open),
        ],
    )
}

fn dump_fdef(f: &FieldDef, o: DumpOpts) -> Sx {
    l(
        "fdef",
        vec![
            Sx::L(
                f.path
                    .iter()
                    .map(|e| match e {
                        FieldPathElem::Ident(id) => l("id", vec![s(id.label())]),
                        FieldPathElem::Expr(e) => l("pexpr", vec![dump_term(e, o)]),
                    })
                    .collect(),
            ),
            dump_fmeta(&f.metadata, o),
            opt(f.value.as_ref().map(|v| dump_term(v, o))),
        ],
    )
}

fn dump_branch(b: &MatchBranch, o: DumpOpts) -> Sx {
    l(
        "branch",
        vec![dump_pat(&b.pattern, o), opt(b.guard.as_ref().map(|g| dump_term(g, o))), dump_term(&b.body, o)],
    )
}

fn dump_tail(t: &TailPattern) -> Sx {
    match t {
        TailPattern::Empty => a("closed"),
        TailPattern::Open => a("open"),
        TailPattern::Capture(id) => l("capture", vec![s(id.label())]),
    }
}

pub fn dump_pat(p: &Pattern, o: DumpOpts) -> Sx {
    l("pat", vec![opt(p.alias.map(|x| s(x.label()))), dump_pdata(&p.data, o)])
}

fn dump_pdata(d: &PatternData, o: DumpOpts) -> Sx {
    match d {
        PatternData::Wildcard => a("wild"),
        PatternData::Any(id) => l("any", vec![s(id.label())]),
        PatternData::Record(r) => l(
            "prec",
            vec![
                Sx::L(
                    r.patterns
                        .iter()
                        .map(|f| {
                            l(
                                "fpat",
                                vec![
                                    s(f.matched_id.label()),
                                    dump_annot(&f.annotation, o),
                                    opt(f.default.as_ref().map(|d| dump_term(d, o))),
                                    dump_pat(&f.pattern, o),
                                ],
                            )
                        })
                        .collect(),
                ),
                dump_tail(&r.tail),
            ],
        ),
        PatternData::Array(ar) => l(
            "parr",
            vec![Sx::L(ar.patterns.iter().map(|p| dump_pat(p, o)).collect()), dump_tail(&ar.tail)],
        ),
        PatternData::Enum(e) => l("penum", vec![s(e.tag.label()), opt(e.pattern.as_ref().map(|p| dump_pat(p, o)))]),
        PatternData::Constant(c) => l(
            "pconst",
            vec![match &c.data {
                ConstantPatternData::Bool(b) => l("bool", vec![a(if *b { "true" } else { "false" })]),
                ConstantPatternData::Number(n) => num(n),
                ConstantPatternData::String(x) => l("str", vec![s(x)]),
                ConstantPatternData::Null => a("null"),
            }],
        ),
        PatternData::Or(op) => l("por", op.patterns.iter().map(|p| dump_pat(p, o)).collect()),
    }
}

fn dump_kind(k: &VarKind) -> Sx {
    fn set(tag: &str, ex: &std::collections::HashSet<Ident>) -> Sx {
        let mut v: Vec<&str> = ex.iter().map(|i| i.label()).collect();
        v.sort();
        l(tag, v.into_iter().map(s).collect())
    }
    match k {
        VarKind::Type => a("ktype"),
        VarKind::EnumRows { excluded } => set("kenum", excluded),
        VarKind::RecordRows { excluded } => set("krecord", excluded),
    }
}

pub fn dump_type(t: &Type, o: DumpOpts) -> Sx {
    match &t.typ {
        TypeF::Dyn => a("dyn"),
        TypeF::Number => a("number"),
        TypeF::Bool => a("bool"),
        TypeF::String => a("string"),
        TypeF::Symbol => a("symbol"),
        TypeF::ForeignId => a("foreignid"),
        TypeF::Contract(c) => l("contract", vec![dump_term(c, o)]),
        TypeF::Arrow(x, y) => l("arrow", vec![dump_type(x, o), dump_type(y, o)]),
        TypeF::Var(id) => l("tvar", vec![s(id.label())]),
        TypeF::Forall { var, var_kind, body } => {
            let mut v = vec![s(var.label())];
            if o.var_kind {
                v.push(dump_kind(var_kind));
            }
            v.push(dump_type(body, o));
            l("forall", v)
        }
        TypeF::Enum(rows) => {
            let mut v = Vec::new();
            let mut cur = rows;
            let tail;
            loop {
                match &cur.0 {
                    EnumRowsF::Empty => {
                        tail = opt(None);
                        break;
                    }
                    EnumRowsF::TailVar(id) => {
                        tail = opt(Some(s(id.label())));
                        break;
                    }
                    EnumRowsF::Extend { row, tail } => {
                        v.push(l("erow", vec![s(row.id.label()), opt(row.typ.map(|t| dump_type(t, o)))]));
                        cur = tail;
                    }
                }
            }
            l("enumt", vec![Sx::L(v), tail])
        }
        TypeF::Record(rows) => {
            let mut v = Vec::new();
            let mut cur = rows;
            let tail;
            loop {
                match &cur.0 {
                    RecordRowsF::Empty => {
                        tail = a("closed");
                        break;
                    }
                    RecordRowsF::TailDyn => {
                        tail = a("taildyn");
                        break;
                    }
                    RecordRowsF::TailVar(id) => {
                        tail = l("tailvar", vec![s(id.label())]);
                        break;
                    }
                    RecordRowsF::Extend { row, tail } => {
                        v.push(l("rrow", vec![s(row.id.label()), dump_type(row.typ, o)]));
                        cur = tail;
                    }
                }
            }
            l("rect", vec![Sx::L(v), tail])
        }
        TypeF::Dict { type_fields, flavour } => l(
            "dict",
            vec![
                a(match flavour {
                    DictTypeFlavour::Type => "type",
                    DictTypeFlavour::Contract => "contract",
                }),
                dump_type(type_fields, o),
            ],
        ),
        TypeF::Array(t) => l("arrayt", vec![dump_type(t, o)]),
        TypeF::Wildcard(n) => l("wildcard", vec![a(&n.to_string())]),
    }
}

// --------------------------------------------------------------------------------------- build

pub struct Builder<'ast> {
    pub alloc: &'ast AstAlloc,
}

type R<T> = Result<T, String>;

fn want<'a>(x: &'a Sx, tag: &str, n: usize) -> R<&'a [Sx]> {
    if x.tag() == tag && x.args().len() == n && matches!(x, Sx::L(_)) {
        Ok(x.args())
    } else {
        Err(format!("expected ({tag} ...{n}), got {}", x.show()))
    }
}

fn get_opt(x: &Sx) -> R<Option<&Sx>> {
    match x.tag() {
        "none" => Ok(None),
        "some" => Ok(Some(&want(x, "some", 1)?[0])),
        _ => Err(format!("expected option, got {}", x.show())),
    }
}

fn get_bool01(x: &Sx) -> R<bool> {
    match x {
        Sx::A(v) if v == "0" => Ok(false),
        Sx::A(v) if v == "1" => Ok(true),
        _ => Err(format!("expected 0/1, got {}", x.show())),
    }
}

pub fn parse_num(x: &str) -> R<Number> {
    Number::from_str(x).map_err(|_| format!("bad number {x}"))
}

/// One table for both directions, `PrimOp` value <-> canonical name. The names are the harness's own
/// (they are what `Display` printed when the table was written) and do NOT go through `Display`,
/// which is part of what is being checked: the printer writes `%{op}%`. `op_name` is an exhaustive
/// match, so a new constructor is a compile error here (the check fails closed at build time).
macro_rules! op_table {
    ($( $name:literal => [$($v:tt)*] ),* $(,)?) => {
        /// canonical names of every `PrimOp` value without a payload identifier
        pub const ALL_OPS: &[&str] = &[$($name),*];

        fn canon_name(op: &PrimOp) -> Option<&'static str> {
            use PrimOp::*;
            match op {
                $( $($v)* => Some($name), )*
                RecordStatAccess(_) | EnumEmbed(_) => None,
            }
        }

        fn op_of_canon(name: &str) -> Option<PrimOp> {
            use PrimOp::*;
            match name {
                $( $name => Some($($v)*), )*
                _ => None,
            }
        }
    };
}

op_table! {
    "force"                                  => [Force { ignore_not_exported: false }],
    "force!ine"                              => [Force { ignore_not_exported: true }],
    "(&)"                                    => [Merge(MergeKind::Standard)],
    "(&)!piecewise"                          => [Merge(MergeKind::PiecewiseDef)],
    "typeof"                                 => [Typeof],
    "cast"                                   => [Cast],
    "(&&)"                                   => [BoolAnd],
    "(||)"                                   => [BoolOr],
    "bool/not"                               => [BoolNot],
    "blame"                                  => [Blame],
    "array/map"                              => [ArrayMap],
    "record/map"                             => [RecordMap],
    "label/flip_polarity"                    => [LabelFlipPol],
    "label/polarity"                         => [LabelPol],
    "label/go_dom"                           => [LabelGoDom],
    "label/go_codom"                         => [LabelGoCodom],
    "label/go_array"                         => [LabelGoArray],
    "label/go_dict"                          => [LabelGoDict],
    "seq"                                    => [Seq],
    "deep_seq"                               => [DeepSeq],
    "array/length"                           => [ArrayLength],
    "array/generate"                         => [ArrayGen],
    "record/fields"                          => [RecordFields(RecordOpKind::IgnoreEmptyOpt)],
    "record/fields_with_opts"                => [RecordFields(RecordOpKind::ConsiderAllFields)],
    "record/values"                          => [RecordValues],
    "string/trim"                            => [StringTrim],
    "string/chars"                           => [StringChars],
    "string/uppercase"                       => [StringUppercase],
    "string/lowercase"                       => [StringLowercase],
    "string/length"                          => [StringLength],
    "string/base64_encode"                   => [StringBase64Encode],
    "string/base64_decode"                   => [StringBase64Decode],
    "to_string"                              => [ToString],
    "number/from_string"                     => [NumberFromString],
    "enum/from_string"                       => [EnumFromString],
    "string/is_match"                        => [StringIsMatch],
    "string/find"                            => [StringFind],
    "string/find_all"                        => [StringFindAll],
    "record/empty_with_tail"                 => [RecordEmptyWithTail],
    "record/freeze"                          => [RecordFreeze],
    "trace"                                  => [Trace],
    "label/push_diag"                        => [LabelPushDiag],
    "enum/get_arg"                           => [EnumGetArg],
    "enum/make_variant"                      => [EnumMakeVariant],
    "enum/is_variant"                        => [EnumIsVariant],
    "enum/get_tag"                           => [EnumGetTag],
    "contract/custom"                        => [ContractCustom],
    "number/arccos"                          => [NumberArcCos],
    "number/arcsin"                          => [NumberArcSin],
    "number/arctan"                          => [NumberArcTan],
    "number/cos"                             => [NumberCos],
    "number/sin"                             => [NumberSin],
    "number/tan"                             => [NumberTan],
    "(+)"                                    => [Plus],
    "(-)"                                    => [Sub],
    "(*)"                                    => [Mult],
    "(/)"                                    => [Div],
    "(%)"                                    => [Modulo],
    "number/arctan2"                         => [NumberArcTan2],
    "number/log"                             => [NumberLog],
    "pow"                                    => [Pow],
    "string/concat"                          => [StringConcat],
    "(==)"                                   => [Eq],
    "(<)"                                    => [LessThan],
    "(<=)"                                   => [LessOrEq],
    "(>)"                                    => [GreaterThan],
    "(>=)"                                   => [GreaterOrEq],
    "contract/apply"                         => [ContractApply],
    "contract/check"                         => [ContractCheck],
    "label/with_error_data"                  => [LabelWithErrorData],
    "label/go_field"                         => [LabelGoField],
    "record/insert"                          => [RecordInsert(RecordOpKind::IgnoreEmptyOpt)],
    "record/insert_with_opts"                => [RecordInsert(RecordOpKind::ConsiderAllFields)],
    "record/remove"                          => [RecordRemove(RecordOpKind::IgnoreEmptyOpt)],
    "record/remove_with_opts"                => [RecordRemove(RecordOpKind::ConsiderAllFields)],
    "record/get"                             => [RecordGet],
    "record/has_field"                       => [RecordHasField(RecordOpKind::IgnoreEmptyOpt)],
    "record/has_field_with_opts"             => [RecordHasField(RecordOpKind::ConsiderAllFields)],
    "record/field_is_defined"                => [RecordFieldIsDefined(RecordOpKind::IgnoreEmptyOpt)],
    "record/field_is_defined_with_opts"      => [RecordFieldIsDefined(RecordOpKind::ConsiderAllFields)],
    "record/split_pair"                      => [RecordSplitPair],
    "record/disjoint_merge"                  => [RecordDisjointMerge],
    "(@)"                                    => [ArrayConcat],
    "array/at"                               => [ArrayAt],
    "hash"                                   => [Hash],
    "serialize"                              => [Serialize],
    "deserialize"                            => [Deserialize],
    "string/split"                           => [StringSplit],
    "string/contains"                        => [StringContains],
    "string/compare"                         => [StringCompare],
    "seal"                                   => [Seal],
    "unseal"                                 => [Unseal],
    "contract/array_lazy_apply"              => [ContractArrayLazyApp],
    "contract/record_lazy_apply"             => [ContractRecordLazyApp],
    "label/with_message"                     => [LabelWithMessage],
    "label/with_notes"                       => [LabelWithNotes],
    "label/append_note"                      => [LabelAppendNote],
    "label/lookup_type_variable"             => [LabelLookupTypeVar],
    "string/replace"                         => [StringReplace],
    "string/replace_regex"                   => [StringReplaceRegex],
    "string/substr"                          => [StringSubstr],
    "record/merge_contract"                  => [MergeContract],
    "record/seal_tail"                       => [RecordSealTail],
    "record/unseal_tail"                     => [RecordUnsealTail],
    "label/insert_type_variable"             => [LabelInsertTypeVar],
    "array/slice"                            => [ArraySlice],
}

pub fn op_of_name(x: &Sx) -> R<PrimOp> {
    use PrimOp::*;
    match x {
        Sx::L(_) => match x.tag() {
            "stat_access" => Ok(RecordStatAccess(LocIdent::new(want(x, "stat_access", 1)?[0].str()?))),
            "enum_embed" => Ok(EnumEmbed(LocIdent::new(want(x, "enum_embed", 1)?[0].str()?))),
            _ => Err(format!("unknown op {}", x.show())),
        },
        Sx::S(name) => op_of_canon(name).ok_or_else(|| format!("unknown op name {name}")),
        _ => Err(format!("bad op {}", x.show())),
    }
}

impl<'ast> Builder<'ast> {
    pub fn term(&self, x: &Sx) -> R<Ast<'ast>> {
        Ok(Ast { node: self.node(x)?, pos: TermPos::None })
    }

    fn terms(&self, xs: &[Sx]) -> R<Vec<Ast<'ast>>> {
        xs.iter().map(|x| self.term(x)).collect()
    }

    pub fn node(&self, x: &Sx) -> R<Node<'ast>> {
        let al = self.alloc;
        let args = x.args();
        Ok(match x.tag() {
            "null" => Node::Null,
            "bool" => Node::Bool(want(x, "bool", 1)?[0].tag() == "true"),
            "num" => al.number(parse_num(want(x, "num", 1)?[0].str()?)?),
            "str" => al.string(want(x, "str", 1)?[0].str()?),
            "chunks" => {
                let cs: R<Vec<StringChunk<Ast<'ast>>>> = args.iter().map(|c| self.chunk(c)).collect();
                al.string_chunks(cs?)
            }
            "fun" => {
                let w = want(x, "fun", 2)?;
                let ps: R<Vec<Pattern<'ast>>> = w[0].items()?.iter().map(|p| self.pat(p)).collect();
                al.fun(ps?, self.term(&w[1])?)
            }
            "let" => {
                let w = want(x, "let", 3)?;
                let bs: R<Vec<LetBinding<'ast>>> = w[1].items()?.iter().map(|b| self.binding(b)).collect();
                al.let_block(bs?, self.term(&w[2])?, get_bool01(&w[0])?)
            }
            "app" => {
                if args.is_empty() {
                    return Err("app without head".into());
                }
                al.app(self.term(&args[0])?, self.terms(&args[1..])?)
            }
            "var" => Node::Var(LocIdent::new(want(x, "var", 1)?[0].str()?)),
            "enum" => al.enum_variant(LocIdent::new(want(x, "enum", 1)?[0].str()?), None),
            "variant" => {
                let w = want(x, "variant", 2)?;
                al.enum_variant(LocIdent::new(w[0].str()?), Some(self.term(&w[1])?))
            }
            "record" => al.record(self.record(x)?),
            "if" => {
                let w = want(x, "if", 3)?;
                al.if_then_else(self.term(&w[0])?, self.term(&w[1])?, self.term(&w[2])?)
            }
            "match" => {
                let bs: R<Vec<MatchBranch<'ast>>> = args.iter().map(|b| self.branch(b)).collect();
                al.match_expr(bs?)
            }
            "array" => al.array(self.terms(args)?),
            "op" => {
                if args.is_empty() {
                    return Err("op without name".into());
                }
                al.prim_op(op_of_name(&args[0])?, self.terms(&args[1..])?)
            }
            "annot" => {
                let w = want(x, "annot", 2)?;
                al.annotated(self.annot(&w[0])?, self.term(&w[1])?)
            }
            "import" => {
                let w = want(x, "import", 2)?;
                let fmt = InputFormat::from_str(w[1].tag()).map_err(|_| format!("bad format {}", w[1].show()))?;
                al.import_path(w[0].str()?.into(), fmt)
            }
            "import_pkg" => al.import_package(Ident::new(want(x, "import_pkg", 1)?[0].str()?)),
            "type" => al.typ(self.typ(&want(x, "type", 1)?[0])?),
            other => return Err(format!("unknown term tag {other} in {}", x.show())),
        })
    }

    fn chunk(&self, c: &Sx) -> R<StringChunk<Ast<'ast>>> {
        match c.tag() {
            "lit" => Ok(StringChunk::Literal(want(c, "lit", 1)?[0].str()?.to_owned())),
            "expr" => {
                let w = want(c, "expr", 2)?;
                let indent: usize = w[1].tag().parse().map_err(|_| "bad indent".to_string())?;
                Ok(StringChunk::Expr(self.term(&w[0])?, indent))
            }
            _ => Err(format!("bad chunk {}", c.show())),
        }
    }

    fn annot(&self, x: &Sx) -> R<Annotation<'ast>> {
        let w = want(x, "ann", 2)?;
        let typ = match get_opt(&w[0])? {
            None => None,
            Some(t) => Some(self.typ(t)?),
        };
        let cs: R<Vec<Type<'ast>>> = w[1].items()?.iter().map(|t| self.typ(t)).collect();
        Ok(self.alloc.annotation(typ, cs?))
    }

    fn prio(&self, x: &Sx) -> R<MergePriority> {
        Ok(match x.tag() {
            "bottom" => MergePriority::Bottom,
            "neutral" => MergePriority::Neutral,
            "top" => MergePriority::Top,
            "numeral" => MergePriority::Numeral(parse_num(want(x, "numeral", 1)?[0].str()?)?),
            _ => return Err(format!("bad priority {}", x.show())),
        })
    }

    fn fmeta(&self, x: &Sx) -> R<FieldMetadata<'ast>> {
        let w = want(x, "fmeta", 5)?;
        Ok(FieldMetadata {
            doc: match get_opt(&w[0])? {
                None => None,
                Some(d) => Some(self.alloc.alloc_str(d.str()?)),
            },
            annotation: self.annot(&w[1])?,
            opt: get_bool01(&w[2])?,
            not_exported: get_bool01(&w[3])?,
            priority: self.prio(&w[4])?,
        })
    }

    fn binding(&self, x: &Sx) -> R<LetBinding<'ast>> {
        let w = want(x, "bind", 3)?;
        let m = want(&w[1], "lmeta", 2)?;
        Ok(LetBinding {
            pattern: self.pat(&w[0])?,
            metadata: LetMetadata {
                doc: match get_opt(&m[0])? {
                    None => None,
                    Some(d) => Some(self.alloc.alloc_str(d.str()?)),
                },
                annotation: self.annot(&m[1])?,
            },
            value: self.term(&w[2])?,
        })
    }

    fn record(&self, x: &Sx) -> R<Record<'ast>> {
        let w = want(x, "record", 3)?;
        let incls: R<Vec<Include<'ast>>> = w[0]
            .items()?
            .iter()
            .map(|i| {
                let v = want(i, "incl", 2)?;
                Ok(Include { ident: LocIdent::new(v[0].str()?), metadata: self.fmeta(&v[1])? })
            })
            .collect();
        let defs: R<Vec<FieldDef<'ast>>> = w[1].items()?.iter().map(|f| self.fdef(f)).collect();
        Ok(Record {
            includes: self.alloc.alloc_many(incls?),
            field_defs: self.alloc.alloc_many(defs?),
            open: get_bool01(&w[2])?,
        })
    }

    fn fdef(&self, x: &Sx) -> R<FieldDef<'ast>> {
        let w = want(x, "fdef", 3)?;
        let path: R<Vec<FieldPathElem<'ast>>> = w[0]
            .items()?
            .iter()
            .map(|e| match e.tag() {
                "id" => Ok(FieldPathElem::Ident(LocIdent::new(want(e, "id", 1)?[0].str()?))),
                "pexpr" => Ok(FieldPathElem::Expr(self.term(&want(e, "pexpr", 1)?[0])?)),
                _ => Err(format!("bad path elem {}", e.show())),
            })
            .collect();
        let path = path?;
        if path.is_empty() {
            return Err("empty field path".into());
        }
        Ok(FieldDef {
            path: self.alloc.alloc_many(path),
            metadata: self.fmeta(&w[1])?,
            value: match get_opt(&w[2])? {
                None => None,
                Some(v) => Some(self.term(v)?),
            },
            pos: TermPos::None,
        })
    }

    fn branch(&self, x: &Sx) -> R<MatchBranch<'ast>> {
        let w = want(x, "branch", 3)?;
        Ok(MatchBranch {
            pattern: self.pat(&w[0])?,
            guard: match get_opt(&w[1])? {
                None => None,
                Some(g) => Some(self.term(g)?),
            },
            body: self.term(&w[2])?,
        })
    }

    fn tail(&self, x: &Sx) -> R<TailPattern> {
        Ok(match x.tag() {
            "closed" => TailPattern::Empty,
            "open" => TailPattern::Open,
            "capture" => TailPattern::Capture(LocIdent::new(want(x, "capture", 1)?[0].str()?)),
            _ => return Err(format!("bad tail {}", x.show())),
        })
    }

    pub fn pat(&self, x: &Sx) -> R<Pattern<'ast>> {
        let w = want(x, "pat", 2)?;
        let alias = match get_opt(&w[0])? {
            None => None,
            Some(v) => Some(LocIdent::new(v.str()?)),
        };
        let d = &w[1];
        let data = match d.tag() {
            "wild" => PatternData::Wildcard,
            "any" => PatternData::Any(LocIdent::new(want(d, "any", 1)?[0].str()?)),
            "prec" => {
                let v = want(d, "prec", 2)?;
                let fs: R<Vec<FieldPattern<'ast>>> = v[0]
                    .items()?
                    .iter()
                    .map(|f| {
                        let u = want(f, "fpat", 4)?;
                        Ok(FieldPattern {
                            matched_id: LocIdent::new(u[0].str()?),
                            annotation: self.annot(&u[1])?,
                            default: match get_opt(&u[2])? {
                                None => None,
                                Some(t) => Some(self.term(t)?),
                            },
                            pattern: self.pat(&u[3])?,
                            pos: TermPos::None,
                        })
                    })
                    .collect();
                PatternData::Record(self.alloc.record_pattern(fs?, self.tail(&v[1])?, TermPos::None))
            }
            "parr" => {
                let v = want(d, "parr", 2)?;
                let ps: R<Vec<Pattern<'ast>>> = v[0].items()?.iter().map(|p| self.pat(p)).collect();
                PatternData::Array(self.alloc.array_pattern(ps?, self.tail(&v[1])?, TermPos::None))
            }
            "penum" => {
                let v = want(d, "penum", 2)?;
                PatternData::Enum(self.alloc.alloc(EnumPattern {
                    tag: LocIdent::new(v[0].str()?),
                    pattern: match get_opt(&v[1])? {
                        None => None,
                        Some(p) => Some(self.pat(p)?),
                    },
                    pos: TermPos::None,
                }))
            }
            "pconst" => {
                let c = &want(d, "pconst", 1)?[0];
                let data = match c.tag() {
                    "bool" => ConstantPatternData::Bool(want(c, "bool", 1)?[0].tag() == "true"),
                    "num" => ConstantPatternData::Number(self.alloc.alloc_number(parse_num(want(c, "num", 1)?[0].str()?)?)),
                    "str" => ConstantPatternData::String(self.alloc.alloc_str(want(c, "str", 1)?[0].str()?)),
                    "null" => ConstantPatternData::Null,
                    _ => return Err(format!("bad constant pattern {}", c.show())),
                };
                PatternData::Constant(self.alloc.alloc(ConstantPattern { data, pos: TermPos::None }))
            }
            "por" => {
                let ps: R<Vec<Pattern<'ast>>> = d.args().iter().map(|p| self.pat(p)).collect();
                PatternData::Or(self.alloc.or_pattern(ps?, TermPos::None))
            }
            _ => return Err(format!("bad pattern {}", d.show())),
        };
        Ok(Pattern { data, alias, pos: TermPos::None })
    }

    pub fn typ(&self, x: &Sx) -> R<Type<'ast>> {
        let al = self.alloc;
        let typ = match x.tag() {
            "dyn" => TypeF::Dyn,
            "number" => TypeF::Number,
            "bool" => TypeF::Bool,
            "string" => TypeF::String,
            "symbol" => TypeF::Symbol,
            "foreignid" => TypeF::ForeignId,
            "contract" => TypeF::Contract(al.alloc(self.term(&want(x, "contract", 1)?[0])?)),
            "arrow" => {
                let w = want(x, "arrow", 2)?;
                TypeF::Arrow(al.alloc(self.typ(&w[0])?), al.alloc(self.typ(&w[1])?))
            }
            "tvar" => TypeF::Var(Ident::new(want(x, "tvar", 1)?[0].str()?)),
            "forall" => {
                // (forall "a" body) or (forall "a" kind body): the kind is ignored by the printer
                let w = x.args();
                if w.len() < 2 {
                    return Err("bad forall".into());
                }
                TypeF::Forall {
                    var: LocIdent::new(w[0].str()?),
                    var_kind: VarKind::Type,
                    body: al.alloc(self.typ(&w[w.len() - 1])?),
                }
            }
            "enumt" => {
                let w = want(x, "enumt", 2)?;
                let mut rows = match get_opt(&w[1])? {
                    None => EnumRowsF::Empty,
                    Some(v) => EnumRowsF::TailVar(LocIdent::new(v.str()?)),
                };
                for r in w[0].items()?.iter().rev() {
                    let u = want(r, "erow", 2)?;
                    let row = EnumRow {
                        id: LocIdent::new(u[0].str()?),
                        typ: match get_opt(&u[1])? {
                            None => None,
                            Some(t) => Some(&*al.alloc(self.typ(t)?)),
                        },
                    };
                    rows = EnumRowsF::Extend { row, tail: al.enum_rows(rows) };
                }
                TypeF::Enum(EnumRows(rows))
            }
            "rect" => {
                let w = want(x, "rect", 2)?;
                let mut rows = match w[1].tag() {
                    "closed" => RecordRowsF::Empty,
                    "taildyn" => RecordRowsF::TailDyn,
                    "tailvar" => RecordRowsF::TailVar(LocIdent::new(want(&w[1], "tailvar", 1)?[0].str()?)),
                    _ => return Err(format!("bad record tail {}", w[1].show())),
                };
                for r in w[0].items()?.iter().rev() {
                    let u = want(r, "rrow", 2)?;
                    let row = RecordRow { id: LocIdent::new(u[0].str()?), typ: &*al.alloc(self.typ(&u[1])?) };
                    rows = RecordRowsF::Extend { row, tail: al.record_rows(rows) };
                }
                TypeF::Record(RecordRows(rows))
            }
            "dict" => {
                let w = want(x, "dict", 2)?;
                TypeF::Dict {
                    type_fields: al.alloc(self.typ(&w[1])?),
                    flavour: match w[0].tag() {
                        "type" => DictTypeFlavour::Type,
                        "contract" => DictTypeFlavour::Contract,
                        _ => return Err("bad dict flavour".into()),
                    },
                }
            }
            "arrayt" => TypeF::Array(al.alloc(self.typ(&want(x, "arrayt", 1)?[0])?)),
            "wildcard" => TypeF::Wildcard(want(x, "wildcard", 1)?[0].tag().parse().map_err(|_| "bad wildcard id".to_string())?),
            other => return Err(format!("unknown type tag {other} in {}", x.show())),
        };
        Ok(Type { typ, pos: TermPos::None })
    }
}

// -------------------------------------------------------------------------------------- tokens

/// Escape a token payload so that a token never contains a space or a control character.
pub fn tok_escape(x: &str) -> String {
    let mut o = String::new();
    for c in x.chars() {
        match c {
            '\\' => o.push_str("\\\\"),
            ' ' => o.push_str("\\s"),
            '\n' => o.push_str("\\n"),
            '\r' => o.push_str("\\r"),
            '\t' => o.push_str("\\t"),
            c => o.push(c),
        }
    }
    o
}

struct TokCtx<'a> {
    src: &'a str,
    toks: Vec<(usize, Token<'a>, usize)>,
    i: usize,
    out: Vec<String>,
    /// emit a token for the empty literals that strip_indent leaves in multiline strings
    keep_empty: bool,
}

enum Chunk {
    Lit(String),
    /// tokens of the interpolated expression (without the closing brace)
    Expr(Vec<String>),
}

impl<'a> TokCtx<'a> {
    /// Normal-mode tokens until end of input or, when `in_interp`, until the `}` that closes the
    /// interpolation (which is consumed and not emitted).
    fn normal(&mut self, in_interp: bool) -> Result<(), String> {
        let mut depth = 0usize;
        while self.i < self.toks.len() {
            let (st, tok, en) = self.toks[self.i].clone();
            self.i += 1;
            let text = &self.src[st..en];
            match tok {
                Token::Normal(nt) => match nt {
                    NormalToken::Identifier(x) => self.out.push(format!("I{}", tok_escape(x))),
                    // the contextual keywords are identifiers for the grammar (rule `Ident`)
                    NormalToken::Or => self.out.push("Ior".into()),
                    NormalToken::As => self.out.push("Ias".into()),
                    NormalToken::Include => self.out.push("Iinclude".into()),
                    NormalToken::DecNumLiteral(n)
                    | NormalToken::HexNumLiteral(n)
                    | NormalToken::OctNumLiteral(n)
                    | NormalToken::BinNumLiteral(n) => self.out.push(format!("N{n}")),
                    NormalToken::RawEnumTag(x) => self.out.push(format!("T{}", tok_escape(x))),
                    NormalToken::StrEnumTagBegin => {
                        self.out.push("Q".into());
                        self.string(None)?;
                    }
                    NormalToken::DoubleQuote => {
                        self.out.push("S".into());
                        self.string(None)?;
                    }
                    NormalToken::MultiStringStart(len) => {
                        self.out.push(format!("M{}", len - 2));
                        self.string(Some(()))?;
                    }
                    NormalToken::SymbolicStringStart(ss) => {
                        self.out.push(format!("Y{}:{}", tok_escape(ss.prefix), ss.length - 2));
                        self.string(Some(()))?;
                    }
                    NormalToken::LBrace => {
                        depth += 1;
                        self.out.push("K{".into());
                    }
                    NormalToken::RBrace => {
                        if depth == 0 {
                            if in_interp {
                                return Ok(());
                            }
                            return Err("unbalanced }".into());
                        }
                        depth -= 1;
                        self.out.push("K}".into());
                    }
                    _ => self.out.push(format!("K{}", tok_escape(text))),
                },
                other => return Err(format!("unexpected string-mode token in normal mode: {other:?}")),
            }
        }
        if in_interp { Err("eof in interpolation".into()) } else { Ok(()) }
    }

    /// Tokens of a string-like construct after its opening delimiter, up to and including the
    /// closing delimiter.  Emits `L<lit>`, `X<indent> ...expr tokens... K}` and finally `E`.
    fn string(&mut self, multiline: Option<()>) -> Result<(), String> {
        let mut chunks: Vec<Chunk> = Vec::new();
        let mut cur: Option<String> = None;
        loop {
            if self.i >= self.toks.len() {
                return Err("eof in string".into());
            }
            let (_, tok, _) = self.toks[self.i].clone();
            self.i += 1;
            match tok {
                Token::Str(StringToken::Literal(x)) | Token::MultiStr(MultiStringToken::Literal(x)) => {
                    cur.get_or_insert_with(String::new).push_str(&x)
                }
                Token::Str(StringToken::EscapedChar(c)) => cur.get_or_insert_with(String::new).push(c),
                Token::Str(StringToken::Interpolation) | Token::MultiStr(MultiStringToken::Interpolation) => {
                    if let Some(x) = cur.take() {
                        chunks.push(Chunk::Lit(x));
                    }
                    let saved = std::mem::take(&mut self.out);
                    self.normal(true)?;
                    let inner = std::mem::replace(&mut self.out, saved);
                    chunks.push(Chunk::Expr(inner));
                }
                Token::Normal(NormalToken::DoubleQuote) | Token::MultiStr(MultiStringToken::End) => {
                    if let Some(x) = cur.take() {
                        chunks.push(Chunk::Lit(x));
                    }
                    break;
                }
                other => return Err(format!("unexpected token in string: {other:?}")),
            }
        }
        // indentation handling of multiline strings: run the parser's own strip_indent
        let mut indents: Vec<usize> = vec![0; chunks.len()];
        if multiline.is_some() {
            let mut sc: Vec<StringChunk<Ast<'static>>> = chunks
                .iter()
                .map(|c| match c {
                    Chunk::Lit(x) => StringChunk::Literal(x.clone()),
                    Chunk::Expr(_) => StringChunk::Expr(Ast::default(), 0),
                })
                .collect();
            nickel_lang_parser::utils::strip_indent(&mut sc);
            for (k, c) in sc.into_iter().enumerate() {
                match c {
                    StringChunk::Literal(x) => chunks[k] = Chunk::Lit(x),
                    StringChunk::Expr(_, ind) => indents[k] = ind,
                }
            }
        }
        for (k, c) in chunks.into_iter().enumerate() {
            match c {
                Chunk::Lit(x) => {
                    if !x.is_empty() || self.keep_empty {
                        self.out.push(format!("L{}", tok_escape(&x)))
                    }
                }
                Chunk::Expr(inner) => {
                    self.out.push(format!("X{}", indents[k]));
                    self.out.extend(inner);
                    self.out.push("K}".into());
                }
            }
        }
        self.out.push("E".into());
        Ok(())
    }
}

/// The token stream of `src` in the model's vocabulary (space separated), or the lexical error.
pub fn tokens(src: &str) -> Result<String, String> {
    tokens_with(src, false)
}

/// Same, but the empty literal chunks that `strip_indent` leaves in multiline strings are kept as
/// `L` tokens (the parser sees them, unless it drops them itself).
pub fn tokens_keep_empty(src: &str) -> Result<String, String> {
    tokens_with(src, true)
}

fn tokens_with(src: &str, keep_empty: bool) -> Result<String, String> {
    let mut toks = Vec::new();
    for t in Lexer::new(src) {
        match t {
            Ok(t) => toks.push(t),
            Err(e) => return Err(format!("lex error: {e:?}")),
        }
    }
    let mut cx = TokCtx { src, toks, i: 0, out: Vec::new(), keep_empty };
    cx.normal(false)?;
    Ok(cx.out.join(" "))
}
