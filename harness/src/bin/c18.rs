//! C18 harness: replays value-level histories through the public API of
//! `nickel_lang_core::eval::value` / `eval::cache::lazy` (debug build: debug assertions and
//! overflow checks on) and, in other modes, whole programs and evaluation-stack scripts.
//!
//! Modes (argv[1]):
//!   `hist` (default)  stdin: one history per line (`op,op,...`, same syntax as
//!                     ocaml/c18/driver.ml); stdout: per operation `<out>|<every root>;`.
//!                     Every root is also compared with a plain-Rust shadow (value semantics,
//!                     thunks as `Rc<RefCell>` cells): a difference prints `!SHADOW`.
//!   `prog`            stdin: `<fuel>\t<escaped program>` per line; evaluates with the step
//!                     budget, abandons the VM, prints the outcome class (`Panic` = violation).
//!   `stack`           (feature h7) stdin: one script per line, ops as decimal bytes separated
//!                     by `.`; prints `<code>:<markers>` per op.
//!   `thunkeq`         compares two thunk values with `==` (known to recurse without bound);
//!                     run in a child process by the check.
//!   `dropchain N KIB` drops a chain of N thunks on a thread with a KIB stack (Drop recurses per link).
//! With feature `h7` (hook H7 present in /repo) reference counts are printed exactly.
use nickel_lang_core::{
    environment::Environment as GenEnv,
    eval::{
        Closure,
        cache::lazy::{Thunk, ThunkState},
        value::{
            Array, ArrayData, Container, EnumVariantData, NickelValue, TypeData, ValueContent,
            ValueContentRef, ValueContentRefMut, lens::TermContent,
        },
    },
    identifier::{Ident, LocIdent},
    label::Label,
    position::PosIdx,
    term::{
        Number, Term,
        record::{Field, FieldDeps, RecordData},
    },
    typ::{Type, TypeF},
};
use std::cell::RefCell;
use std::io::{BufRead, Write};
use std::panic::{AssertUnwindSafe, catch_unwind};
use std::rc::Rc;

const DEPTH: usize = 6;

// ---------------------------------------------------------------------------------- roots

enum Root {
    V(NickelValue),
    T(Thunk),
}

impl Root {
    fn into_value(self) -> NickelValue {
        match self {
            Root::V(v) => v,
            Root::T(t) => t.into(),
        }
    }
}

// ---------------------------------------------------------------------------------- shadow

#[derive(Clone)]
enum Sh {
    Inl(u8),
    Leaf(char, u64),
    Arr(u64, Vec<Sh>),
    Rec(u64, Vec<Sh>),
    Enum(u64, Option<Box<Sh>>),
    Wrap(char, u64, Box<Sh>),
    Label(u64, Option<ShT>),
    Thunk(ShT),
}

type ShT = Rc<RefCell<ShThunk>>;

#[derive(Clone)]
struct ShThunk {
    rev: bool,
    state: char,
    locked: bool,
    clo: Option<Sh>,
    orig: Option<Sh>,
}

/// A copy of a thunk's data (`ThunkData::clone`, `ThunkData::map`) is a new independent thunk: it
/// is never born black-holed or locked.
fn sh_copied(c: &ShThunk) -> ShThunk {
    let mut n = c.clone();
    if n.state == 'B' {
        n.state = 'S';
    }
    n.locked = false;
    n
}

/// Is this the only handle to the thunk?  Known exactly with hook H7 only.
fn thunk_unique(t: &Thunk) -> Option<bool> {
    #[cfg(feature = "h7")]
    {
        let tmp: NickelValue = t.clone().into();
        tmp.verif_ref_count().map(|n| n - 1 == 1)
    }
    #[cfg(not(feature = "h7"))]
    {
        let _ = t;
        None
    }
}

fn sh_inl(i: u8) -> &'static str {
    match i {
        0 => "null",
        1 => "true",
        2 => "false",
        3 => "[]",
        _ => "{}",
    }
}

fn sh_thunk_render(t: &ShT, depth: usize, out: &mut String) {
    if depth == 0 {
        out.push_str("..");
        return;
    }
    let c = t.borrow();
    out.push('T');
    if c.rev {
        out.push('r');
        out.push(c.state);
        out.push(if c.locked { 'l' } else { 'u' });
        out.push(if c.clo.is_some() { 'c' } else { 'n' });
    } else {
        out.push('s');
        out.push(c.state);
        out.push(if c.locked { 'l' } else { 'u' });
    }
    out.push('(');
    if let Some(v) = &c.clo {
        sh_render(v, depth - 1, out);
    }
    out.push(')');
}

fn sh_render(s: &Sh, depth: usize, out: &mut String) {
    if let Sh::Inl(i) = s {
        out.push_str(sh_inl(*i));
        return;
    }
    if depth == 0 {
        out.push_str("..");
        return;
    }
    let kids = |out: &mut String, ks: &[Sh]| {
        out.push('(');
        for (i, k) in ks.iter().enumerate() {
            if i > 0 {
                out.push(',');
            }
            sh_render(k, depth - 1, out);
        }
        out.push(')');
    };
    match s {
        Sh::Inl(_) => unreachable!(),
        Sh::Leaf(c, d) => {
            out.push_str(&format!("{c}{d}()"));
        }
        Sh::Arr(d, ks) => {
            out.push_str(&format!("A{d}"));
            kids(out, ks);
        }
        Sh::Rec(d, ks) => {
            out.push_str(&format!("R{d}"));
            kids(out, ks);
        }
        Sh::Enum(d, a) => {
            out.push_str(&format!("E{d}("));
            if let Some(a) = a {
                sh_render(a, depth - 1, out);
            }
            out.push(')');
        }
        Sh::Wrap(c, d, k) => {
            out.push_str(&format!("{c}{d}("));
            sh_render(k, depth - 1, out);
            out.push(')');
        }
        Sh::Label(d, a) => {
            out.push_str(&format!("L{d}("));
            if let Some(a) = a {
                sh_thunk_render(a, depth - 1, out);
            }
            out.push(')');
        }
        Sh::Thunk(t) => sh_thunk_render(t, depth, out),
    }
}

// ---------------------------------------------------------------------------------- rendering

thread_local! {
    /// temporary clones held by the renderer itself (closure values cloned out of thunks)
    static HELD: RefCell<Vec<Rc<NickelValue>>> = const { RefCell::new(Vec::new()) };
}

/// the printed count excludes the temporary clones of the same block held by the renderer
fn rc_str(v: &NickelValue, with_rc: bool, adj: u64) -> String {
    if !with_rc {
        return String::new();
    }
    let adj = adj + HELD.with(|h| h.borrow().iter().filter(|x| !x.is_inline() && x.phys_eq(v)).count() as u64);
    #[cfg(feature = "h7")]
    {
        match v.verif_ref_count() {
            Some(n) => format!("#{}", n - adj),
            None => "#-".into(),
        }
    }
    #[cfg(not(feature = "h7"))]
    {
        let _ = (v, adj);
        "#?".into()
    }
}

fn state_char(s: ThunkState) -> char {
    match s {
        ThunkState::Suspended => 'S',
        ThunkState::Blackholed => 'B',
        ThunkState::Evaluated => 'E',
    }
}

fn is_locked(t: &Thunk) -> bool {
    let was = t.unlock();
    if was {
        t.lock();
    }
    was
}

/// `owner`: the NickelValue view of the thunk when there is one (for the count)
fn render_thunk(t: &Thunk, owner: Option<(&NickelValue, u64)>, depth: usize, with_rc: bool, out: &mut String) {
    if depth == 0 {
        out.push_str("..");
        return;
    }
    let rev = matches!(t.deps(), FieldDeps::Unknown);
    let mut kid = String::new();
    // the closure value is cloned out (the RefCell must not stay borrowed while rendering: the
    // value may contain this very thunk); the clone is accounted for in the printed count
    let has = catch_unwind(AssertUnwindSafe(|| t.borrow().value.clone()));
    let cached = match has {
        Ok(v) => {
            let v = Rc::new(v);
            HELD.with(|h| h.borrow_mut().push(v.clone()));
            render_adj(&v, depth - 1, with_rc, 0, &mut kid);
            HELD.with(|h| h.borrow_mut().pop());
            true
        }
        Err(_) => false,
    };
    out.push('T');
    if rev {
        out.push('r');
        out.push(state_char(t.state()));
        out.push(if is_locked(t) { 'l' } else { 'u' });
        out.push(if cached { 'c' } else { 'n' });
    } else {
        out.push('s');
        out.push(state_char(t.state()));
        out.push(if is_locked(t) { 'l' } else { 'u' });
    }
    if with_rc {
        match owner {
            Some((v, adj)) => out.push_str(&rc_str(v, true, adj)),
            None => {
                // a root of type Thunk: count through a temporary clone
                #[cfg(feature = "h7")]
                {
                    let tmp: NickelValue = t.clone().into();
                    out.push_str(&rc_str(&tmp, true, 1));
                }
                #[cfg(not(feature = "h7"))]
                out.push_str("#?");
            }
        }
    }
    out.push('(');
    out.push_str(&kid);
    out.push(')');
}

fn pos_of(v: &NickelValue) -> u64 {
    let p = v.pos_idx();
    if p == PosIdx::NONE { 0 } else { p.to_usize() as u64 }
}

fn num_of(n: &Number) -> String {
    format!("{n}")
}

fn render(v: &NickelValue, depth: usize, with_rc: bool, out: &mut String) {
    render_adj(v, depth, with_rc, 0, out)
}

fn render_adj(v: &NickelValue, depth: usize, with_rc: bool, adj: u64, out: &mut String) {
    match v.content_ref() {
        ValueContentRef::Null => return out.push_str("null"),
        ValueContentRef::Bool(true) => return out.push_str("true"),
        ValueContentRef::Bool(false) => return out.push_str("false"),
        ValueContentRef::Array(Container::Empty) => return out.push_str("[]"),
        ValueContentRef::Record(Container::Empty) => return out.push_str("{}"),
        _ => (),
    }
    if depth == 0 {
        out.push_str("..");
        return;
    }
    let rc = rc_str(v, with_rc, adj);
    match v.content_ref() {
        ValueContentRef::Number(n) => out.push_str(&format!("N{}{rc}()", num_of(n))),
        ValueContentRef::String(s) => {
            let s: &str = s.as_ref();
            out.push_str(&format!("S{}{rc}()", s.trim_start_matches('s')))
        }
        ValueContentRef::ForeignId(f) => out.push_str(&format!("F{f}{rc}()")),
        ValueContentRef::SealingKey(k) => out.push_str(&format!("K{k}{rc}()")),
        ValueContentRef::Array(Container::Alloc(a)) => {
            out.push_str(&format!("A{}{rc}(", pos_of(v)));
            for (i, e) in a.array.iter().enumerate() {
                if i > 0 {
                    out.push(',');
                }
                render(e, depth - 1, with_rc, out);
            }
            out.push(')');
        }
        ValueContentRef::Record(Container::Alloc(r)) => {
            out.push_str(&format!("R{}{rc}(", pos_of(v)));
            for (i, (_, f)) in r.fields.iter().enumerate() {
                if i > 0 {
                    out.push(',');
                }
                match &f.value {
                    Some(x) => render(x, depth - 1, with_rc, out),
                    None => out.push_str("<nodef>"),
                }
            }
            out.push(')');
        }
        ValueContentRef::EnumVariant(e) => {
            out.push_str(&format!("E{}{rc}(", e.tag.label().trim_start_matches('t')));
            if let Some(a) = &e.arg {
                render(a, depth - 1, with_rc, out);
            }
            out.push(')');
        }
        ValueContentRef::CustomContract(c) => {
            out.push_str(&format!("C{}{rc}(", pos_of(v)));
            render(c, depth - 1, with_rc, out);
            out.push(')');
        }
        ValueContentRef::Type(t) => {
            out.push_str(&format!("Y{}{rc}(", pos_of(v)));
            render(&t.contract, depth - 1, with_rc, out);
            out.push(')');
        }
        ValueContentRef::Term(t) => {
            out.push_str(&format!("M{}{rc}(", pos_of(v)));
            if let Term::Closurize(x) = t {
                render(x, depth - 1, with_rc, out);
            } else {
                out.push_str("<term>");
            }
            out.push(')');
        }
        ValueContentRef::Label(l) => {
            out.push_str(&format!("L{}{rc}(", pos_of(v)));
            if let Some(t) = &l.arg_idx {
                render_thunk(t, None, depth - 1, with_rc, out);
            }
            out.push(')');
        }
        ValueContentRef::Thunk(t) => render_thunk(t, Some((v, adj)), depth, with_rc, out),
        _ => unreachable!(),
    }
}

fn render_root(r: &mut Root, with_rc: bool) -> String {
    let mut s = String::new();
    match r {
        Root::V(v) => {
            s.push('v');
            let mark = match v.data_tag() {
                None => '?',
                Some(nickel_lang_core::eval::value::DataTag::Thunk) => '?',
                Some(_) => {
                    if v.content_mut().is_some() {
                        '1'
                    } else {
                        '+'
                    }
                }
            };
            s.push(mark);
            render(v, DEPTH, with_rc, &mut s);
        }
        Root::T(t) => {
            s.push_str("t?");
            render_thunk(t, None, DEPTH, with_rc, &mut s);
        }
    }
    s
}

// ---------------------------------------------------------------------------------- replay

struct Replay {
    roots: Vec<Option<Root>>,
    shadow: Vec<Option<(bool, Sh)>>, // (is thunk kind, shadow)
    names: u64,
}

fn pidx(d: u64) -> PosIdx {
    if d == 0 { PosIdx::NONE } else { PosIdx::from_usize_truncate(d as usize) }
}

fn parse_slots(s: &str) -> Vec<usize> {
    if s.is_empty() || s == "-" {
        vec![]
    } else {
        s.split('.').map(|x| x.parse().unwrap()).collect()
    }
}

fn parse_optslot(s: &str) -> Option<usize> {
    if s.is_empty() || s == "-" { None } else { Some(s.parse().unwrap()) }
}

#[derive(Clone, Copy, PartialEq)]
enum Class {
    Leaf,
    Var,
    OptV,
    OptT,
    One,
    Arr,
    None,
}

fn class_of(v: &NickelValue) -> Option<Class> {
    use nickel_lang_core::eval::value::DataTag as D;
    Some(match v.data_tag()? {
        D::Number | D::String | D::ForeignId | D::SealingKey => Class::Leaf,
        D::Record => Class::Var,
        D::EnumVariant => Class::OptV,
        D::Label => Class::OptT,
        D::CustomContract | D::Type | D::Term => Class::One,
        D::Array => Class::Arr,
        D::Thunk => Class::None,
    })
}

enum Mutation {
    Set(u64),
    Push(usize),
    Pop,
}

fn parse_mut(s: &str) -> Mutation {
    match s.as_bytes()[0] {
        b's' => Mutation::Set(s[1..].parse().unwrap()),
        b'p' => Mutation::Push(s[1..].parse().unwrap()),
        _ => Mutation::Pop,
    }
}

impl Replay {
    fn live(&self, s: usize) -> bool {
        s < self.roots.len() && self.roots[s].is_some()
    }
    fn is_thunk(&self, s: usize) -> bool {
        matches!(self.roots.get(s), Some(Some(Root::T(_))))
    }
    fn slots_ok(&self, thunks: bool, ss: &[usize]) -> bool {
        for (i, s) in ss.iter().enumerate() {
            if ss[i + 1..].contains(s) {
                return false;
            }
            if !self.live(*s) || (thunks && !self.is_thunk(*s)) {
                return false;
            }
        }
        true
    }
    fn take(&mut self, s: usize) -> (Root, (bool, Sh)) {
        (self.roots[s].take().unwrap(), self.shadow[s].take().unwrap())
    }
    fn push(&mut self, r: Root, sh: Sh) {
        let k = matches!(r, Root::T(_));
        self.roots.push(Some(r));
        self.shadow.push(Some((k, sh)));
    }
    fn fresh_name(&mut self, p: &str) -> String {
        self.names += 1;
        format!("{p}{}", self.names)
    }

    /// the value root of slot s (thunk roots are passed through `From<Thunk>`)
    fn mut_guard(&self, s: usize, m: &Mutation) -> bool {
        let Some(Some(r)) = self.roots.get(s) else { return false };
        let class = match r {
            Root::V(v) => match class_of(v) {
                Some(c) => c,
                None => return false,
            },
            Root::T(_) => Class::None,
        };
        let x: Option<bool> = match m {
            Mutation::Push(x) if *x != s && self.live(*x) => Some(self.is_thunk(*x)),
            _ => None,
        };
        match (class, m) {
            (Class::Leaf, Mutation::Set(_)) => true,
            (Class::Var | Class::One | Class::Arr | Class::OptV, Mutation::Push(_)) => x.is_some(),
            (Class::OptT, Mutation::Push(_)) => x == Some(true),
            (Class::Var | Class::OptV | Class::OptT | Class::Arr, Mutation::Pop) => true,
            _ => false,
        }
    }

    /// apply the mutation through a `ValueContentRefMut`; returns what left the block
    fn mutate(&mut self, cm: ValueContentRefMut<'_>, m: &Mutation, x: Option<Root>, name: String) -> Vec<Root> {
        match (cm, m) {
            (ValueContentRefMut::Number(n), Mutation::Set(d)) => {
                *n = Number::from(*d);
                vec![]
            }
            (ValueContentRefMut::String(s), Mutation::Set(d)) => {
                *s = format!("s{d}").into();
                vec![]
            }
            (ValueContentRefMut::ForeignId(f), Mutation::Set(d)) => {
                *f = *d;
                vec![]
            }
            (ValueContentRefMut::SealingKey(k), Mutation::Set(d)) => {
                *k = *d as i32;
                vec![]
            }
            (ValueContentRefMut::Record(Container::Alloc(r)), Mutation::Push(_)) => {
                r.fields.insert(LocIdent::from(name), Field::from(x.unwrap().into_value()));
                vec![]
            }
            (ValueContentRefMut::Record(Container::Alloc(r)), Mutation::Pop) => r
                .fields
                .pop()
                .and_then(|(_, f)| f.value)
                .map(Root::V)
                .into_iter()
                .collect(),
            (ValueContentRefMut::EnumVariant(e), Mutation::Push(_)) => {
                e.arg = Some(x.unwrap().into_value());
                vec![]
            }
            (ValueContentRefMut::EnumVariant(e), Mutation::Pop) => e.arg.take().map(Root::V).into_iter().collect(),
            (ValueContentRefMut::Label(l), Mutation::Push(_)) => {
                let Some(Root::T(t)) = x else { unreachable!() };
                l.arg_idx = Some(t);
                vec![]
            }
            (ValueContentRefMut::Label(l), Mutation::Pop) => l.arg_idx.take().map(Root::T).into_iter().collect(),
            (ValueContentRefMut::CustomContract(c), Mutation::Push(_)) => {
                *c = x.unwrap().into_value();
                vec![]
            }
            (ValueContentRefMut::Type(t), Mutation::Push(_)) => {
                t.contract = x.unwrap().into_value();
                vec![]
            }
            (ValueContentRefMut::Term(t), Mutation::Push(_)) => {
                if let Term::Closurize(c) = t {
                    *c = x.unwrap().into_value();
                    vec![]
                } else {
                    x.into_iter().collect()
                }
            }
            (ValueContentRefMut::Array(Container::Alloc(a)), Mutation::Push(_)) => {
                a.array.push(x.unwrap().into_value());
                vec![]
            }
            (ValueContentRefMut::Array(Container::Alloc(a)), Mutation::Pop) => {
                a.array.pop().map(Root::V).into_iter().collect()
            }
            (_, _) => x.into_iter().collect(),
        }
    }

    fn sh_mutate(sh: &mut Sh, m: &Mutation, x: Option<Sh>) -> Vec<Sh> {
        match (sh, m) {
            (Sh::Leaf(_, d), Mutation::Set(n)) => {
                *d = *n;
                vec![]
            }
            (Sh::Rec(_, ks), Mutation::Push(_)) | (Sh::Arr(_, ks), Mutation::Push(_)) => {
                ks.push(x.unwrap());
                vec![]
            }
            (Sh::Rec(_, ks), Mutation::Pop) | (Sh::Arr(_, ks), Mutation::Pop) => ks.pop().into_iter().collect(),
            (Sh::Enum(_, a), Mutation::Push(_)) => {
                *a = Some(Box::new(x.unwrap()));
                vec![]
            }
            (Sh::Enum(_, a), Mutation::Pop) => a.take().map(|b| *b).into_iter().collect(),
            (Sh::Label(_, a), Mutation::Push(_)) => {
                let Some(Sh::Thunk(t)) = x else { unreachable!() };
                *a = Some(t);
                vec![]
            }
            (Sh::Label(_, a), Mutation::Pop) => a.take().map(Sh::Thunk).into_iter().collect(),
            (Sh::Wrap(_, _, k), Mutation::Push(_)) => {
                **k = x.unwrap();
                vec![]
            }
            (_, _) => x.into_iter().collect(),
        }
    }

    fn step(&mut self, op: &str) -> String {
        let kind = &op[0..2];
        let rest = if op.len() > 3 { &op[3..] } else { "" };
        let args: Vec<&str> = rest.split(':').collect();
        let a = |i: usize| -> &str { args.get(i).copied().unwrap_or("") };
        let n = |i: usize| -> usize { a(i).parse().unwrap() };
        let d = |i: usize| -> u64 { a(i).parse().unwrap() };
        match kind {
            "ni" => {
                use nickel_lang_core::eval::value::InlineValue as I;
                let i = d(0) as u8;
                let v = match i {
                    0 => NickelValue::null(),
                    1 => NickelValue::bool_true(),
                    2 => NickelValue::bool_false(),
                    3 => NickelValue::inline_posless(I::EmptyArray),
                    _ => NickelValue::inline_posless(I::EmptyRecord),
                };
                self.push(Root::V(v), Sh::Inl(i.min(4)));
                "d".into()
            }
            "nd" => {
                let x = d(1);
                let (v, c) = match a(0) {
                    "n" => (NickelValue::number_posless(Number::from(x)), 'N'),
                    "s" => (NickelValue::string_posless(format!("s{x}")), 'S'),
                    "f" => (NickelValue::foreign_id_posless(x), 'F'),
                    "k" => (NickelValue::sealing_key_posless(x as i32), 'K'),
                    _ => return "k".into(),
                };
                self.push(Root::V(v), Sh::Leaf(c, x));
                "d".into()
            }
            "na" | "nr" => {
                let ss = parse_slots(a(1));
                if !self.slots_ok(false, &ss) {
                    return "k".into();
                }
                let mut vals = Vec::new();
                let mut shs = Vec::new();
                for s in &ss {
                    let (r, (_, sh)) = self.take(*s);
                    vals.push(r.into_value());
                    shs.push(sh);
                }
                if kind == "na" {
                    let v = NickelValue::array(Array::from_iter(vals), Vec::new(), pidx(d(0)));
                    let sh = if shs.is_empty() { Sh::Inl(3) } else { Sh::Arr(d(0), shs) };
                    self.push(Root::V(v), sh);
                } else {
                    let mut r = RecordData::empty();
                    for v in vals {
                        let name = self.fresh_name("f");
                        r.fields.insert(LocIdent::from(name), Field::from(v));
                    }
                    let v = NickelValue::record(r, pidx(d(0)));
                    let sh = if shs.is_empty() { Sh::Inl(4) } else { Sh::Rec(d(0), shs) };
                    self.push(Root::V(v), sh);
                }
                "d".into()
            }
            "ne" => {
                let s = parse_optslot(a(1));
                let ss: Vec<usize> = s.into_iter().collect();
                if !self.slots_ok(false, &ss) {
                    return "k".into();
                }
                let (arg, sh) = match s {
                    Some(s) => {
                        let (r, (_, sh)) = self.take(s);
                        (Some(r.into_value()), Some(Box::new(sh)))
                    }
                    None => (None, None),
                };
                let v = NickelValue::enum_variant(LocIdent::from(format!("t{}", d(0))), arg, PosIdx::NONE);
                self.push(Root::V(v), Sh::Enum(d(0), sh));
                "d".into()
            }
            "nw" => {
                let s = n(1);
                let c = match a(0) {
                    "c" => 'C',
                    "y" => 'Y',
                    "m" => 'M',
                    _ => return "k".into(),
                };
                if !self.slots_ok(false, &[s]) {
                    return "k".into();
                }
                let (r, (_, sh)) = self.take(s);
                let inner = r.into_value();
                let v = match c {
                    'C' => NickelValue::custom_contract(inner, PosIdx::NONE),
                    'Y' => NickelValue::typ(Type::from(TypeF::Dyn), inner, PosIdx::NONE),
                    _ => NickelValue::term(Term::Closurize(inner), PosIdx::NONE),
                };
                self.push(Root::V(v), Sh::Wrap(c, 0, Box::new(sh)));
                "d".into()
            }
            "nl" => {
                let s = parse_optslot(a(1));
                let ss: Vec<usize> = s.into_iter().collect();
                if !self.slots_ok(true, &ss) {
                    return "k".into();
                }
                let (arg, sh) = match s {
                    Some(s) => {
                        let (r, (_, sh)) = self.take(s);
                        let (Root::T(t), Sh::Thunk(st)) = (r, sh) else { unreachable!() };
                        (Some(t), Some(st))
                    }
                    None => (None, None),
                };
                let v = NickelValue::label(Label { arg_idx: arg, ..Default::default() }, pidx(d(0)));
                self.push(Root::V(v), Sh::Label(d(0), sh));
                "d".into()
            }
            "nt" => {
                let s = n(0);
                let env = parse_slots(a(1));
                if !self.slots_ok(false, &[s]) || !self.slots_ok(true, &env) || env.contains(&s) {
                    return "k".into();
                }
                let (r, (_, sh)) = self.take(s);
                let mut e: Vec<(Ident, Thunk)> = Vec::new();
                for (i, x) in env.iter().enumerate() {
                    let (r, _) = self.take(*x);
                    let Root::T(t) = r else { unreachable!() };
                    e.push((Ident::from(format!("e{i}")), t));
                }
                let clo = Closure { value: r.into_value(), env: GenEnv::from_iter(e) };
                let t = Thunk::new(clo, PosIdx::NONE);
                let st = ShThunk { rev: false, state: 'S', locked: false, clo: Some(sh), orig: None };
                self.push(Root::T(t), Sh::Thunk(Rc::new(RefCell::new(st))));
                "d".into()
            }
            "nv" => {
                let s = n(0);
                if !self.slots_ok(false, &[s]) {
                    return "k".into();
                }
                let (r, (_, sh)) = self.take(s);
                let clo = Closure { value: r.into_value(), env: GenEnv::new() };
                let t = Thunk::new_rev(clo, FieldDeps::Unknown, PosIdx::NONE);
                let st = ShThunk { rev: true, state: 'S', locked: false, clo: None, orig: Some(sh) };
                self.push(Root::T(t), Sh::Thunk(Rc::new(RefCell::new(st))));
                "d".into()
            }
            "cl" => {
                let s = n(0);
                if !self.live(s) {
                    return "k".into();
                }
                let r = match self.roots[s].as_ref().unwrap() {
                    Root::V(v) => Root::V(v.clone()),
                    Root::T(t) => Root::T(t.clone()),
                };
                let sh = self.shadow[s].as_ref().unwrap().1.clone();
                self.push(r, sh);
                "d".into()
            }
            "dr" => {
                let s = n(0);
                if !self.live(s) {
                    return "k".into();
                }
                drop(self.take(s));
                "d".into()
            }
            "it" => {
                let s = n(0);
                if !self.live(s) {
                    return "k".into();
                }
                let (r, (k, sh)) = self.take(s);
                let (r, ok) = match r {
                    Root::V(v) => match v.try_into_thunk() {
                        Ok(t) => (Root::T(t), true),
                        Err(v) => (Root::V(v), false),
                    },
                    Root::T(t) => (Root::T(t), true),
                };
                let k2 = k || matches!(sh, Sh::Thunk(_));
                self.roots[s] = Some(r);
                self.shadow[s] = Some((k2, sh));
                if ok { "T".into() } else { "F".into() }
            }
            "iv" => {
                let s = n(0);
                if !self.live(s) {
                    return "k".into();
                }
                let (r, (_, sh)) = self.take(s);
                self.roots[s] = Some(Root::V(r.into_value()));
                self.shadow[s] = Some((false, sh));
                "d".into()
            }
            "mm" | "cm" => {
                let s = n(0);
                let m = parse_mut(a(1));
                if !self.mut_guard(s, &m) {
                    return "k".into();
                }
                let name = self.fresh_name("f");
                // the pushed root is taken first (a different slot)
                let x = match &m {
                    Mutation::Push(x) => Some(self.take(*x)),
                    _ => None,
                };
                let (xr, xs) = match x {
                    Some((r, (_, sh))) => (Some(r), Some(sh)),
                    None => (None, None),
                };
                let Some(Root::V(mut v)) = self.roots[s].take() else { unreachable!() };
                let (outs, res, applied) = if kind == "mm" {
                    let cm = v.content_make_mut();
                    (self.mutate(cm, &m, xr, name), "d", true)
                } else {
                    match v.content_mut() {
                        Some(cm) => (self.mutate(cm, &m, xr, name), "T", true),
                        None => (xr.into_iter().collect(), "F", false),
                    }
                };
                self.roots[s] = Some(Root::V(v));
                if applied {
                    let mut sh = self.shadow[s].take().unwrap();
                    let souts = Self::sh_mutate(&mut sh.1, &m, xs);
                    self.shadow[s] = Some(sh);
                    if souts.len() != outs.len() {
                        return "!SHADOW-arity".into();
                    }
                    for (r, sh) in outs.into_iter().zip(souts) {
                        self.push(r, sh);
                    }
                } else {
                    // not applied: the pushed root goes back where it was
                    if let (Mutation::Push(x), Some(r)) = (&m, outs.into_iter().next()) {
                        self.roots[*x] = Some(r);
                        self.shadow[*x] = Some((self.is_thunk(*x), xs.unwrap()));
                    }
                }
                res.into()
            }
            "sc" => {
                let s = n(0);
                if !self.live(s) {
                    return "k".into();
                }
                let (r, (k, sh)) = self.take(s);
                let was_thunk = matches!(r, Root::T(_));
                let v = r.into_value();
                let (back, copy) = match v.into_block() {
                    Ok(b) => {
                        let c = b.strong_clone();
                        (NickelValue::from(b), NickelValue::from(c))
                    }
                    Err(v) => {
                        let c = v.clone();
                        (v, c)
                    }
                };
                let wrap = |v: NickelValue| {
                    if was_thunk { Root::T(v.try_into_thunk().ok().unwrap()) } else { Root::V(v) }
                };
                let sh2 = match &sh {
                    Sh::Thunk(t) => Sh::Thunk(Rc::new(RefCell::new(sh_copied(&t.borrow())))),
                    other => other.clone(),
                };
                self.roots[s] = Some(wrap(back));
                self.shadow[s] = Some((k, sh));
                self.push(wrap(copy), sh2);
                "d".into()
            }
            "mu" => {
                let s = n(0);
                if !self.live(s) {
                    return "k".into();
                }
                let (r, (k, sh)) = self.take(s);
                let was_thunk = matches!(r, Root::T(_));
                let v = r.into_value();
                let p = v.pos_idx();
                // make_unique copies the block iff it is shared: observed as a change of address
                let before = format!("{v:p}");
                let v = v.with_pos_idx(p);
                let moved = format!("{v:p}") != before;
                let sh = match sh {
                    Sh::Thunk(t) if moved => {
                        let c = sh_copied(&t.borrow());
                        Sh::Thunk(Rc::new(RefCell::new(c)))
                    }
                    other => other,
                };
                self.roots[s] =
                    Some(if was_thunk { Root::T(v.try_into_thunk().ok().unwrap()) } else { Root::V(v) });
                self.shadow[s] = Some((k, sh));
                "d".into()
            }
            "lr" => {
                let s = n(0);
                if !self.live(s) {
                    return "k".into();
                }
                match self.roots[s].take() {
                    Some(Root::V(v)) => self.roots[s] = Some(Root::V(v.content().restore())),
                    Some(Root::T(t)) => {
                        let v: NickelValue = t.into();
                        let v = v.content().restore();
                        self.roots[s] = Some(Root::T(v.try_into_thunk().ok().unwrap()));
                    }
                    None => (),
                }
                "d".into()
            }
            "lt" => {
                let s = n(0);
                if !self.live(s) {
                    return "k".into();
                }
                let (r, (_, sh)) = self.take(s);
                let v = r.into_value();
                let mut outs: Vec<Root> = Vec::new();
                match v.content() {
                    ValueContent::Null(l) => l.take(),
                    ValueContent::Bool(l) => {
                        l.take();
                    }
                    ValueContent::Number(l) => drop(l.take()),
                    ValueContent::String(l) => drop(l.take()),
                    ValueContent::ForeignId(l) => {
                        l.take();
                    }
                    ValueContent::SealingKey(l) => {
                        l.take();
                    }
                    ValueContent::Label(l) => {
                        let lab = l.take();
                        if let Some(t) = lab.arg_idx {
                            outs.push(Root::T(t));
                        }
                    }
                    ValueContent::Array(l) => {
                        if let Container::Alloc(ArrayData { array, .. }) = l.take() {
                            for e in array.into_iter() {
                                outs.push(Root::V(e));
                            }
                        }
                    }
                    ValueContent::Record(l) => {
                        if let Container::Alloc(r) = l.take() {
                            for (_, f) in r.fields.into_iter() {
                                if let Some(x) = f.value {
                                    outs.push(Root::V(x));
                                }
                            }
                        }
                    }
                    ValueContent::EnumVariant(l) => {
                        let EnumVariantData { arg, .. } = l.take();
                        if let Some(x) = arg {
                            outs.push(Root::V(x));
                        }
                    }
                    ValueContent::CustomContract(l) => outs.push(Root::V(l.take())),
                    ValueContent::Type(l) => {
                        let TypeData { contract, .. } = l.take();
                        outs.push(Root::V(contract));
                    }
                    ValueContent::Term(tc) => match tc {
                        TermContent::Closurize(l) => outs.push(Root::V(l.take())),
                        other => drop(other.take()),
                    },
                    ValueContent::Thunk(l) => outs.push(Root::T(l.take())),
                }
                let souts: Vec<Sh> = match sh {
                    Sh::Arr(_, ks) | Sh::Rec(_, ks) => ks,
                    Sh::Enum(_, a) => a.map(|b| *b).into_iter().collect(),
                    Sh::Wrap(_, _, k) => vec![*k],
                    Sh::Label(_, a) => a.map(Sh::Thunk).into_iter().collect(),
                    Sh::Thunk(t) => vec![Sh::Thunk(t)],
                    _ => vec![],
                };
                if souts.len() != outs.len() {
                    return "!SHADOW-arity".into();
                }
                for (r, sh) in outs.into_iter().zip(souts) {
                    self.push(r, sh);
                }
                "d".into()
            }
            // ---------------------------------------------------------------- thunks
            "tg" | "tf" | "tr" | "tl" | "tk" | "tv" | "tm" => {
                let s = n(0);
                if !self.is_thunk(s) {
                    return "k".into();
                }
                let Some(Some(Root::T(t))) = self.roots.get_mut(s) else { unreachable!() };
                let Some((_, Sh::Thunk(st))) = self.shadow[s].clone() else { return "!SHADOW-kind".into() };
                match kind {
                    "tg" => match catch_unwind(AssertUnwindSafe(|| t.get_owned())) {
                        Ok(c) => {
                            let Closure { value, env } = c;
                            let sh = st.borrow().clo.clone();
                            match sh {
                                Some(sh) => self.push(Root::V(value), sh),
                                None => return "!SHADOW-closure".into(),
                            }
                            drop(env);
                            "d".into()
                        }
                        Err(_) => "P".into(),
                    },
                    "tf" => match t.mk_update_frame() {
                        Ok(f) => {
                            st.borrow_mut().state = 'B';
                            self.push(Root::T(f), Sh::Thunk(st));
                            "T".into()
                        }
                        Err(_) => "F".into(),
                    },
                    "tr" => {
                        t.reset_state();
                        st.borrow_mut().state = 'S';
                        "d".into()
                    }
                    "tl" => {
                        let r = t.lock();
                        st.borrow_mut().locked = true;
                        if r { "T".into() } else { "F".into() }
                    }
                    "tk" => {
                        let r = t.unlock();
                        st.borrow_mut().locked = false;
                        if r { "T".into() } else { "F".into() }
                    }
                    "tv" => {
                        let nt = t.revert();
                        let sh = if st.borrow().rev {
                            let o = st.borrow().orig.clone();
                            Rc::new(RefCell::new(ShThunk { rev: true, state: 'S', locked: false, clo: None, orig: o }))
                        } else {
                            st
                        };
                        self.push(Root::T(nt), Sh::Thunk(sh));
                        "d".into()
                    }
                    _ => {
                        let nt = t.map(|c| c.clone());
                        let c = sh_copied(&st.borrow());
                        self.push(Root::T(nt), Sh::Thunk(Rc::new(RefCell::new(c))));
                        "d".into()
                    }
                }
            }
            "tu" => {
                let (f, c) = (n(0), n(1));
                if !self.is_thunk(f) || !self.slots_ok(false, &[c]) || f == c {
                    return "k".into();
                }
                let (cr, (_, csh)) = self.take(c);
                let (fr, (_, fsh)) = self.take(f);
                let Root::T(frame) = fr else { unreachable!() };
                let Sh::Thunk(st) = fsh else { return "!SHADOW-kind".into() };
                frame.update(Closure { value: cr.into_value(), env: GenEnv::new() });
                let mut b = st.borrow_mut();
                b.clo = Some(csh);
                b.state = 'E';
                "d".into()
            }
            "tb" => {
                let s = n(0);
                let recs = parse_slots(a(1));
                if !self.is_thunk(s) || !self.slots_ok(true, &recs) {
                    return "k".into();
                }
                let mut rec_env: Vec<(Ident, Thunk)> = Vec::new();
                for (i, r) in recs.iter().enumerate() {
                    let Some(Some(Root::T(t))) = self.roots.get(*r) else { unreachable!() };
                    rec_env.push((Ident::from(format!("r{i}")), t.clone()));
                }
                let Some(Some(Root::T(t))) = self.roots.get(s) else { unreachable!() };
                let Some((_, Sh::Thunk(st))) = self.shadow[s].clone() else { return "!SHADOW-kind".into() };
                let res = catch_unwind(AssertUnwindSafe(|| t.build_cached(&rec_env)));
                drop(rec_env);
                match res {
                    Ok(()) => {
                        let mut b = st.borrow_mut();
                        if b.rev && b.clo.is_none() {
                            b.clo = b.orig.clone();
                        }
                        "d".into()
                    }
                    Err(_) => "P".into(),
                }
            }
            "tc" | "ts" => {
                let s = n(0);
                if !self.is_thunk(s) {
                    return "k".into();
                }
                let (r, (_, sh)) = self.take(s);
                let Root::T(t) = r else { unreachable!() };
                let Sh::Thunk(st) = sh else { return "!SHADOW-kind".into() };
                if kind == "tc" {
                    match catch_unwind(AssertUnwindSafe(|| t.into_closure())) {
                        Ok(Closure { value, env }) => {
                            drop(env);
                            let sh = st.borrow().clo.clone();
                            match sh {
                                Some(sh) => self.push(Root::V(value), sh),
                                None => return "!SHADOW-closure".into(),
                            }
                            "d".into()
                        }
                        Err(_) => "P".into(),
                    }
                } else {
                    // a standard thunk: the data are moved when this is the only handle (state and
                    // lock kept), cloned otherwise (a copy: never black-holed, never locked)
                    let uniq = thunk_unique(&t);
                    let v = t.saturate(std::iter::empty::<Ident>());
                    let b = st.borrow();
                    let c = if b.rev {
                        ShThunk { rev: false, state: 'S', locked: false, clo: b.orig.clone(), orig: None }
                    } else {
                        match uniq {
                            Some(true) => b.clone(),
                            Some(false) => sh_copied(&b),
                            None => {
                                // without the hook the count is not observable: either is admissible
                                let cp = sh_copied(&b);
                                let real = v.as_thunk().map(|t| (state_char(t.state()), is_locked(t)));
                                if real == Some((cp.state, cp.locked)) { cp } else { b.clone() }
                            }
                        }
                    };
                    drop(b);
                    self.push(Root::V(v), Sh::Thunk(Rc::new(RefCell::new(c))));
                    "d".into()
                }
            }
            _ => format!("!BADOP:{op}"),
        }
    }

    fn observe(&mut self) -> String {
        let mut parts = Vec::new();
        for i in 0..self.roots.len() {
            match &mut self.roots[i] {
                None => parts.push("-".to_string()),
                Some(r) => {
                    let real = render_root(r, true);
                    // direct oracle: contents (without counts) equal the shadow's
                    let plain = {
                        let mut s = String::new();
                        match r {
                            Root::V(v) => render(v, DEPTH, false, &mut s),
                            Root::T(t) => render_thunk(t, None, DEPTH, false, &mut s),
                        }
                        s
                    };
                    let mut sh = String::new();
                    match &self.shadow[i] {
                        Some((_, s)) => sh_render(s, DEPTH, &mut sh),
                        None => sh.push_str("<none>"),
                    }
                    if plain != sh {
                        parts.push(format!("!SHADOW[{plain}<>{sh}]{real}"));
                    } else {
                        parts.push(real);
                    }
                }
            }
        }
        parts.join(" ")
    }
}

fn run_history(line: &str) -> String {
    let mut rp = Replay { roots: Vec::new(), shadow: Vec::new(), names: 0 };
    let mut out = String::new();
    for op in line.trim().split(',').filter(|o| !o.is_empty()) {
        let r = catch_unwind(AssertUnwindSafe(|| rp.step(op)));
        match r {
            Ok(code) => {
                out.push_str(&code);
                out.push('|');
                match catch_unwind(AssertUnwindSafe(|| rp.observe())) {
                    Ok(o) => out.push_str(&o),
                    Err(_) => {
                        out.push_str("!PANIC-observe");
                        std::mem::forget(rp);
                        return out;
                    }
                }
                out.push(';');
            }
            Err(p) => {
                let msg = p
                    .downcast_ref::<String>()
                    .cloned()
                    .or_else(|| p.downcast_ref::<&str>().map(|s| s.to_string()))
                    .unwrap_or_default();
                out.push_str(&format!("!PANIC[{}]", msg.replace(['\n', ';'], " ")));
                // the state is not trusted any more: do not run destructors
                std::mem::forget(rp);
                return out;
            }
        }
    }
    // drop everything that is left: part of the history (frees run here)
    drop(rp);
    out.push_str("end");
    out
}

// ---------------------------------------------------------------------------------- programs

fn run_prog(line: &str) -> String {
    use verif_harness::eval::{Mode, Opts, run, unescape};
    let (fuel, prog) = line.split_once('\t').unwrap_or(("2000000", line));
    let mut o = Opts::default();
    o.fuel = fuel.parse().unwrap_or(2_000_000);
    o.mode = Mode::Full;
    o.typecheck = false;
    let out = run(&unescape(prog), &o);
    out.line_detail()
}

fn main() {
    std::panic::set_hook(Box::new(|_| {}));
    let mode = std::env::args().nth(1).unwrap_or_else(|| "hist".into());
    if mode == "thunkeq" {
        let mk = || -> NickelValue {
            Thunk::new(Closure { value: NickelValue::null(), env: GenEnv::new() }, PosIdx::NONE).into()
        };
        let (a, b) = (mk(), mk());
        println!("{}", a == b);
        return;
    }
    if mode == "dropchain" {
        // a chain of n thunks, each one holding the previous one in its environment, dropped on a
        // thread with the given stack size (KiB): Drop for ValueBlockRc recurses once per link
        let n: usize = std::env::args().nth(2).and_then(|a| a.parse().ok()).unwrap_or(100_000);
        let kib: usize = std::env::args().nth(3).and_then(|a| a.parse().ok()).unwrap_or(8192);
        let h = std::thread::Builder::new()
            .stack_size(kib * 1024)
            .spawn(move || {
                let mut t = Thunk::new(Closure { value: NickelValue::null(), env: GenEnv::new() }, PosIdx::NONE);
                for _ in 0..n {
                    let env = GenEnv::from_iter([(Ident::from("prev"), t)]);
                    t = Thunk::new(Closure { value: NickelValue::null(), env }, PosIdx::NONE);
                }
                drop(t)
            })
            .unwrap();
        h.join().unwrap();
        println!("dropped {n}");
        return;
    }
    let stdin = std::io::stdin();
    let stdout = std::io::stdout();
    let mut w = std::io::BufWriter::new(stdout.lock());
    for line in stdin.lock().lines() {
        let line = line.unwrap();
        let res = match mode.as_str() {
            "hist" => run_history(&line),
            "prog" => run_prog(&line),
            #[cfg(feature = "h7")]
            "stack" => {
                let script: Vec<u8> =
                    line.trim().split('.').filter(|s| !s.is_empty()).map(|s| s.parse().unwrap()).collect();
                match catch_unwind(AssertUnwindSafe(|| nickel_lang_core::verif_hooks::stack_replay(&script))) {
                    Ok(tr) => tr
                        .iter()
                        .map(|(c, ms)| {
                            format!("{c}:{}", ms.iter().map(|m| m.to_string()).collect::<Vec<_>>().join("."))
                        })
                        .collect::<Vec<_>>()
                        .join(";"),
                    Err(_) => "!PANIC".into(),
                }
            }
            _ => "!BADMODE".into(),
        };
        writeln!(w, "{res}").unwrap();
        w.flush().unwrap();
    }
}
