//! C14 harness: printer / parser round trip on the real implementation.
//!
//! stdin: one request per line `<mode>\t<field>\t...` (fields escaped with `\n \t \r \\`);
//! stdout: one line per request, tab-separated fields escaped the same way.
//!
//! * `rt  <flags> <dir> <source>`   direct oracle on a source text: parse, print (width 80, and 0 /
//!   200 as a layout check), re-parse, compare the position-erased trees, print again (fixpoint);
//!   with flag `e` also evaluate source and printed text and compare the canonical outcomes; with
//!   flag `r` also the runtime-term printer (`to_mainline` + core::pretty) text fixpoint.
//!   -> `P` (source does not parse) | `OK <n_nodes>` | `V <kind> <dump of the original tree> <printed> <detail>`
//! * `build <sexp>`   build a real `Ast` from the s-expression, print it, lex the output
//!   -> `<tokens> <status> <printed> <detail> <dump of the re-parsed tree | NONE>` with status
//!   `OK | RF | TD | NF | WS | ERR:<msg>`
//! * `parse <source>` -> `<tokens> <dump>` | `P <msg>`
//! * `primops` -> the canonical names (space separated) of every `PrimOp` value the harness knows
//!   (its table is an exhaustive match: a new constructor does not compile)
//! * `primop <canonical name>` -> `<canonical name> <Debug> <Display> <arity> <Prefix|Infix|Postfix>`,
//!   all computed by the implementation on the value itself (nothing is read from the source text)
use nickel_lang_parser::{
    ErrorTolerantParser,
    ast::{
        Ast, AstAlloc,
        pretty::{Allocator, DocBuilder, Pretty},
    },
    files::Files,
    grammar::TermParser,
    lexer::Lexer,
};
use std::io::{BufRead, Write};
use std::panic::{AssertUnwindSafe, catch_unwind};
use verif_harness::c14::{ALL_OPS, Builder, DumpOpts, Sx, dump_term, op_of_name, tokens, tokens_keep_empty};
use verif_harness::eval::{Opts, run, unescape};

fn escape(s: &str) -> String {
    let mut o = String::with_capacity(s.len());
    for c in s.chars() {
        match c {
            '\\' => o.push_str("\\\\"),
            '\n' => o.push_str("\\n"),
            '\t' => o.push_str("\\t"),
            '\r' => o.push_str("\\r"),
            c => o.push(c),
        }
    }
    o
}

fn parse<'a>(alloc: &'a AstAlloc, src: &str) -> Result<Ast<'a>, String> {
    let id = Files::empty().add("<c14>", src);
    TermParser::new()
        .parse_strict(alloc, id, Lexer::new(src))
        .map_err(|e| format!("{e:?}").chars().take(300).collect())
}

fn print(ast: &Ast, width: usize) -> String {
    let al = Allocator::default();
    let doc: DocBuilder<_, ()> = ast.pretty(&al);
    let mut out = String::new();
    doc.render_fmt(width, &mut out).unwrap();
    out
}

const KIND: DumpOpts = DumpOpts { var_kind: true };
const NOKIND: DumpOpts = DumpOpts { var_kind: false };

/// `Ok(())` or `Err((kind, detail))` for the tree `ast` (whose dump under `o` is `d1`).
fn check_tree(ast: &Ast, d1: &str, o: DumpOpts) -> Result<String, (String, String, String)> {
    let p1 = print(ast, 80);
    let alloc2 = AstAlloc::new();
    let ast2 = match parse(&alloc2, &p1) {
        Ok(a) => a,
        Err(e) => return Err(("RF".into(), p1, e)),
    };
    let d2 = dump_term(&ast2, o).show();
    if d2 != d1 {
        return Err(("TD".into(), p1, d2));
    }
    let p2 = print(&ast2, 80);
    if p2 != p1 {
        return Err(("NF".into(), p1, p2));
    }
    // the layout must not change what is parsed
    for w in [0usize, 200] {
        let pw = print(ast, w);
        if pw != p1 {
            let alloc3 = AstAlloc::new();
            match parse(&alloc3, &pw) {
                Ok(a3) => {
                    let d3 = dump_term(&a3, o).show();
                    if d3 != d1 {
                        return Err(("WS".into(), pw, format!("width {w}: {d3}")));
                    }
                }
                Err(e) => return Err(("WS".into(), pw, format!("width {w}: reparse failed: {e}"))),
            }
        }
    }
    Ok(p1)
}

fn runtime_printer_fixpoint(src: &str) -> Result<(), String> {
    use nickel_lang_core::ast::compat::ToMainline;
    use nickel_lang_core::position::PosTable;
    use nickel_lang_core::pretty::{Allocator as RtAlloc, DocBuilder as RtDoc, Pretty as _};
    let render = |s: &str| -> Result<String, String> {
        let alloc = AstAlloc::new();
        let ast = parse(&alloc, s)?;
        let mut pt = PosTable::new();
        let rt: nickel_lang_core::eval::value::NickelValue = ast.to_mainline(&mut pt);
        let al = RtAlloc::default();
        let doc: RtDoc<_, ()> = rt.pretty(&al);
        let mut out = Vec::new();
        doc.render(80, &mut out).map_err(|e| e.to_string())?;
        Ok(String::from_utf8_lossy(&out).into_owned())
    };
    let p1 = render(src)?;
    let p2 = render(&p1).map_err(|e| format!("runtime printer output does not parse: {e} :: {p1}"))?;
    if p1 != p2 {
        return Err(format!("runtime printer not a fixpoint: {p1} :: {p2}"));
    }
    Ok(())
}

fn count_nodes(d: &str) -> usize {
    d.bytes().filter(|b| *b == b'(').count()
}

fn do_rt(flags: &str, dir: &str, src: &str) -> String {
    let alloc = AstAlloc::new();
    let ast = match parse(&alloc, src) {
        Ok(a) => a,
        Err(_) => return "P".into(),
    };
    let d1 = dump_term(&ast, KIND).show();
    let p1 = match check_tree(&ast, &d1, KIND) {
        Ok(p1) => p1,
        Err((kind, printed, detail)) => {
            return format!("V\t{kind}\t{}\t{}\t{}", escape(&d1), escape(&printed), escape(&detail));
        }
    };
    if flags.contains('r') {
        if let Err(e) = runtime_printer_fixpoint(src) {
            return format!("V\tRT\t{}\t{}\t{}", escape(&d1), escape(&p1), escape(&e));
        }
    }
    if flags.contains('e') {
        if !dir.is_empty() {
            let _ = std::env::set_current_dir(dir);
        }
        let o = Opts { fuel: 300_000, ..Opts::default() };
        let a = run(src, &o).line();
        let b = run(&p1, &o).line();
        if a != b {
            return format!("V\tEV\t{}\t{}\t{}", escape(&d1), escape(&p1), escape(&format!("{a} :: {b}")));
        }
        return format!("OK\t{}\t{}", count_nodes(&d1), escape(&a.chars().take(40).collect::<String>()));
    }
    format!("OK\t{}", count_nodes(&d1))
}

fn do_build(sx: &str) -> String {
    let x = match Sx::parse(sx) {
        Ok(x) => x,
        Err(e) => return format!("\tERR:sexp {e}\t\t\tNONE"),
    };
    let alloc = AstAlloc::new();
    let b = Builder { alloc: &alloc };
    let ast = match b.term(&x) {
        Ok(a) => a,
        Err(e) => return format!("\tERR:build {}\t\t\tNONE", escape(&e)),
    };
    let d0 = dump_term(&ast, NOKIND).show();
    let p = print(&ast, 80);
    let toks = match tokens(&p) {
        Ok(t) => t,
        Err(e) => format!("LEXERR {e}"),
    };
    let (status, detail) = match check_tree(&ast, &d0, NOKIND) {
        Ok(_) => ("OK".to_string(), String::new()),
        Err((kind, _, detail)) => (kind, detail),
    };
    // what the real parser makes of the printed text (for the tie with the model's parser)
    let reparsed = {
        let alloc2 = AstAlloc::new();
        match parse(&alloc2, &p) {
            Ok(a) => dump_term(&a, NOKIND).show(),
            Err(_) => "NONE".to_string(),
        }
    };
    format!(
        "{}\t{}\t{}\t{}\t{}",
        escape(&toks),
        status,
        escape(&p),
        escape(&detail),
        escape(&reparsed)
    )
}

fn do_parse(src: &str) -> String {
    let alloc = AstAlloc::new();
    match parse(&alloc, src) {
        Ok(ast) => {
            let toks = tokens_keep_empty(src).unwrap_or_else(|e| format!("LEXERR {e}"));
            format!("{}\t{}", escape(&toks), escape(&dump_term(&ast, NOKIND).show()))
        }
        Err(e) => format!("P\t{}", escape(&e)),
    }
}

fn do_primop(name: &str) -> String {
    match op_of_name(&Sx::S(name.to_string())) {
        Ok(op) => format!(
            "{}\t{}\t{}\t{}\t{:?}",
            escape(name),
            escape(&format!("{op:?}")),
            escape(&format!("{op}")),
            op.arity(),
            op.positioning()
        ),
        Err(e) => format!("ERR:{}", escape(&e)),
    }
}

fn handle(line: &str) -> String {
    let fields: Vec<&str> = line.split('\t').collect();
    match fields[0] {
        "rt" if fields.len() == 4 => do_rt(fields[1], &unescape(fields[2]), &unescape(fields[3])),
        "build" if fields.len() == 2 => do_build(&unescape(fields[1])),
        "parse" if fields.len() == 2 => do_parse(&unescape(fields[1])),
        "primops" => ALL_OPS.join(" "),
        "primop" if fields.len() == 2 => do_primop(&unescape(fields[1])),
        _ => "ERR:bad request".into(),
    }
}

fn main() {
    std::panic::set_hook(Box::new(|_| {}));
    let stdin = std::io::stdin();
    let stdout = std::io::stdout();
    let mut w = std::io::BufWriter::new(stdout.lock());
    for line in stdin.lock().lines() {
        let line = line.unwrap();
        let l2 = line.clone();
        let h = std::thread::Builder::new()
            .stack_size(256 << 20)
            .spawn(move || catch_unwind(AssertUnwindSafe(|| handle(&l2))))
            .unwrap();
        let out = match h.join() {
            Ok(Ok(o)) => o,
            Ok(Err(p)) | Err(p) => {
                let msg = p
                    .downcast_ref::<String>()
                    .cloned()
                    .or_else(|| p.downcast_ref::<&str>().map(|s| s.to_string()))
                    .unwrap_or_default();
                // keep the field layout of the mode
                if line.starts_with("build") {
                    format!("\tPANIC\t\t{}\tNONE", escape(&msg))
                } else {
                    format!("V\tPANIC\t\t\t{}", escape(&msg))
                }
            }
        };
        writeln!(w, "{out}").unwrap();
        w.flush().unwrap();
    }
}
