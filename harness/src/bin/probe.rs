fn main() { println!("ok"); }
