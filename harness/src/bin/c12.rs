//! C12 harness: drives the real REPL backend (`ReplImpl`, core/src/repl/mod.rs) and re-used
//! `Program`s through generated histories and compares every input with the equivalent
//! stand-alone program (direct oracle).
//!
//! stdin: one history per line, a sequence of inputs in the s-expression language shared with the
//! extracted Coq model (ocaml/c12/driver.ml):
//!   input := (def x T) | (eval K T) | (full K T) | (query K x f...) | (load K T)
//!   T     := (v x) | (lam x T) | (app T T) | (let x T T) | (letrec x T T) | (n INT) | (b t|f)
//!          | (add T T) | (sub T T) | (lt T T) | (if T T T) | (rec (f T)...) | (proj T f) | (fail)
//!   K     := step budget for hook H1 (`verif_hooks::set_fuel`), or `inf`
//! stdout: one line per history:  `<session outcomes> || <oracle outcomes>`  (each a ` | ` list;
//! the oracle of a `def` is `-`).  With argument `program` the history is instead replayed as
//! repeated evaluations of ONE `Program` (inputs other than `def` re-evaluate the same prepared
//! main term `let defs in T` ... see `run_program_mode`).
use nickel_lang_core::{
    cache::{CacheHub, InputFormat, SourcePath},
    error::NullReporter,
    eval::cache::CacheImpl,
    eval::value::{Container, NickelValue, ValueContentRef},
    eval::{VirtualMachine, VmContext},
    program::Program,
    repl::{EvalResult, Repl, ReplImpl},
    term::Term,
    verif_hooks,
};
use std::collections::HashMap;
use std::io::{BufRead, Cursor, Write};
use std::panic::{AssertUnwindSafe, catch_unwind};
use verif_harness::eval::{classify, show_number, show_value};

const INF_TICKS: u64 = 100_000;

// ------------------------------------------------------------------ s-expressions

#[derive(Debug, Clone)]
enum Sx {
    Atom(String),
    List(Vec<Sx>),
}

fn tokenize(s: &str) -> Vec<String> {
    let mut out = Vec::new();
    let mut cur = String::new();
    for c in s.chars() {
        match c {
            '(' | ')' => {
                if !cur.is_empty() {
                    out.push(std::mem::take(&mut cur));
                }
                out.push(c.to_string());
            }
            c if c.is_whitespace() => {
                if !cur.is_empty() {
                    out.push(std::mem::take(&mut cur));
                }
            }
            c => cur.push(c),
        }
    }
    if !cur.is_empty() {
        out.push(cur);
    }
    out
}

fn parse_sx(toks: &[String], pos: &mut usize) -> Sx {
    if toks[*pos] == "(" {
        *pos += 1;
        let mut items = Vec::new();
        while toks[*pos] != ")" {
            items.push(parse_sx(toks, pos));
        }
        *pos += 1;
        Sx::List(items)
    } else {
        *pos += 1;
        Sx::Atom(toks[*pos - 1].clone())
    }
}

fn parse_line(s: &str) -> Vec<Sx> {
    let toks = tokenize(s);
    let mut pos = 0;
    let mut out = Vec::new();
    while pos < toks.len() {
        out.push(parse_sx(&toks, &mut pos));
    }
    out
}

fn atom(s: &Sx) -> &str {
    match s {
        Sx::Atom(a) => a,
        Sx::List(_) => panic!("expected an atom"),
    }
}

/// Nickel concrete syntax of a term.
fn nickel(t: &Sx) -> String {
    let Sx::List(items) = t else { panic!("expected a term") };
    let head = atom(&items[0]);
    let a = |i: usize| nickel(&items[i]);
    match head {
        "v" => atom(&items[1]).to_string(),
        "lam" => format!("(fun {} => {})", atom(&items[1]), a(2)),
        "app" => format!("({} {})", a(1), a(2)),
        "let" => format!("(let {} = {} in {})", atom(&items[1]), a(2), a(3)),
        "letrec" => format!("(let rec {} = {} in {})", atom(&items[1]), a(2), a(3)),
        "n" => {
            let n: i64 = atom(&items[1]).parse().unwrap();
            if n < 0 { format!("({n})") } else { format!("{n}") }
        }
        "b" => if atom(&items[1]) == "t" { "true".into() } else { "false".into() },
        "add" => format!("({} + {})", a(1), a(2)),
        "sub" => format!("({} - {})", a(1), a(2)),
        "lt" => format!("({} < {})", a(1), a(2)),
        "if" => format!("(if {} then {} else {})", a(1), a(2), a(3)),
        "rec" => {
            let fields: Vec<String> = items[1..]
                .iter()
                .map(|f| {
                    let Sx::List(p) = f else { panic!("field") };
                    format!("{} = {}", atom(&p[0]), nickel(&p[1]))
                })
                .collect();
            format!("{{ {} }}", fields.join(", "))
        }
        "proj" => format!("({}).{}", a(1), atom(&items[2])),
        "fail" => "(std.fail_with \"boom\")".into(),
        "imp" => format!("(import \"{}.ncl\")", atom(&items[1])),
        "merge" => format!("({} & {})", a(1), a(2)),
        // (nk <percent-encoded Nickel source>): an arbitrary Nickel expression
        "nk" => format!("({})", pct_decode(atom(&items[1]))),
        "seq" => format!("(std.seq {} {})", a(1), a(2)),
        h => panic!("unknown term head {h}"),
    }
}

fn pct_decode(s: &str) -> String {
    let b = s.as_bytes();
    let mut out = Vec::new();
    let mut i = 0;
    while i < b.len() {
        if b[i] == b'%' && i + 2 < b.len() {
            let h = std::str::from_utf8(&b[i + 1..i + 3]).unwrap();
            out.push(u8::from_str_radix(h, 16).unwrap());
            i += 3;
        } else {
            out.push(b[i]);
            i += 1;
        }
    }
    String::from_utf8(out).unwrap()
}

fn budget(s: &Sx) -> u64 {
    match atom(s) {
        "inf" => INF_TICKS,
        k => k.parse().unwrap(),
    }
}

// ------------------------------------------------------------------ canonical outcomes

/// What is observable of a weak head normal form.
fn show_whnf(v: &NickelValue) -> String {
    match v.content_ref() {
        ValueContentRef::Number(n) => show_number(n),
        ValueContentRef::Bool(b) => format!("{b}"),
        ValueContentRef::Record(Container::Empty) => "{}".into(),
        ValueContentRef::Record(Container::Alloc(r)) => {
            let mut names: Vec<String> = r.fields.keys().map(|k| k.label().to_owned()).collect();
            names.sort();
            format!("{{{}}}", names.join(","))
        }
        ValueContentRef::Term(Term::Fun(..)) => "<fun>".into(),
        _ => match show_value(v, false, false) {
            Ok(s) => s,
            Err(c) => format!("<{c}>"),
        },
    }
}

/// The result of `eval_record_spine`: records are followed, leaves are weak head normal forms; a
/// leaf that was skipped because its thunk was found locked shows up as `<thunk>`.
fn show_spine(v: &NickelValue) -> String {
    match v.content_ref() {
        ValueContentRef::Record(Container::Alloc(r)) => {
            let mut entries: Vec<(String, String)> = r
                .fields
                .iter()
                .map(|(k, f)| {
                    (k.label().to_owned(), f.value.as_ref().map(show_spine).unwrap_or_else(|| "<nodef>".into()))
                })
                .collect();
            entries.sort();
            let parts: Vec<String> = entries.iter().map(|(k, v)| format!("{k}:{v}")).collect();
            format!("{{{}}}", parts.join(","))
        }
        ValueContentRef::Thunk(_) => "<thunk>".into(),
        ValueContentRef::Term(Term::Fun(..)) => "<fun>".into(),
        ValueContentRef::Term(_) => "<term>".into(),
        _ => show_whnf(v),
    }
}

fn show_full(v: &NickelValue) -> String {
    match show_value(v, false, false) {
        Ok(s) => s,
        Err(c) => format!("<{c}>"),
    }
}

fn err_line(e: &nickel_lang_core::error::Error) -> String {
    // an unbound identifier is reported by the typechecker (stand-alone program, REPL input) or by
    // the evaluator (a file imported by a REPL input typechecks against the REPL's type
    // environment): one class
    if let nickel_lang_core::error::Error::TypecheckError(t) = e {
        if format!("{t:?}").contains("UnboundIdentifier") {
            return "ERR UnboundId".into();
        }
    }
    classify(e).line()
}

fn guarded<F: FnOnce() -> String>(f: F) -> String {
    let r = catch_unwind(AssertUnwindSafe(f));
    verif_hooks::set_fuel(u64::MAX);
    match r {
        Ok(s) => s,
        Err(_) => "ERR Panic".into(),
    }
}

// ------------------------------------------------------------------ direct oracle

#[derive(Clone, Copy, PartialEq, Eq, Hash, Debug)]
enum Mode {
    Whnf,
    Full,
    Query,
    Spine,
}

struct Oracle {
    cache: HashMap<(Mode, String, String), String>,
    pub fresh_programs: usize,
    /// directory added to the import path of the fresh programs (context mode), and a digest of
    /// its files (part of the cache key)
    import_dir: Option<(std::path::PathBuf, String)>,
}

impl Oracle {
    /// Evaluate `src` as a fresh stand-alone program.
    fn eval(&mut self, mode: Mode, src: &str, field: &str) -> String {
        let files = self.import_dir.as_ref().map(|d| d.1.clone()).unwrap_or_default();
        let key = (mode, src.to_owned(), format!("{field}\u{0}{files}"));
        if let Some(r) = self.cache.get(&key) {
            return r.clone();
        }
        self.fresh_programs += 1;
        let import_dir = self.import_dir.as_ref().map(|d| d.0.clone());
        let r = guarded(|| {
            let mut prog: Program<CacheImpl> = match Program::new_from_source(
                Cursor::new(src.to_owned()),
                "<oracle>",
                std::io::sink(),
                NullReporter {},
            ) {
                Ok(p) => p,
                Err(e) => return format!("ERR IO {e}"),
            };
            if let Some(d) = &import_dir {
                prog.add_import_paths(std::iter::once(d.clone()));
            }
            if mode == Mode::Query && !field.is_empty() {
                match prog.parse_field_path(field.to_owned()) {
                    Ok(p) => prog.field = p,
                    Err(_) => return "ERR Parse".into(),
                }
            }
            verif_hooks::set_fuel(INF_TICKS);
            match mode {
                Mode::Whnf => match prog.eval() {
                    Ok(v) => format!("OK {}", show_whnf(&v)),
                    Err(e) => err_line(&e),
                },
                Mode::Full => match prog.eval_full() {
                    Ok(v) => format!("OK {}", show_full(&v)),
                    Err(e) => err_line(&e),
                },
                Mode::Spine => match prog.eval_record_spine() {
                    Ok(v) => format!("OK {}", show_spine(&v)),
                    Err(e) => err_line(&e),
                },
                Mode::Query => match prog.query() {
                    Ok(f) => match &f.value {
                        Some(v) => format!("OK {}", show_whnf(v)),
                        None => "OK <nodef>".into(),
                    },
                    Err(e) => err_line(&e),
                },
            }
        });
        self.cache.insert(key, r.clone());
        r
    }
}

fn chain(defs: &[(String, String)], body: &str) -> String {
    let mut s = String::new();
    for (x, e) in defs {
        s.push_str(&format!("let {x} = {e} in\n"));
    }
    s.push_str(body);
    s
}

// ------------------------------------------------------------------ REPL mode

fn run_repl_history(line: &str, oracle: &mut Oracle, scratch: &std::path::Path, serial: &mut usize) -> String {
    let inputs = parse_line(line);
    let mut repl: ReplImpl<CacheImpl> = ReplImpl::new(std::io::sink());
    if let Err(e) = repl.load_stdlib() {
        return format!("ERR stdlib {}", err_line(&e));
    }
    let mut defs: Vec<(String, String)> = Vec::new();
    let mut sess: Vec<String> = Vec::new();
    let mut orac: Vec<String> = Vec::new();
    // files written by `(file NAME T)` inputs, importable as `(imp NAME)` / import "NAME.ncl"
    *serial += 1;
    let dir = scratch.join(format!("repl{}", *serial));
    let mut digest = String::new();
    oracle.import_dir = None;
    for inp in &inputs {
        let Sx::List(items) = inp else { panic!("input") };
        match atom(&items[0]) {
            "file" => {
                if digest.is_empty() {
                    std::fs::create_dir_all(&dir).unwrap();
                    repl.cache_mut().sources.add_import_paths(std::iter::once(dir.clone()));
                }
                let name = atom(&items[1]);
                let text = nickel(&items[2]);
                std::fs::write(dir.join(format!("{name}.ncl")), &text).unwrap();
                digest.push_str(&format!("{name}={text};"));
                oracle.import_dir = Some((dir.clone(), digest.clone()));
                sess.push("bound".into());
                orac.push("-".into());
            }
            "def" => {
                let x = atom(&items[1]).to_string();
                let e = nickel(&items[2]);
                let src = format!("let {x} = {e}");
                let r = guarded(|| match repl.eval(&src) {
                    Ok(EvalResult::Bound(_)) => "bound".into(),
                    Ok(EvalResult::Evaluated(_)) => "ERR NotBound".into(),
                    Err(e) => err_line(&e),
                });
                if r == "bound" {
                    defs.push((x, e));
                }
                sess.push(r);
                orac.push("-".into());
            }
            "eval" | "full" => {
                let full = atom(&items[0]) == "full";
                let k = budget(&items[1]);
                let e = nickel(&items[2]);
                let r = guarded(|| {
                    verif_hooks::set_fuel(k);
                    let res = if full { repl.eval_full(&e) } else { repl.eval(&e) };
                    verif_hooks::set_fuel(u64::MAX);
                    match res {
                        Ok(EvalResult::Evaluated(v)) => {
                            format!("OK {}", if full { show_full(&v) } else { show_whnf(&v) })
                        }
                        Ok(EvalResult::Bound(_)) => "ERR Bound".into(),
                        Err(e) => err_line(&e),
                    }
                });
                sess.push(r);
                orac.push(oracle.eval(if full { Mode::Full } else { Mode::Whnf }, &chain(&defs, &e), ""));
            }
            "query" => {
                let k = budget(&items[1]);
                let path: Vec<String> = items[2..].iter().map(|a| atom(a).to_string()).collect();
                let dotted = path.join(".");
                let r = guarded(|| {
                    verif_hooks::set_fuel(k);
                    let res = repl.query(dotted.clone());
                    verif_hooks::set_fuel(u64::MAX);
                    match res {
                        Ok(f) => match &f.value {
                            Some(v) => format!("OK {}", show_whnf(v)),
                            None => "OK <nodef>".into(),
                        },
                        Err(e) => err_line(&e),
                    }
                });
                sess.push(r);
                orac.push(oracle.eval(Mode::Query, &chain(&defs, &path[0]), &path[1..].join(".")));
            }
            "load" => {
                // (load K T): T is written to a scratch file and loaded; on success the fields of
                // the resulting record are bound.  Stand-alone equivalent: let %r = T in
                // let f = %r.f in ... for every field f of the loaded record.
                let k = budget(&items[1]);
                let e = nickel(&items[2]);
                *serial += 1;
                let path = scratch.join(format!("load{}.ncl", *serial));
                std::fs::write(&path, &e).unwrap();
                let mut fields: Vec<String> = Vec::new();
                let r = guarded(|| {
                    verif_hooks::set_fuel(k);
                    let res = repl.load(&path);
                    verif_hooks::set_fuel(u64::MAX);
                    match res {
                        Ok(v) => {
                            if let ValueContentRef::Record(Container::Alloc(r)) = v.content_ref() {
                                fields = r.fields.keys().map(|k| k.label().to_owned()).collect();
                            }
                            format!("OK {}", show_whnf(&v))
                        }
                        Err(e) => err_line(&e),
                    }
                });
                let _ = std::fs::remove_file(&path);
                let rname = format!("loaded{}", *serial);
                orac.push(oracle.eval(Mode::Whnf, &chain(&defs, &e), ""));
                if r.starts_with("OK") {
                    defs.push((rname.clone(), e));
                    for f in fields {
                        defs.push((f.clone(), format!("{rname}.{f}")));
                    }
                }
                sess.push(r);
            }
            h => panic!("unknown input {h}"),
        }
    }
    oracle.import_dir = None;
    if !digest.is_empty() {
        let _ = std::fs::remove_dir_all(&dir);
    }
    format!("{} || {}", sess.join(" | "), orac.join(" | "))
}

// ------------------------------------------------------------------ Program mode

/// The history is replayed on ONE `Program` whose source is `let defs in T` for the LAST
/// non-def input's term; every non-def input (eval / full / query) re-evaluates that same program
/// with its own budget, so that the thunks of the prepared main term are shared between the
/// evaluations.  The oracle is a fresh `Program` per evaluation.
fn run_program_history(line: &str, oracle: &mut Oracle) -> String {
    let inputs = parse_line(line);
    let mut defs: Vec<(String, String)> = Vec::new();
    let mut body: Option<String> = None;
    for inp in &inputs {
        let Sx::List(items) = inp else { panic!("input") };
        match atom(&items[0]) {
            "def" => defs.push((atom(&items[1]).to_string(), nickel(&items[2]))),
            "eval" | "full" => body = Some(nickel(&items[2])),
            _ => {}
        }
    }
    let Some(body) = body else { return " || ".into() };
    let src = chain(&defs, &body);
    let mut prog: Program<CacheImpl> =
        Program::new_from_source(Cursor::new(src.clone()), "<c12>", std::io::sink(), NullReporter {}).unwrap();
    let mut sess: Vec<String> = Vec::new();
    let mut orac: Vec<String> = Vec::new();
    for inp in &inputs {
        let Sx::List(items) = inp else { panic!("input") };
        let head = atom(&items[0]);
        if head != "eval" && head != "full" && head != "spine" {
            continue;
        }
        let k = budget(&items[1]);
        let r = guarded(|| {
            verif_hooks::set_fuel(k);
            let res = match head {
                "full" => prog.eval_full().map(|v| format!("OK {}", show_full(&v))),
                "spine" => prog.eval_record_spine().map(|v| format!("OK {}", show_spine(&v))),
                _ => prog.eval().map(|v| format!("OK {}", show_whnf(&v))),
            };
            verif_hooks::set_fuel(u64::MAX);
            match res {
                Ok(s) => s,
                Err(e) => err_line(&e),
            }
        });
        sess.push(r);
        orac.push(match head {
            "full" => oracle.eval(Mode::Full, &src, ""),
            "spine" => oracle.eval(Mode::Spine, &src, ""),
            _ => oracle.eval(Mode::Whnf, &src, ""),
        });
    }
    format!("{} || {}", sess.join(" | "), orac.join(" | "))
}


// ------------------------------------------------------------------ Context mode

/// One `VmContext` re-used for several stand-alone sources, the way `nickel::Context::with_vm`
/// (nickel/src/lib.rs) does: add the source, `prepare_eval`, spin a fresh `VirtualMachine`,
/// evaluate, drop the VM.  Inputs: `(file NAME T)` writes NAME.ncl into a scratch directory on the
/// import path (terms import it with `(imp NAME)`); `(eval K T)` / `(full K T)` evaluate T.
/// What is shared between the evaluations: the import resolver's term cache, i.e. the thunks of
/// the imported files.  Oracle: a fresh `Program` per evaluation with the same import path.
fn run_context_history(line: &str, oracle: &mut Oracle, scratch: &std::path::Path, serial: &mut usize) -> String {
    let inputs = parse_line(line);
    *serial += 1;
    let dir = scratch.join(format!("ctx{}", *serial));
    std::fs::create_dir_all(&dir).unwrap();
    let mut ctxt: VmContext<CacheHub, CacheImpl> = VmContext::new(CacheHub::new(), std::io::sink(), NullReporter {});
    ctxt.import_resolver.sources.add_import_paths(std::iter::once(dir.clone()));
    let mut digest = String::new();
    let mut sess: Vec<String> = Vec::new();
    let mut orac: Vec<String> = Vec::new();
    for inp in &inputs {
        let Sx::List(items) = inp else { panic!("input") };
        match atom(&items[0]) {
            "file" => {
                let name = atom(&items[1]);
                let text = nickel(&items[2]);
                std::fs::write(dir.join(format!("{name}.ncl")), &text).unwrap();
                digest.push_str(&format!("{name}={text};"));
                sess.push("bound".into());
                orac.push("-".into());
            }
            head @ ("eval" | "full") => {
                let full = head == "full";
                let k = budget(&items[1]);
                let src = nickel(&items[2]);
                let r = guarded(|| {
                    let file_id = match ctxt.import_resolver.sources.add_source(
                        SourcePath::Path("<ctx>".into(), InputFormat::Nickel),
                        Cursor::new(src.clone()),
                    ) {
                        Ok(id) => id,
                        Err(e) => return format!("ERR IO {e}"),
                    };
                    let value = match ctxt.prepare_eval(file_id) {
                        Ok(v) => v,
                        Err(e) => return err_line(&e),
                    };
                    verif_hooks::set_fuel(k);
                    let mut vm = VirtualMachine::new(&mut ctxt);
                    let res = if full { vm.eval_full(value) } else { vm.eval(value) };
                    drop(vm);
                    verif_hooks::set_fuel(u64::MAX);
                    match res {
                        Ok(v) => format!("OK {}", if full { show_full(&v) } else { show_whnf(&v) }),
                        Err(e) => err_line(&nickel_lang_core::error::Error::from(e)),
                    }
                });
                sess.push(r);
                oracle.import_dir = Some((dir.clone(), digest.clone()));
                orac.push(oracle.eval(if full { Mode::Full } else { Mode::Whnf }, &src, ""));
                oracle.import_dir = None;
            }
            h => panic!("unknown input {h}"),
        }
    }
    let _ = std::fs::remove_dir_all(&dir);
    format!("{} || {}", sess.join(" | "), orac.join(" | "))
}

fn main() {
    if std::env::var("C12_PANIC_MSG").is_err() { std::panic::set_hook(Box::new(|_| {})); }
    let mode_arg = std::env::args().nth(1).unwrap_or_default();
    let program_mode = mode_arg == "program";
    let context_mode = mode_arg == "context";
    let worker = std::thread::Builder::new()
        .stack_size(1 << 30)
        .spawn(move || {
            let scratch = std::env::temp_dir().join(format!("verif-c12-{}", std::process::id()));
            std::fs::create_dir_all(&scratch).unwrap();
            let mut serial = 0usize;
            let mut oracle = Oracle { cache: HashMap::new(), fresh_programs: 0, import_dir: None };
            let stdin = std::io::stdin();
            let stdout = std::io::stdout();
            let mut w = std::io::BufWriter::new(stdout.lock());
            for line in stdin.lock().lines() {
                let line = line.unwrap();
                let out = match catch_unwind(AssertUnwindSafe(|| {
                    if program_mode {
                        run_program_history(&line, &mut oracle)
                    } else if context_mode {
                        run_context_history(&line, &mut oracle, &scratch, &mut serial)
                    } else {
                        run_repl_history(&line, &mut oracle, &scratch, &mut serial)
                    }
                })) {
                    Ok(s) => s,
                    Err(_) => "ERR HarnessPanic || ".into(),
                };
                writeln!(w, "{out}").unwrap();
                w.flush().unwrap();
            }
            let _ = std::fs::remove_dir_all(&scratch);
        })
        .unwrap();
    worker.join().unwrap();
}
