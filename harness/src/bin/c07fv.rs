//! C07 harness, part A: the dependency analysis of recursive records on the real implementation.
//!
//! stdin: one request per line: a Nickel program with `\n`/`\\` escaped, or `@file <path>`.
//! stdout, one line per request:
//!   `OK\t<sexp>\t<deps>\t<n>\t<labels>`   the parsed (untransformed apart from `free_vars::transform`) term printed
//!                           in the syntax of coq/Rec/FreeVars.v with identifiers interned as
//!                           numbers, and the `RecordDeps` of every `Term::RecRecord` of the term
//!                           (canonical text, sorted), as computed by
//!                           `nickel_lang_core::transform::free_vars::transform`
//!   `P <msg>`               the program does not parse
//!
//! The matches on `Term`, `ValueContentRef`, `TypeF`, `RecordRowsF`, `EnumRowsF` below have no
//! wildcard arm: a new variant in nickel stops this file from compiling (fail closed).
use nickel_lang_core::{
    eval::value::{Container, NickelValue, ValueContentRef},
    term::{
        StrChunk, Term,
        record::{Field, FieldDeps},
    },
    transform::free_vars,
    typ::{EnumRows, EnumRowsF, RecordRows, RecordRowsF, Type, TypeF},
};
use std::collections::HashMap;
use std::fmt::Write as _;
use std::io::{BufRead, Write};
use verif_harness::eval::unescape;

#[derive(Default)]
struct Ctx {
    names: HashMap<&'static str, usize>,
    labels: Vec<&'static str>,
    recs: Vec<String>,
    problems: Vec<String>,
    /// while printing something the analysis does not traverse: record nothing
    quiet: bool,
    /// fields that already carry pending contracts (compiled patterns)
    pending_fields: usize,
}

impl Ctx {
    fn id(&mut self, s: &'static str) -> usize {
        let n = self.names.len();
        if !self.names.contains_key(s) {
            self.labels.push(s);
        }
        *self.names.entry(s).or_insert(n)
    }

    fn show_deps(&mut self, d: &FieldDeps) -> String {
        match d {
            FieldDeps::Unknown => "?".into(),
            FieldDeps::Known(set) => {
                let mut v: Vec<usize> = set.iter().map(|i| self.id(i.label())).collect();
                v.sort();
                v.iter().map(|n| n.to_string()).collect::<Vec<_>>().join(",")
            }
        }
    }
}

fn field(c: &mut Ctx, f: &Field, o: &mut String) {
    o.push_str("(f (");
    if let Some(md) = &f.metadata.0 {
        for lt in md.annotation.iter() {
            typ(c, &lt.typ, o);
        }
    }
    o.push_str(") ");
    if !f.pending_contracts.is_empty() && !c.quiet {
        // Pattern compilation (term/pattern/compile.rs update_with_merge) runs gen_pending_contracts on
        // the singleton records it builds, so such fields carry pending contracts before the
        // transformations.  free_vars.rs does not traverse them (neither does the model); that is
        // harmless as long as they mention no variable that the annotations do not mention.
        c.pending_fields += 1;
        c.quiet = true;
        let mut pend = String::new();
        for pc in f.pending_contracts.iter() {
            value(c, &pc.contract, &mut pend);
        }
        let mut ann = String::new();
        if let Some(md) = &f.metadata.0 {
            for lt in md.annotation.iter() {
                typ(c, &lt.typ, &mut ann);
            }
        }
        c.quiet = false;
        let ids = |s: &str| -> Vec<String> {
            s.match_indices("(v ").map(|(i, _)| s[i + 3..].split(')').next().unwrap_or("").to_owned()).collect()
        };
        let ann_ids = ids(&ann);
        for id in ids(&pend) {
            let label = id.parse::<usize>().ok().and_then(|i| c.labels.get(i).copied()).unwrap_or("?");
            // `$number`, `$record_contract`, ...: the internal contracts of the standard library
            if !ann_ids.contains(&id) && !label.starts_with('$') {
                c.problems.push(format!("a pending contract mentions variable {label} that the annotation does not"));
            }
        }
    }
    match &f.value {
        Some(v) => value(c, v, o),
        None => o.push('_'),
    }
    o.push(')');
}

fn rrows(c: &mut Ctx, r: &RecordRows, o: &mut String) {
    match &r.0 {
        RecordRowsF::Empty => o.push_str("(re)"),
        RecordRowsF::TailDyn => o.push_str("(rd)"),
        RecordRowsF::TailVar(id) => {
            let _ = write!(o, "(rv {})", c.id(id.label()));
        }
        RecordRowsF::Extend { row, tail } => {
            let _ = write!(o, "(rx {} ", c.id(row.id.label()));
            typ(c, &row.typ, o);
            rrows(c, tail, o);
            o.push(')');
        }
    }
}

fn erows(c: &mut Ctx, r: &EnumRows, o: &mut String) {
    match &r.0 {
        EnumRowsF::Empty => o.push_str("(ee)"),
        EnumRowsF::TailVar(id) => {
            let _ = write!(o, "(ev {})", c.id(id.label()));
        }
        EnumRowsF::Extend { row, tail } => {
            let _ = write!(o, "(ex {} ", c.id(row.id.label()));
            match &row.typ {
                Some(t) => typ(c, t, o),
                None => o.push('_'),
            }
            erows(c, tail, o);
            o.push(')');
        }
    }
}

fn typ(c: &mut Ctx, t: &Type, o: &mut String) {
    match &t.typ {
        TypeF::Dyn
        | TypeF::Number
        | TypeF::Bool
        | TypeF::String
        | TypeF::ForeignId
        | TypeF::Symbol
        | TypeF::Wildcard(_) => o.push_str("(a)"),
        TypeF::Var(id) => {
            let _ = write!(o, "(tv {})", c.id(id.label()));
        }
        TypeF::Forall { var, var_kind: _, body } => {
            let _ = write!(o, "(all {} ", c.id(var.label()));
            typ(c, body, o);
            o.push(')');
        }
        TypeF::Dict { type_fields, flavour: _ } => {
            o.push_str("(dict ");
            typ(c, type_fields, o);
            o.push(')');
        }
        TypeF::Array(t) => {
            o.push_str("(array ");
            typ(c, t, o);
            o.push(')');
        }
        TypeF::Arrow(a, b) => {
            o.push_str("(arrow ");
            typ(c, a, o);
            typ(c, b, o);
            o.push(')');
        }
        TypeF::Record(r) => {
            o.push_str("(trec ");
            rrows(c, r, o);
            o.push(')');
        }
        TypeF::Enum(e) => {
            o.push_str("(tenum ");
            erows(c, e, o);
            o.push(')');
        }
        TypeF::Contract(t) => {
            o.push_str("(tc ");
            value(c, t, o);
            o.push(')');
        }
    }
}

fn value(c: &mut Ctx, v: &NickelValue, o: &mut String) {
    match v.content_ref() {
        ValueContentRef::Null
        | ValueContentRef::Bool(_)
        | ValueContentRef::Number(_)
        | ValueContentRef::String(_)
        | ValueContentRef::Label(_)
        | ValueContentRef::ForeignId(_)
        | ValueContentRef::SealingKey(_)
        | ValueContentRef::Array(Container::Empty)
        | ValueContentRef::Record(Container::Empty) => o.push_str("(k)"),
        ValueContentRef::Array(Container::Alloc(a)) => {
            if !a.pending_contracts.is_empty() && !c.quiet {
                c.problems.push("array literal with pending contracts".into());
            }
            o.push_str("(arr");
            for e in a.array.iter() {
                o.push(' ');
                value(c, e, o);
            }
            o.push(')');
        }
        ValueContentRef::Record(Container::Alloc(r)) => {
            o.push_str("(recval");
            for (id, f) in r.fields.iter() {
                let _ = write!(o, " ({} ", c.id(id.label()));
                field(c, f, o);
                o.push(')');
            }
            o.push(')');
        }
        ValueContentRef::EnumVariant(d) => {
            o.push_str("(enum ");
            match &d.arg {
                Some(a) => value(c, a, o),
                None => o.push('_'),
            }
            o.push(')');
        }
        ValueContentRef::CustomContract(ctr) => {
            o.push_str("(ctr ");
            value(c, ctr, o);
            o.push(')');
        }
        ValueContentRef::Type(td) => {
            o.push_str("(type ");
            typ(c, &td.typ, o);
            value(c, &td.contract, o);
            o.push(')');
        }
        ValueContentRef::Thunk(_) => {
            if !c.quiet {
                c.problems.push("thunk in a parsed term".into());
            }
            o.push_str("(k)");
        }
        ValueContentRef::Term(t) => term(c, t, o),
    }
}

fn term(c: &mut Ctx, t: &Term, o: &mut String) {
    match t {
        Term::Var(id) => {
            let _ = write!(o, "(v {})", c.id(id.label()));
        }
        Term::ParseError(_) | Term::RuntimeError(_) | Term::Import(_) | Term::ResolvedImport(_) => {
            o.push_str("(k)")
        }
        Term::Fun(d) => {
            let _ = write!(o, "(fun {} ", c.id(d.arg.label()));
            value(c, &d.body, o);
            o.push(')');
        }
        Term::Let(d) => {
            o.push_str(if d.attrs.rec { "(letrec (" } else { "(let (" });
            for (id, v) in d.bindings.iter() {
                let _ = write!(o, "({} ", c.id(id.label()));
                value(c, v, o);
                o.push(')');
            }
            o.push_str(") ");
            value(c, &d.body, o);
            o.push(')');
        }
        Term::App(d) => {
            o.push_str("(app ");
            value(c, &d.head, o);
            value(c, &d.arg, o);
            o.push(')');
        }
        Term::Op1(d) => {
            o.push_str("(op1 ");
            value(c, &d.arg, o);
            o.push(')');
        }
        Term::Op2(d) => {
            o.push_str("(op2 ");
            value(c, &d.arg1, o);
            value(c, &d.arg2, o);
            o.push(')');
        }
        Term::OpN(d) => {
            o.push_str("(opn");
            for a in d.args.iter() {
                o.push(' ');
                value(c, a, o);
            }
            o.push(')');
        }
        Term::Sealed(d) => {
            o.push_str("(sealed ");
            value(c, &d.inner, o);
            o.push(')');
        }
        Term::StrChunks(chunks) => {
            o.push_str("(chunks");
            for ch in chunks.iter() {
                o.push(' ');
                match ch {
                    StrChunk::Literal(_) => o.push('_'),
                    StrChunk::Expr(e, _) => value(c, e, o),
                }
            }
            o.push(')');
        }
        Term::Annotated(d) => {
            o.push_str("(ann (");
            for lt in d.annot.iter() {
                typ(c, &lt.typ, o);
            }
            o.push_str(") ");
            value(c, &d.inner, o);
            o.push(')');
        }
        Term::Closurize(v) => {
            o.push_str("(clos ");
            value(c, v, o);
            o.push(')');
        }
        Term::RecRecord(d) => {
            // the dependency table computed by the implementation
            match &d.deps {
                _ if c.quiet => (),
                None => c.problems.push("RecRecord without deps after free_vars::transform".into()),
                Some(deps) => {
                    let mut stat: Vec<(usize, String)> = Vec::new();
                    for (id, fd) in deps.stat_fields.iter() {
                        let k = c.id(id.label());
                        let s = c.show_deps(fd);
                        stat.push((k, s));
                    }
                    stat.sort();
                    let dynf: Vec<String> = deps.dyn_fields.iter().map(|fd| c.show_deps(fd)).collect();
                    let line = format!(
                        "s[{}]d[{}]",
                        stat.iter().map(|(k, s)| format!("{k}:{s}")).collect::<Vec<_>>().join(" "),
                        dynf.join(" ")
                    );
                    c.recs.push(line);
                }
            }
            if d.closurized && !c.quiet {
                c.problems.push("closurized RecRecord in a parsed term".into());
            }
            o.push_str("(rec (");
            for (id, f) in d.record.fields.iter() {
                let _ = write!(o, "({} ", c.id(id.label()));
                field(c, f, o);
                o.push(')');
            }
            o.push_str(") (");
            for incl in d.includes.iter() {
                let _ = write!(o, "({} (", c.id(incl.ident.label()));
                for lt in incl.metadata.annotation.iter() {
                    typ(c, &lt.typ, o);
                }
                o.push_str("))");
            }
            o.push_str(") (");
            for (n, f) in d.dyn_fields.iter() {
                o.push('(');
                value(c, n, o);
                o.push(' ');
                field(c, f, o);
                o.push(')');
            }
            o.push_str("))");
        }
    }
}

fn run(src: &str) -> String {
    use nickel_lang_core::ast::compat::ToMainline;
    use nickel_lang_core::position::PosTable;
    use nickel_lang_parser::{ErrorTolerantParser, ast::AstAlloc, files::Files, grammar::TermParser, lexer::Lexer};
    let alloc = AstAlloc::new();
    let id = Files::empty().add("<c07fv>", src);
    let ast = match TermParser::new().parse_strict(&alloc, id, Lexer::new(src)) {
        Ok(a) => a,
        Err(_) => return "P parse".into(),
    };
    let mut pos_table = PosTable::new();
    // what CacheHub::compile does to a parsed file: Ast -> runtime term
    let mut v: NickelValue = ast.to_mainline(&mut pos_table);
    // first step of transform::transform
    free_vars::transform(&mut v);
    let mut c = Ctx::default();
    let mut o = String::new();
    value(&mut c, &v, &mut o);
    if !c.problems.is_empty() {
        return format!("X {}", c.problems.join("; "));
    }
    c.recs.sort();
    // last column: the identifiers behind the numbers (number = position), so that a dependency table
    // can be read back by name
    let labels: Vec<String> = c.labels.iter().map(|l| l.replace(['\t', '\n', '\r', ','], " ")).collect();
    format!("OK\t{}\t{}\t{}\t{}", o, c.recs.join(";"), c.pending_fields, labels.join(","))
}

fn main() {
    if std::env::var("C07_DEBUG").is_err() { std::panic::set_hook(Box::new(|_| {})); }
    let stdin = std::io::stdin();
    let stdout = std::io::stdout();
    let mut w = std::io::BufWriter::new(stdout.lock());
    for line in stdin.lock().lines() {
        let line = line.unwrap();
        let src = if let Some(p) = line.strip_prefix("@file ") {
            match std::fs::read_to_string(p.trim()) {
                Ok(s) => s,
                Err(e) => {
                    writeln!(w, "P io {e}").unwrap();
                    continue;
                }
            }
        } else {
            unescape(&line)
        };
        let h = std::thread::Builder::new()
            .stack_size(512 << 20)
            .spawn(move || std::panic::catch_unwind(std::panic::AssertUnwindSafe(|| run(&src))))
            .unwrap();
        let out = match h.join() {
            Ok(Ok(s)) => s,
            _ => "X panic".into(),
        };
        writeln!(w, "{out}").unwrap();
        w.flush().unwrap();
    }
}
