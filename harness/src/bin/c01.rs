//! C01 harness.  One request per stdin line, one answer per stdout line.
//!
//! Line format: `<mode>\t<program>` (program escaped as in nkeval: `\n`, `\\`).
//!
//! * `ev[,flags]`  evaluate like the CLI does (walk-mode typechecking first unless `notc`; deep
//!   evaluation; `full` = eval_full instead of eval_full_for_export) and print
//!   `OK <tree>` or `ERR <class> pos=<file>:<s>-<e>[,...] [label=<file>:<s>-<e> pol=<+|-> path=<n>] -- <detail>`.
//!   Positions are the spans attached to the error by the interpreter (primary first).
//! * `tc[,enforce]` run the real typechecker (`typecheck_visit`) with a visitor and print
//!   `OK <n> (<s> <e> <kind> <type-sexp>)...  | (id <s> <e> <name> <type-sexp>)...` with every
//!   unification variable substituted through the final table (what the LSP shows on hover), or
//!   `ERR Typecheck ...` / `ERR Parse ...`.
//!   `enforce` = start in typed mode (as if the whole program were inside a typed block).
use std::io::{BufRead, Cursor, Write};

use nickel_lang_core::{
    ast::{
        Ast, AstAlloc, Node,
        typ::{EnumRows, RecordRows, Type},
    },
    cache::AstImportResolver,
    error::{Error, EvalErrorKind, ImportErrorKind, NullReporter},
    eval::cache::CacheImpl,
    files::{FileId, Files},
    identifier::LocIdent,
    label::Polarity,
    parser::{ErrorTolerantParser, grammar, lexer},
    position::{PosIdx, PosTable, RawSpan, TermPos},
    program::Program,
    stdlib::StdlibModule,
    typ::{EnumRowsF, RecordRowsF, TypeF, VarKind},
    typecheck::{
        Context, TypeTables, TypecheckMode, TypecheckVisitor, UnifType, mk_initial_ctxt,
        reporting::{NameReg, ToType},
        typecheck_visit,
    },
};
use verif_harness::eval::{Mode, Opts, classify, classify_eval, json_str, show_value, unescape};

// ------------------------------------------------------------------------------------------ ev

fn span_str(files: &Files, sp: &RawSpan) -> String {
    let name = files.name(sp.src_id).to_string_lossy().to_string();
    let f = if name == "<verif>" {
        "main"
    } else if name.contains("std.ncl") {
        "std"
    } else if name.contains("internals") {
        "internals"
    } else {
        "other"
    };
    format!("{f}:{}-{}", sp.start.0, sp.end.0)
}

fn pos_str(files: &Files, table: &PosTable, idx: PosIdx) -> Option<String> {
    match table.get(idx) {
        TermPos::Original(sp) | TermPos::Inherited(sp) => Some(span_str(files, &sp)),
        TermPos::None => None,
    }
}

/// The positions the interpreter attached to the error, the one of the failing operation first.
fn error_positions(e: &EvalErrorKind, files: &Files, table: &PosTable) -> (Vec<String>, String) {
    use EvalErrorKind::*;
    let mut ps: Vec<Option<String>> = Vec::new();
    let mut label = String::new();
    let p = |i: PosIdx| pos_str(files, table, i);
    match e {
        BlameError { label: l, .. } | IllegalPolymorphicTailAccess { label: l, .. } => {
            label = format!(
                " label={} pol={} path={} argpos={}",
                p(l.span).unwrap_or_else(|| "none".into()),
                match l.polarity {
                    Polarity::Positive => "+",
                    Polarity::Negative => "-",
                },
                l.path.len(),
                p(l.arg_pos).unwrap_or_else(|| "none".into()),
            );
            ps.push(p(l.arg_pos));
        }
        MissingFieldDef { pos_record, pos_access, .. } => {
            ps.push(p(*pos_access));
            ps.push(p(*pos_record));
        }
        TypeError { orig_pos, term, .. } => {
            ps.push(p(*orig_pos));
            ps.push(p(term.pos_idx()));
        }
        UnaryPrimopTypeError { pos_arg, arg_evaluated, .. } => {
            ps.push(p(*pos_arg));
            ps.push(p(arg_evaluated.pos_idx()));
        }
        NAryPrimopTypeError { pos_arg, pos_op, arg_evaluated, .. } => {
            ps.push(p(*pos_op));
            ps.push(p(*pos_arg));
            ps.push(p(arg_evaluated.pos_idx()));
        }
        NotAFunc(t, _arg, app) => {
            ps.push(p(*app));
            ps.push(p(t.pos_idx()));
        }
        FieldMissing { pos_record, pos_op, .. } => {
            ps.push(p(*pos_op));
            ps.push(p(*pos_record));
        }
        NotEnoughArgs(_, _, i) => ps.push(p(*i)),
        UnboundIdentifier(id, pos) => {
            match pos {
                TermPos::Original(sp) | TermPos::Inherited(sp) => ps.push(Some(span_str(files, sp))),
                TermPos::None => (),
            }
            match id.pos {
                TermPos::Original(sp) | TermPos::Inherited(sp) => ps.push(Some(span_str(files, &sp))),
                TermPos::None => (),
            }
        }
        InfiniteRecursion(_, i) => ps.push(p(*i)),
        IncomparableValues { eq_pos, .. } => ps.push(p(*eq_pos)),
        NonExhaustiveEnumMatch { pos, found, .. } => {
            ps.push(p(*pos));
            ps.push(p(found.pos_idx()));
        }
        NonExhaustiveMatch { pos, value } => {
            ps.push(p(*pos));
            ps.push(p(value.pos_idx()));
        }
        FailedDestructuring { pattern_pos, value } => {
            ps.push(p(*pattern_pos));
            ps.push(p(value.pos_idx()));
        }
        QueryNonRecord { pos, .. } => ps.push(p(*pos)),
        InternalError(_, i) | Other(_, i) => ps.push(p(*i)),
        DeserializationError(_, _, i) => ps.push(p(*i)),
        DeserializationErrorWithInner { pos, .. } => ps.push(p(*pos)),
        MergeIncompatibleArgs { left_arg, right_arg, .. } => {
            ps.push(p(left_arg.pos_idx()));
            ps.push(p(right_arg.pos_idx()));
        }
        ParseError(_) | SerializationError(_) => (),
    }
    (ps.into_iter().flatten().collect(), label)
}

fn detail_of(e: &EvalErrorKind) -> String {
    use EvalErrorKind::*;
    let s = match e {
        TypeError { expected, message, .. } => format!("expected {expected}: {message}"),
        UnaryPrimopTypeError { primop, expected, .. } => format!("{primop} expects {expected}"),
        NAryPrimopTypeError { primop, expected, arg_number, .. } => {
            format!("{primop} expects {expected} as argument {arg_number}")
        }
        NotAFunc(..) => "not a function".into(),
        FieldMissing { id, operator, .. } => format!("field {} ({operator})", id.label()),
        UnboundIdentifier(id, _) => format!("unbound {}", id.label()),
        NonExhaustiveEnumMatch { .. } | NonExhaustiveMatch { .. } => "non exhaustive".into(),
        BlameError { label, .. } => format!(
            "type={} diag={:?}",
            label.typ,
            label.diagnostics.iter().map(|d| d.message.clone()).collect::<Vec<_>>()
        ),
        Other(msg, _) | InternalError(msg, _) => msg.clone(),
        // never Debug-print an error that embeds values: labels reach their argument thunk, whose
        // closure may reach the label again (the derived Debug then recurses forever)
        MergeIncompatibleArgs { .. } => "non mergeable".into(),
        IncomparableValues { .. } => "incomparable".into(),
        MissingFieldDef { id, .. } => format!("missing definition for {}", id.label()),
        NotEnoughArgs(n, op, _) => format!("{op} needs {n} arguments"),
        InfiniteRecursion(..) => "infinite recursion".into(),
        IllegalPolymorphicTailAccess { .. } => "polymorphic tail access".into(),
        FailedDestructuring { .. } => "failed destructuring".into(),
        QueryNonRecord { .. } => "query non record".into(),
        ParseError(_) => "parse error".into(),
        SerializationError(_) => "serialization error".into(),
        DeserializationError(f, m, _) => format!("deserialization {f}: {m}"),
        DeserializationErrorWithInner { .. } => "deserialization error".into(),
    };
    s.replace(['\n', '\t'], " ")
}

fn ev_inner(src: &str, o: &Opts) -> String {
    use nickel_lang_core::verif_hooks as h;
    let mut prog: Program<CacheImpl> = match Program::new_from_source(
        Cursor::new(src.to_owned()),
        "<verif>",
        std::io::sink(),
        NullReporter {},
    ) {
        Ok(p) => p,
        Err(e) => return format!("ERR IO -- {e}"),
    };
    h::set_fuel(u64::MAX);
    h::set_full_static_contracts(o.full_static);
    h::set_no_dedup(false);
    h::set_deps_unknown(false);
    if o.typecheck {
        if let Err(e) = prog.typecheck(TypecheckMode::Walk) {
            return classify(&e).line_detail();
        }
    }
    h::set_fuel(o.fuel);
    let res = match o.mode {
        Mode::Export => prog.eval_full_for_export(),
        Mode::Full => prog.eval_full(),
    };
    h::set_fuel(u64::MAX);
    match res {
        Ok(v) => match show_value(&v, o.mode == Mode::Export, false) {
            Ok(s) => format!("OK {s}"),
            Err(class) => format!("ERR {class} -- while printing the result"),
        },
        Err(Error::EvalError(d)) => {
            let (class, _) = classify_eval(&d.error);
            let files = prog.files();
            let (ps, label) = error_positions(&d.error, &files, &d.ctxt.pos_table);
            format!("ERR {class} pos={}{label} -- {}", if ps.is_empty() { "none".to_string() } else { ps.join(",") }, detail_of(&d.error))
        }
        Err(e) => classify(&e).line_detail(),
    }
}

fn on_big_stack<F: FnOnce() -> String + Send + 'static>(f: F) -> String {
    let h = std::thread::Builder::new()
        .stack_size(512 << 20)
        .spawn(move || std::panic::catch_unwind(std::panic::AssertUnwindSafe(f)))
        .unwrap();
    match h.join() {
        Ok(Ok(out)) => out,
        Ok(Err(p)) | Err(p) => {
            let msg = p
                .downcast_ref::<String>()
                .cloned()
                .or_else(|| p.downcast_ref::<&str>().map(|s| s.to_string()))
                .unwrap_or_default();
            format!("ERR Panic -- {}", msg.replace('\n', " "))
        }
    }
}

// ------------------------------------------------------------------------------------------ tc

fn ident_str(id: &LocIdent) -> String {
    json_str(id.label())
}

fn ty_sexp(t: &Type<'_>) -> String {
    match &t.typ {
        TypeF::Dyn => "dyn".into(),
        TypeF::Number => "num".into(),
        TypeF::Bool => "bool".into(),
        TypeF::String => "str".into(),
        TypeF::Symbol => "sym".into(),
        TypeF::ForeignId => "foreign".into(),
        TypeF::Contract(_) => "(contract)".into(),
        TypeF::Arrow(a, b) => format!("(fun {} {})", ty_sexp(a), ty_sexp(b)),
        TypeF::Var(id) => format!("(var {})", json_str(id.label())),
        TypeF::Forall { var, var_kind, body } => {
            let k = match var_kind {
                VarKind::Type => "ty".to_string(),
                VarKind::EnumRows { excluded } => {
                    let mut x: Vec<String> = excluded.iter().map(|i| json_str(i.label())).collect();
                    x.sort();
                    format!("(erows {})", x.join(" "))
                }
                VarKind::RecordRows { excluded } => {
                    let mut x: Vec<String> = excluded.iter().map(|i| json_str(i.label())).collect();
                    x.sort();
                    format!("(rrows {})", x.join(" "))
                }
            };
            format!("(forall {} {k} {})", ident_str(var), ty_sexp(body))
        }
        TypeF::Enum(erows) => {
            let mut rows = Vec::new();
            let tail = erows_sexp(erows, &mut rows);
            format!("(enum ({}) {tail})", rows.join(" "))
        }
        TypeF::Record(rrows) => {
            let mut rows = Vec::new();
            let tail = rrows_sexp(rrows, &mut rows);
            format!("(rec ({}) {tail})", rows.join(" "))
        }
        TypeF::Dict { type_fields, flavour } => {
            format!("(dict {} {})", format!("{flavour:?}").to_lowercase(), ty_sexp(type_fields))
        }
        TypeF::Array(t) => format!("(arr {})", ty_sexp(t)),
        TypeF::Wildcard(i) => format!("(wild {i})"),
    }
}

fn erows_sexp(r: &EnumRows<'_>, out: &mut Vec<String>) -> String {
    match &r.0 {
        EnumRowsF::Empty => "closed".into(),
        EnumRowsF::TailVar(id) => format!("(var {})", ident_str(id)),
        EnumRowsF::Extend { row, tail } => {
            match &row.typ {
                None => out.push(format!("({})", ident_str(&row.id))),
                Some(t) => out.push(format!("({} {})", ident_str(&row.id), ty_sexp(t))),
            }
            erows_sexp(tail, out)
        }
    }
}

fn rrows_sexp(r: &RecordRows<'_>, out: &mut Vec<String>) -> String {
    match &r.0 {
        RecordRowsF::Empty => "closed".into(),
        RecordRowsF::TailDyn => "dyn".into(),
        RecordRowsF::TailVar(id) => format!("(var {})", ident_str(id)),
        RecordRowsF::Extend { row, tail } => {
            out.push(format!("({} {})", ident_str(&row.id), ty_sexp(row.typ)));
            rrows_sexp(tail, out)
        }
    }
}

fn node_kind(n: &Node<'_>) -> &'static str {
    match n {
        Node::Null => "Null",
        Node::Bool(_) => "Bool",
        Node::Number(_) => "Number",
        Node::String(_) => "String",
        Node::StringChunks(_) => "StringChunks",
        Node::Fun { .. } => "Fun",
        Node::Let { .. } => "Let",
        Node::App { .. } => "App",
        Node::Var(_) => "Var",
        Node::EnumVariant { .. } => "EnumVariant",
        Node::Record(_) => "Record",
        Node::IfThenElse { .. } => "IfThenElse",
        Node::Match(_) => "Match",
        Node::Array(_) => "Array",
        Node::PrimOpApp { .. } => "PrimOpApp",
        Node::Annotated { .. } => "Annotated",
        Node::Import(_) => "Import",
        Node::Type(_) => "Type",
        Node::ParseError(_) => "ParseError",
    }
}

#[derive(Default)]
struct Collector<'ast> {
    terms: Vec<(&'ast Ast<'ast>, UnifType<'ast>)>,
    idents: Vec<(LocIdent, UnifType<'ast>)>,
}

impl<'ast> TypecheckVisitor<'ast> for Collector<'ast> {
    fn visit_term(&mut self, ast: &'ast Ast<'ast>, ty: UnifType<'ast>) {
        self.terms.push((ast, ty));
    }
    fn visit_ident(&mut self, ident: &LocIdent, new_type: UnifType<'ast>) {
        self.idents.push((*ident, new_type));
    }
}

struct NoImports;
impl AstImportResolver for NoImports {
    fn resolve<'ast_out>(
        &'ast_out mut self,
        _import: &nickel_lang_core::ast::Import<'_>,
        _pos: &TermPos,
    ) -> Result<Option<&'ast_out Ast<'ast_out>>, ImportErrorKind> {
        Ok(None)
    }
}

struct TcEnv<'ast> {
    alloc: &'ast AstAlloc,
    files: Files,
    ctxt: Context<'ast>,
}

fn parse<'ast>(alloc: &'ast AstAlloc, id: FileId, s: &str) -> Result<Ast<'ast>, String> {
    grammar::TermParser::new()
        .parse_strict(alloc, id, lexer::Lexer::new(s))
        .map_err(|e| format!("{e:?}").chars().take(300).collect())
}

fn tc_env<'ast>(alloc: &'ast AstAlloc) -> TcEnv<'ast> {
    let mut files = Files::empty();
    let mut mods = Vec::new();
    for m in nickel_lang_core::stdlib::modules() {
        let id = files.add(m.file_name(), m.content().to_string());
        let ast = parse(alloc, id, m.content()).expect("stdlib parses");
        mods.push((m, &*alloc.alloc(ast)));
    }
    let ctxt = mk_initial_ctxt(alloc, mods.into_iter().map(|(m, a): (StdlibModule, &'ast Ast<'ast>)| (m, a)))
        .expect("initial context");
    TcEnv { alloc, files, ctxt }
}

fn span_of(pos: &TermPos) -> Option<(u32, u32, FileId)> {
    match pos {
        TermPos::Original(sp) | TermPos::Inherited(sp) => Some((sp.start.0, sp.end.0, sp.src_id)),
        TermPos::None => None,
    }
}

fn tc_one<'ast>(env: &mut TcEnv<'ast>, src: &str, enforce: bool) -> String {
    let alloc = env.alloc;
    let id = env.files.add("<verif>", src.to_string());
    let ast: &'ast Ast<'ast> = match parse(alloc, id, src) {
        Ok(a) => alloc.alloc(a),
        Err(e) => return format!("ERR Parse -- {e}"),
    };
    let mut coll = Collector::default();
    let mode = if enforce { TypecheckMode::Enforce } else { TypecheckMode::Walk };
    let res = typecheck_visit(alloc, ast, env.ctxt.clone(), &mut NoImports, &mut coll, mode);
    let tables: TypeTables<'ast> = match res {
        Ok(t) => t,
        Err(e) => {
            let s: String = format!("{e:?}").replace('\n', " ").chars().take(400).collect();
            return format!("ERR Typecheck -- {s}");
        }
    };
    let mut reg = NameReg::new(tables.names.clone());
    let mut out = String::new();
    let mut n = 0;
    // later visits of the same node override earlier ones: keep the last per (span, kind)
    let mut seen: std::collections::HashMap<(u32, u32, &'static str), usize> = Default::default();
    let mut rows: Vec<String> = Vec::new();
    for (ast, uty) in coll.terms.into_iter() {
        // nodes without a position (built by the parser's desugarings) are reported as (0 0 ..)
        let (s, e) = match span_of(&ast.pos) {
            Some((s, e, fid)) if fid == id => (s, e),
            Some(_) => continue,
            None => (0, 0),
        };
        let ty = uty.to_type(alloc, &mut reg, &tables.table);
        let ty = match ty.typ {
            TypeF::Wildcard(i) => tables.wildcards.get(i).cloned().unwrap_or(ty),
            _ => ty,
        };
        let k = node_kind(&ast.node);
        let row = format!("({s} {e} {k} {})", ty_sexp(&ty));
        match seen.get(&(s, e, k)) {
            Some(i) => rows[*i] = row,
            None => {
                seen.insert((s, e, k), rows.len());
                rows.push(row);
                n += 1;
            }
        }
    }
    for r in rows {
        out.push(' ');
        out.push_str(&r);
    }
    out.push_str(" |");
    for (idn, uty) in coll.idents.into_iter() {
        let Some((s, e, fid)) = span_of(&idn.pos) else { continue };
        if fid != id {
            continue;
        }
        let ty = uty.to_type(alloc, &mut reg, &tables.table);
        out.push_str(&format!(" (id {s} {e} {} {})", ident_str(&idn), ty_sexp(&ty)));
    }
    format!("OK {n}{out}")
}

// ---------------------------------------------------------------------------------------- main

fn main() {
    std::panic::set_hook(Box::new(|_| {}));
    // the typechecking environment lives on a big-stack thread fed through channels, because the
    // AST arena is not Send
    let (tx, rx) = std::sync::mpsc::channel::<(String, bool)>();
    let (rtx, rrx) = std::sync::mpsc::channel::<String>();
    let _tc_thread = std::thread::Builder::new()
        .stack_size(512 << 20)
        .spawn(move || {
            let alloc = AstAlloc::new();
            let mut env: Option<TcEnv<'_>> = None;
            while let Ok((src, enforce)) = rx.recv() {
                if env.is_none() {
                    env = Some(tc_env(&alloc));
                }
                let e = env.as_mut().unwrap();
                let r = std::panic::catch_unwind(std::panic::AssertUnwindSafe(|| tc_one(e, &src, enforce)))
                    .unwrap_or_else(|_| "ERR Panic -- typechecker panicked".to_string());
                if rtx.send(r).is_err() {
                    break;
                }
            }
        })
        .unwrap();

    let stdin = std::io::stdin();
    let stdout = std::io::stdout();
    let mut w = std::io::BufWriter::new(stdout.lock());
    for line in stdin.lock().lines() {
        let line = line.unwrap();
        let (mode, prog) = line.split_once('\t').unwrap_or(("ev", &line));
        let mut flags = mode.split(',');
        let kind = flags.next().unwrap_or("ev");
        let src = unescape(prog);
        let out = match kind {
            "tc" => {
                let enforce = flags.any(|f| f == "enforce");
                tx.send((src, enforce)).unwrap();
                rrx.recv().unwrap_or_else(|_| "ERR Panic -- typechecker thread died".into())
            }
            _ => {
                let mut o = Opts::default();
                for f in flags {
                    match f {
                        "notc" => o.typecheck = false,
                        "full" => o.mode = Mode::Full,
                        "static-full" => o.full_static = true,
                        _ => {
                            if let Some(n) = f.strip_prefix("fuel=") {
                                o.fuel = n.parse().unwrap();
                            }
                        }
                    }
                }
                on_big_stack(move || ev_inner(&src, &o))
            }
        };
        writeln!(w, "{}", out).unwrap();
        w.flush().unwrap();
    }
}
