//! C17 harness: replays operation histories over families of `Vector`/`Slice` handles.
//! stdin: one case per line `<B> <op>,<op>,...`; stdout: one line per case.
//! After every operation prints `<result>;<digest of every live handle>~<digest of its tree>`, and
//! at the end the full contents and trees.  The tree of a handle is read off the derived `Debug`
//! output of `Vector`/`Slice` (node structure, chunk contents, `length`, `height`, `start`, `end`),
//! so the model is compared with the implementation on the *representation*, not only on the
//! contents.  Every handle is shadowed by a `Vec<u32>` twin (direct oracle); a mismatch or a
//! failed `check_invariants()` is flagged with `!TWIN` / `!INV` in the output.
use nickel_lang_vector::{Slice, Vector};
use std::io::{BufRead, Write};
use std::panic::{AssertUnwindSafe, catch_unwind};

fn digest(xs: &[u32]) -> String {
    let mut h: u64 = 7;
    for x in xs {
        h = (h * 31 + (*x as u64) + 1) % 1_000_000_007;
    }
    format!("{}:{}", xs.len(), h)
}

/// Text of the representation: the derived `Debug` output of `Vector`/`Slice`, e.g.
/// `Vector { root: Some(Interior { children: Chunk[Leaf { data: Chunk[1, 2] }, Leaf { data: Chunk[3] }] }), length: 3, height: 1 }`.
/// The model driver (ocaml/c17/driver.ml) prints the same text for its trees.
fn shape<T: std::fmt::Debug>(x: &T) -> String {
    format!("{:?}", x).replace(' ', "") // printed in the END section only; spaces separate fields there
}

/// Rolling hash of the `Debug` text, computed while it is being written (no allocation).
struct HashWriter(u64);
impl std::fmt::Write for HashWriter {
    fn write_str(&mut self, s: &str) -> std::fmt::Result {
        let mut h = self.0;
        for b in s.bytes() {
            h = (h * 131 + (b as u64)) % 1_000_000_007;
        }
        self.0 = h;
        Ok(())
    }
}

fn sdigest<T: std::fmt::Debug>(x: &T) -> u64 {
    use std::fmt::Write;
    let mut w = HashWriter(5);
    write!(w, "{:?}", x).unwrap();
    w.0
}

fn parse_list(s: &str) -> Vec<u32> {
    if s.is_empty() {
        vec![]
    } else {
        s.split('.').map(|x| x.parse().unwrap()).collect()
    }
}

macro_rules! runner {
    ($name:ident, $n:expr) => {
        fn $name(ops: &str) -> String {
            let mut vs: Vec<Option<(Vector<u32, $n>, Vec<u32>)>> = Vec::new();
            let mut ss: Vec<Option<(Slice<u32, $n>, Vec<u32>)>> = Vec::new();
            let mut out = String::new();
            for op in ops.split(',').filter(|o| !o.is_empty()) {
                let kind = &op[0..2];
                let args: Vec<&str> = op[2..].split(':').collect();
                let k: usize = args.get(0).and_then(|a| a.parse().ok()).unwrap_or(0);
                let a1 = args.get(1).copied().unwrap_or("");
                let a2 = args.get(2).copied().unwrap_or("");
                let num = |s: &str| -> usize { s.parse().unwrap() };
                let res: String = match kind {
                    "vn" => { vs.push(Some((Vector::new(), vec![]))); "ok".into() }
                    "sn" => { ss.push(Some((Slice::default(), vec![]))); "ok".into() }
                    "vf" => { let l = parse_list(a1); vs.push(Some((l.iter().copied().collect(), l))); "ok".into() }
                    "sf" => { let l = parse_list(a1); ss.push(Some((l.iter().copied().collect(), l))); "ok".into() }
                    _ if kind.starts_with('v') => {
                        if k >= vs.len() || vs[k].is_none() { "dead".into() } else {
                            if kind == "vc" { let c = vs[k].clone(); vs.push(c); "ok".into() }
                            else if kind == "vd" { vs[k] = None; "ok".into() }
                            else {
                                let (v, t) = vs[k].as_mut().unwrap();
                                match kind {
                                    "vp" => { let x = num(a1) as u32; v.push(x); t.push(x); "ok".into() }
                                    "vo" => { let r = v.pop(); let e = t.pop(); if r != e { "!TWIN".into() } else { match r { Some(x) => format!("some{x}"), None => "none".into() } } }
                                    "vs" => {
                                        let (i, x) = (num(a1), num(a2) as u32);
                                        match catch_unwind(AssertUnwindSafe(|| v.set(i, x))) {
                                            Ok(()) => { if i < t.len() { t[i] = x; } "ok".into() }
                                            Err(_) => "panic".into(),
                                        }
                                    }
                                    "vg" => { let i = num(a1); let r = v.get(i).copied(); if r != t.get(i).copied() { "!TWIN".into() } else { match r { Some(x) => format!("some{x}"), None => "none".into() } } }
                                    "vt" => { let n = num(a1); v.truncate(n); t.truncate(n); "ok".into() }
                                    "ve" => { let l = parse_list(a1); v.extend(l.iter().copied()); t.extend(l); "ok".into() }
                                    "vm" => {
                                        // iter_mut_starting_at(i): every element handed out is bumped by d (mod 10)
                                        let (i, d) = (num(a1), num(a2) as u32);
                                        match catch_unwind(AssertUnwindSafe(|| { for x in v.iter_mut_starting_at(i) { *x = (*x + d) % 10; } })) {
                                            Ok(()) => { if i <= t.len() { for x in t[i..].iter_mut() { *x = (*x + d) % 10; } } "ok".into() }
                                            Err(_) => "panic".into(),
                                        }
                                    }
                                    "va" => { let d = num(a1) as u32; for x in v.iter_mut() { *x = (*x + d) % 10; } for x in t.iter_mut() { *x = (*x + d) % 10; } "ok".into() }
                                    "vi" => {
                                        let i = num(a1);
                                        match catch_unwind(AssertUnwindSafe(|| v.iter_starting_at(i).copied().collect::<Vec<u32>>())) {
                                            Ok(l) => { if i <= t.len() && l != t[i..] { "!TWIN".into() } else { format!("it{}", digest(&l)) } }
                                            Err(_) => "panic".into(),
                                        }
                                    }
                                    _ => "badop".into(),
                                }
                            }
                        }
                    }
                    _ => {
                        if k >= ss.len() || ss[k].is_none() { "dead".into() } else {
                            if kind == "sc" { let c = ss[k].clone(); ss.push(c); "ok".into() }
                            else if kind == "sd" { ss[k] = None; "ok".into() }
                            else if kind == "sx" {
                                let j = num(a1);
                                if j >= ss.len() || ss[j].is_none() { "dead".into() } else {
                                    let src = ss[j].clone().unwrap();
                                    let (s, t) = ss[k].as_mut().unwrap();
                                    s.extend(src.0.into_iter());
                                    t.extend(src.1);
                                    "ok".into()
                                }
                            }
                            else {
                                let (s, t) = ss[k].as_mut().unwrap();
                                match kind {
                                    "sp" => { let x = num(a1) as u32; s.push(x); t.push(x); "ok".into() }
                                    "so" => { let r = s.pop(); let e = t.pop(); if r != e { "!TWIN".into() } else { match r { Some(x) => format!("some{x}"), None => "none".into() } } }
                                    "ss" => {
                                        let (i, x) = (num(a1), num(a2) as u32);
                                        match catch_unwind(AssertUnwindSafe(|| s.set(i, x))) {
                                            Ok(()) => { if i < t.len() { t[i] = x; } "ok".into() }
                                            Err(_) => "panic".into(),
                                        }
                                    }
                                    "sg" => { let i = num(a1); let r = s.get(i).copied(); let e = t.get(i).copied();
                                              if r != e { "!TWIN".into() } else { match r { Some(x) => format!("some{x}"), None => "none".into() } } }
                                    "sl" => {
                                        let (a, b) = (num(a1), num(a2));
                                        match catch_unwind(AssertUnwindSafe(|| s.slice(a, b))) {
                                            Ok(()) => { *t = t[a..b].to_vec(); "ok".into() }
                                            Err(_) => "panic".into(),
                                        }
                                    }
                                    "se" => { let l = parse_list(a1); s.extend(l.iter().copied()); t.extend(l); "ok".into() }
                                    "sm" => { let d = num(a1) as u32; for x in s.iter_mut() { *x = (*x + d) % 10; } for x in t.iter_mut() { *x = (*x + d) % 10; } "ok".into() }
                                    "si" => { let l: Vec<u32> = s.iter().copied().collect(); if &l != t { "!TWIN".into() } else { format!("it{}", digest(&l)) } }
                                    _ => "badop".into(),
                                }
                            }
                        }
                    }
                };
                out.push_str(&res);
                out.push(';');
                // state after the operation: every live handle, checked against its twin
                for (i, h) in vs.iter().enumerate() {
                    if let Some((v, t)) = h {
                        let l: Vec<u32> = v.iter().copied().collect();
                        if &l != t || v.len() != t.len() { out.push_str("!TWIN"); }
                        let l2: Vec<u32> = v.clone().into_iter().collect();
                        if l2 != l { out.push_str("!TWIN"); }
                        if catch_unwind(AssertUnwindSafe(|| v.check_invariants())).is_err() { out.push_str("!INV"); }
                        out.push_str(&format!("v{i}={}~{}|", digest(&l), sdigest(v)));
                    }
                }
                for (i, h) in ss.iter().enumerate() {
                    if let Some((s, t)) = h {
                        let l: Vec<u32> = s.iter().copied().collect();
                        if &l != t || s.len() != t.len() { out.push_str("!TWIN"); }
                        let l2: Vec<u32> = s.clone().into_iter().collect();
                        if l2 != l { out.push_str("!TWIN"); }
                        out.push_str(&format!("s{i}={}~{}|", digest(&l), sdigest(s)));
                    }
                }
                out.push(' ');
            }
            out.push_str("END ");
            for (i, h) in vs.iter().enumerate() {
                if let Some((v, _)) = h {
                    let l: Vec<String> = v.iter().map(|x| x.to_string()).collect();
                    out.push_str(&format!("v{i}=[{}]~{}|", l.join("."), shape(v)));
                }
            }
            for (i, h) in ss.iter().enumerate() {
                if let Some((s, _)) = h {
                    let l: Vec<String> = s.iter().map(|x| x.to_string()).collect();
                    out.push_str(&format!("s{i}=[{}]~{}|", l.join("."), shape(s)));
                }
            }
            out
        }
    };
}

runner!(run2, 2);
runner!(run4, 4);
runner!(run8, 8);
runner!(run32, 32);

fn main() {
    std::panic::set_hook(Box::new(|_| {}));
    let stdin = std::io::stdin();
    let stdout = std::io::stdout();
    let mut w = std::io::BufWriter::new(stdout.lock());
    for line in stdin.lock().lines() {
        let line = line.unwrap();
        let (b, ops) = line.split_once(' ').unwrap_or((&line, ""));
        let r = catch_unwind(|| match b {
            "2" => run2(ops),
            "4" => run4(ops),
            "8" => run8(ops),
            "32" => run32(ops),
            _ => "badB".to_string(),
        });
        match r {
            Ok(s) => writeln!(w, "{s}").unwrap(),
            Err(_) => writeln!(w, "PANIC-UNCAUGHT").unwrap(),
        }
    }
}
