//! Generic evaluator: one request per stdin line, one outcome per stdout line.
//! Line format: `<flags>\t<program>` where the program has newlines/backslashes escaped as
//! `\n` / `\\`, and flags is a comma-separated subset of
//! `full,static-full,nodedup,depsunknown,notc,order,detail,fuel=<n>,field=<path>,fmt=json|yaml|toml`.
use std::io::{BufRead, Write};
use verif_harness::eval::{Mode, Opts, run, unescape};

fn main() {
    std::panic::set_hook(Box::new(|_| {}));
    let stdin = std::io::stdin();
    let stdout = std::io::stdout();
    let mut w = std::io::BufWriter::new(stdout.lock());
    for line in stdin.lock().lines() {
        let line = line.unwrap();
        let (flags, prog) = line.split_once('\t').unwrap_or(("", &line));
        let mut o = Opts::default();
        let mut detail = false;
        for f in flags.split(',').filter(|f| !f.is_empty()) {
            match f {
                "full" => o.mode = Mode::Full,
                "static-full" => o.full_static = true,
                "nodedup" => o.no_dedup = true,
                "depsunknown" => o.deps_unknown = true,
                "notc" => o.typecheck = false,
                "order" => o.keep_order = true,
                "detail" => detail = true,
                "trace" => o.capture_trace = true,
                _ => {
                    if let Some(n) = f.strip_prefix("fuel=") {
                        o.fuel = n.parse().unwrap();
                    } else if let Some(p) = f.strip_prefix("field=") {
                        o.field = Some(p.to_owned());
                    } else if let Some(p) = f.strip_prefix("pending=") {
                        o.pending_of = Some(p.to_owned());
                    } else if let Some(p) = f.strip_prefix("fmt=") {
                        use nickel_lang_core::serialize::ExportFormat;
                        o.text_format = match p {
                            "json" => Some(ExportFormat::Json),
                            "yaml" => Some(ExportFormat::Yaml),
                            "toml" => Some(ExportFormat::Toml),
                            _ => None,
                        };
                    }
                }
            }
        }
        let out = run(&unescape(prog), &o);
        writeln!(w, "{}", if detail { out.line_detail() } else { out.line() }).unwrap();
        w.flush().unwrap();
    }
}
