//! C19 harness: drives the real `nls` binary over JSON-RPC (same wire protocol as
//! /repo/lsp/lsp-harness: initialize with `eval_config.disable = true`, didOpen / didChange /
//! didClose notifications, pull diagnostics, hover / definition / references / completion /
//! documentSymbol requests, shutdown + exit).
//!
//! usage: c19 <path-to-nls> [--no-oracle] [--state] [--scratch <dir>]
//! stdin : one case per line   `<N> <disk> <ops>`
//!            disk := `-` | `<p>=<content>,...`          (files that exist on disk, fixed)
//!            ops  := `O<p>=<content>` | `C<p>=<content>` | `X<p>`   comma separated
//!            content := `<vid>/<i1.i2...>/<o|t|p>`      (text id / import targets / ok, type error, parse error)
//! stdout: one JSON object per case:
//!   state   (with --state, hook H8) the bookkeeping state after every step, canonical text, ` || ` separated
//!   trace   per step, the sorted multiset of publishDiagnostics notifications as classes
//!           (what the Coq model predicts), steps separated by `;`
//!   crash   null | {step, kind: overflow|panic|other, stderr}
//!   oracle  {checked, diffs:[..], order_dependent}   history server vs freshly started server(s)
//!           shown the final documents (direct oracle, needs no model)
//!
//! Protocol for "files on disk": the disk is fixed for the whole case (didChange never writes
//! files).  The fresh server is shown the final state as: didOpen(final buffer) for every path
//! that is open at the end, in path order; then didOpen(text on disk) for every path that was
//! touched by the history, is closed at the end and exists on disk (a buffer equal to the file:
//! the same document; it is not closed again so that the fresh server never runs close_file).
//! Paths that are neither open nor on disk at the end are not compared.
use serde_json::{Value, json};
use std::fs;
use std::io::{BufRead, BufReader, Read, Write};
use std::path::{Path, PathBuf};
use std::process::{Child, ChildStdin, ChildStdout, Command, Stdio};

#[derive(Clone, Debug)]
struct Content {
    vid: u32,
    imports: Vec<usize>,
    status: char,
}

#[derive(Clone, Debug)]
enum Op {
    Open(usize, Content),
    Change(usize, Content),
    Close(usize),
}

struct Case {
    n: usize,
    disk: Vec<Option<Content>>,
    ops: Vec<Op>,
}

fn parse_content(s: &str) -> Content {
    let parts: Vec<&str> = s.split('/').collect();
    Content {
        vid: parts[0].parse().unwrap(),
        imports: if parts[1].is_empty() {
            vec![]
        } else {
            parts[1].split('.').map(|x| x.parse().unwrap()).collect()
        },
        status: parts[2].chars().next().unwrap(),
    }
}

fn parse_case(line: &str) -> Case {
    let toks: Vec<&str> = line.split_whitespace().collect();
    let n: usize = toks[0].parse().unwrap();
    let mut disk = vec![None; n];
    if toks[1] != "-" {
        for e in toks[1].split(',') {
            let (p, c) = e.split_once('=').unwrap();
            disk[p.parse::<usize>().unwrap()] = Some(parse_content(c));
        }
    }
    let mut ops = vec![];
    if toks.len() > 2 {
        for e in toks[2].split(',').filter(|e| !e.is_empty()) {
            let kind = &e[0..1];
            let rest = &e[1..];
            match kind {
                "X" => ops.push(Op::Close(rest.parse().unwrap())),
                _ => {
                    let (p, c) = rest.split_once('=').unwrap();
                    let p = p.parse().unwrap();
                    let c = parse_content(c);
                    ops.push(if kind == "O" { Op::Open(p, c) } else { Op::Change(p, c) });
                }
            }
        }
    }
    Case { n, disk, ops }
}

fn name(p: usize) -> String {
    ((b'a' + p as u8) as char).to_string()
}

/// The text of a document version.  Imports come first (in order), the type / parse error after
/// them, so the typechecker reaches every import before the error.
fn text(p: usize, c: &Content) -> String {
    let mut s = String::new();
    for (k, q) in c.imports.iter().enumerate() {
        s += &format!("let i{} = import \"{}.ncl\" in\n", k, name(*q));
    }
    s += &format!("{{\n  name = \"{}\",\n  version = {},\n  extra_{} = {},\n", name(p), c.vid, c.vid, c.vid);
    s += match c.status {
        't' => "  val = (1 : String),\n",
        'p' => "  val = 1 +,\n",
        _ => "  val = 1,\n",
    };
    for (k, q) in c.imports.iter().enumerate() {
        s += &format!("  from_{}_{} = i{}.val,\n  ver_{}_{} = i{}.version,\n", name(*q), k, k, name(*q), k, k);
    }
    s += "}\n";
    s
}

struct Dead;

struct Nls {
    child: Child,
    stdin: ChildStdin,
    stdout: BufReader<ChildStdout>,
    id: u64,
    notes: Vec<Value>,
    stderr_path: PathBuf,
}

impl Nls {
    fn start(exe: &str, dir: &Path, tag: &str) -> Result<Nls, Dead> {
        let stderr_path = dir.join(format!("stderr-{tag}.log"));
        let errf = fs::File::create(&stderr_path).unwrap();
        let mut child = Command::new(exe)
            .stdin(Stdio::piped())
            .stdout(Stdio::piped())
            .stderr(Stdio::from(errf))
            .env_remove("NICKEL_IMPORT_PATH")
            .env_remove("RUST_LOG")
            .current_dir(dir)
            .spawn()
            .expect("cannot spawn nls");
        let stdin = child.stdin.take().unwrap();
        let stdout = BufReader::new(child.stdout.take().unwrap());
        let mut s = Nls { child, stdin, stdout, id: 0, notes: vec![], stderr_path };
        s.request(
            "initialize",
            json!({"processId": null, "rootUri": null, "capabilities": {},
                   "initializationOptions": {"eval_config": {"disable": true}}}),
        )?;
        s.notify("initialized", json!({}))?;
        Ok(s)
    }

    fn send(&mut self, v: &Value) -> Result<(), Dead> {
        let b = serde_json::to_vec(v).unwrap();
        let hdr = format!("Content-Length: {}\r\n\r\n", b.len());
        self.stdin.write_all(hdr.as_bytes()).map_err(|_| Dead)?;
        self.stdin.write_all(&b).map_err(|_| Dead)?;
        self.stdin.flush().map_err(|_| Dead)
    }

    fn recv(&mut self) -> Result<Value, Dead> {
        let mut len: Option<usize> = None;
        loop {
            let mut line = String::new();
            let n = self.stdout.read_line(&mut line).map_err(|_| Dead)?;
            if n == 0 {
                return Err(Dead);
            }
            if line == "\r\n" {
                break;
            }
            if let Some((k, v)) = line.trim().split_once(": ") {
                if k == "Content-Length" {
                    len = v.parse().ok();
                }
            }
        }
        let len = len.ok_or(Dead)?;
        let mut buf = vec![0u8; len];
        self.stdout.read_exact(&mut buf).map_err(|_| Dead)?;
        serde_json::from_slice(&buf).map_err(|_| Dead)
    }

    fn request(&mut self, method: &str, params: Value) -> Result<Value, Dead> {
        self.id += 1;
        let id = self.id;
        self.send(&json!({"jsonrpc": "2.0", "id": id, "method": method, "params": params}))?;
        loop {
            let m = self.recv()?;
            if m.get("method").is_none() && m.get("id").and_then(|x| x.as_u64()) == Some(id) {
                return Ok(if m.get("error").is_some() {
                    json!({"error": m["error"]["message"]})
                } else {
                    m.get("result").cloned().unwrap_or(Value::Null)
                });
            }
            self.notes.push(m);
        }
    }

    fn notify(&mut self, method: &str, params: Value) -> Result<(), Dead> {
        self.send(&json!({"jsonrpc": "2.0", "method": method, "params": params}))
    }

    /// Waits until the server has processed everything sent so far; returns the
    /// publishDiagnostics notifications received meanwhile.
    fn barrier(&mut self, dir: &Path) -> Result<Vec<Value>, Dead> {
        let uri = format!("file://{}/__barrier__.ncl", dir.display());
        self.request("textDocument/diagnostic", json!({"textDocument": {"uri": uri}}))?;
        let notes = std::mem::take(&mut self.notes);
        Ok(notes
            .into_iter()
            .filter(|n| n.get("method").and_then(|m| m.as_str()) == Some("textDocument/publishDiagnostics"))
            .map(|n| n["params"].clone())
            .collect())
    }

    fn finish(mut self) -> (Option<i32>, String) {
        let ok = self.request("shutdown", Value::Null).is_ok() && self.notify("exit", Value::Null).is_ok();
        let mut code = None;
        let mut waited = 0;
        loop {
            match self.child.try_wait() {
                Ok(Some(st)) => {
                    code = st.code().or(Some(-1));
                    break;
                }
                Ok(None) => {
                    if waited > 12000 {
                        // one minute after `exit`: report it (exit code None), do not wait forever
                        let _ = self.child.kill();
                        let _ = self.child.wait();
                        break;
                    }
                    std::thread::sleep(std::time::Duration::from_millis(5));
                    waited += 1;
                }
                Err(_) => break,
            }
        }
        let _ = ok;
        let err = fs::read_to_string(&self.stderr_path).unwrap_or_default();
        (code, err)
    }
}

fn uri(dir: &Path, p: usize) -> String {
    format!("file://{}/{}.ncl", dir.display(), name(p))
}

fn apply(s: &mut Nls, dir: &Path, op: &Op, version: &mut i64) -> Result<(), Dead> {
    *version += 1;
    match op {
        Op::Open(p, c) => s.notify(
            "textDocument/didOpen",
            json!({"textDocument": {"uri": uri(dir, *p), "languageId": "nickel", "version": *version, "text": text(*p, c)}}),
        ),
        Op::Change(p, c) => s.notify(
            "textDocument/didChange",
            json!({"textDocument": {"uri": uri(dir, *p), "version": *version}, "contentChanges": [{"text": text(*p, c)}]}),
        ),
        Op::Close(p) => s.notify("textDocument/didClose", json!({"textDocument": {"uri": uri(dir, *p)}})),
    }
}

fn path_index(s: &str) -> String {
    // "....../b.ncl" or "b.ncl" -> "1"
    let base = s.rsplit('/').next().unwrap_or(s);
    let stem = base.strip_suffix(".ncl").unwrap_or(base);
    if stem.len() == 1 {
        let c = stem.as_bytes()[0];
        if c.is_ascii_lowercase() {
            return ((c - b'a') as usize).to_string();
        }
    }
    format!("?{base}")
}

/// Diagnostic classes of the model: P, T, M<q>, IP<q>, IT<q>; labels/hints are dropped.
fn classify(d: &Value) -> Option<String> {
    let msg = d["message"].as_str().unwrap_or("");
    let sev = d["severity"].as_u64().unwrap_or(1);
    if sev >= 3 {
        return None;
    }
    if let Some(rest) = msg.strip_prefix("import of ") {
        let (file, why) = rest.split_once(" failed: ").unwrap_or((rest, ""));
        let q = path_index(file);
        return Some(if why.contains("could not find import") {
            format!("M{q}")
        } else if why.contains("could not be parsed") {
            format!("IP{q}")
        } else if why.contains("failed to typecheck") {
            format!("IT{q}")
        } else {
            format!("U:import:{}", &why.chars().take(40).collect::<String>())
        });
    }
    if msg.starts_with("incompatible types") {
        return Some("T".into());
    }
    if msg.starts_with("unexpected token") || msg.starts_with("unexpected end of file") {
        return Some("P".into());
    }
    Some(format!("U:{}", msg.chars().take(40).collect::<String>().replace(['\n', ';', ',', '|'], " ")))
}

fn classes(diags: &Value) -> String {
    let mut v: Vec<String> = diags.as_array().map(|a| a.iter().filter_map(classify).collect()).unwrap_or_default();
    v.sort();
    v.join("+")
}

fn canon(v: &Value, dir: &Path) -> String {
    // canonical text of an answer: scratch dir replaced, arrays of locations / items sorted (duplicates kept)
    fn norm(v: &Value) -> Value {
        match v {
            Value::Array(a) => {
                let mut xs: Vec<Value> = a.iter().map(norm).collect();
                xs.sort_by_key(|x| x.to_string());
                Value::Array(xs)
            }
            Value::Object(o) => Value::Object(o.iter().map(|(k, x)| (k.clone(), norm(x))).collect()),
            _ => v.clone(),
        }
    }
    norm(v).to_string().replace(&dir.display().to_string(), "$D")
}

/// Positions of every identifier start (and the position after it) in the text.
fn ident_positions(t: &str) -> Vec<(u32, u32)> {
    let mut res = vec![];
    for (ln, line) in t.lines().enumerate() {
        let b = line.as_bytes();
        let mut i = 0;
        while i < b.len() {
            if b[i].is_ascii_alphabetic() || b[i] == b'_' {
                let st = i;
                while i < b.len() && (b[i].is_ascii_alphanumeric() || b[i] == b'_') {
                    i += 1;
                }
                res.push((ln as u32, st as u32));
            } else if b[i] == b'"' {
                // inside the import string
                res.push((ln as u32, i as u32 + 1));
                i += 1;
                while i < b.len() && b[i] != b'"' {
                    i += 1;
                }
                i += 1;
            } else {
                i += 1;
            }
        }
    }
    res
}

struct Final {
    open: Vec<Option<Content>>, // final buffers
    touched: Vec<bool>,
}

fn final_state(case: &Case) -> Final {
    let mut open: Vec<Option<Content>> = vec![None; case.n];
    let mut touched = vec![false; case.n];
    for op in &case.ops {
        match op {
            Op::Open(p, c) => {
                open[*p] = Some(c.clone());
                touched[*p] = true;
            }
            Op::Change(p, c) => {
                // a change of a document that is not open is ignored by a conforming client; the
                // generator never produces it
                open[*p] = Some(c.clone());
                touched[*p] = true;
            }
            Op::Close(p) => open[*p] = None,
        }
    }
    Final { open, touched }
}

/// All answers of a server about the final documents, as (label, canonical text).
fn observe(s: &mut Nls, dir: &Path, case: &Case, fin: &Final) -> Result<Vec<(String, String)>, Dead> {
    let mut out = vec![];
    for p in 0..case.n {
        let shown = fin.open[p].is_some() || (fin.touched[p] && case.disk[p].is_some());
        if !shown {
            continue;
        }
        let r = s.request("textDocument/diagnostic", json!({"textDocument": {"uri": uri(dir, p)}}))?;
        out.push((format!("diag {}", name(p)), canon(&r["items"], dir)));
    }
    for p in 0..case.n {
        let Some(c) = &fin.open[p] else { continue };
        let t = text(p, c);
        let u = uri(dir, p);
        let r = s.request("textDocument/documentSymbol", json!({"textDocument": {"uri": u}}))?;
        out.push((format!("symbols {}", name(p)), canon(&r, dir)));
        for (l, ch) in ident_positions(&t) {
            let pos = json!({"line": l, "character": ch});
            let r = s.request("textDocument/hover", json!({"textDocument": {"uri": u}, "position": pos}))?;
            out.push((format!("hover {} {}:{}", name(p), l, ch), canon(&r, dir)));
            let r = s.request("textDocument/definition", json!({"textDocument": {"uri": u}, "position": pos}))?;
            out.push((format!("definition {} {}:{}", name(p), l, ch), canon(&r, dir)));
            let r = s.request(
                "textDocument/references",
                json!({"textDocument": {"uri": u}, "position": pos, "context": {"includeDeclaration": true}}),
            )?;
            out.push((format!("references {} {}:{}", name(p), l, ch), canon(&r, dir)));
            let r = s.request("textDocument/completion", json!({"textDocument": {"uri": u}, "position": pos}))?;
            out.push((format!("completion {} {}:{}", name(p), l, ch), canon(&r, dir)));
        }
    }
    Ok(out)
}

/// Canonical text of the `verif/state` dump (hook H8), in the format of the model driver:
/// a file id is named `<path>#<k>` = the k-th id allocated for that path.
fn canon_state(v: &Value) -> String {
    use std::collections::BTreeMap;
    let num = |s: &Value| -> u64 {
        s.as_str().unwrap_or("").chars().filter(|c| c.is_ascii_digit()).collect::<String>().parse().unwrap_or(0)
    };
    let mut by_path: BTreeMap<String, Vec<u64>> = BTreeMap::new();
    let mut vid: BTreeMap<u64, String> = BTreeMap::new();
    for f in v["files"].as_array().cloned().unwrap_or_default() {
        let id = num(&f["id"]);
        by_path.entry(path_index(f["path"].as_str().unwrap_or(""))).or_default().push(id);
        let src = f["src"].as_str().unwrap_or("");
        let ver = src
            .split("version = ")
            .nth(1)
            .map(|r| r.chars().take_while(|c| c.is_ascii_digit()).collect::<String>())
            .unwrap_or_default();
        vid.insert(id, ver);
    }
    let mut name: BTreeMap<u64, String> = BTreeMap::new();
    for (p, ids) in by_path.iter_mut() {
        ids.sort();
        for (k, id) in ids.iter().enumerate() {
            name.insert(*id, format!("{p}#{k}"));
        }
    }
    let nm = |id: u64| name.get(&id).cloned().unwrap_or(format!("?{id}"));
    let list = |a: &Value| -> String {
        let mut xs: Vec<String> = a.as_array().map(|a| a.iter().map(|x| nm(num(x))).collect()).unwrap_or_default();
        xs.sort();
        xs.join(".")
    };
    let mut out: Vec<String> = vec![];
    for (id, ver) in &vid {
        out.push(format!("F{}=v{}", nm(*id), ver));
    }
    for e in v["entries"].as_array().cloned().unwrap_or_default() {
        let k = match e["kind"].as_str().unwrap_or("") {
            "memory" => "m",
            "closed" => "c",
            _ => "f",
        };
        out.push(format!("E{}={}{}", path_index(e["path"].as_str().unwrap_or("")), nm(num(&e["id"])), k));
    }
    for a in v["analyses"].as_array().cloned().unwrap_or_default() {
        let mut cls: Vec<String> = a["diags"].as_array().map(|d| d.iter().filter_map(classify).collect()).unwrap_or_default();
        cls.sort();
        out.push(format!(
            "A{}={}/{}/{}",
            nm(num(&a["id"])),
            a["state"].as_str().unwrap_or("").to_lowercase(),
            if a["parse_errors"].as_u64().unwrap_or(0) > 0 { "perr" } else { "ok" },
            cls.join("+")
        ));
    }
    for i in v["imports"].as_array().cloned().unwrap_or_default() {
        let l = list(&i["targets"]);
        if !l.is_empty() {
            out.push(format!("I{}={}", nm(num(&i["id"])), l));
        }
    }
    for i in v["rev_imports"].as_array().cloned().unwrap_or_default() {
        let l = list(&i["importers"]);
        if !l.is_empty() {
            out.push(format!("R{}={}", nm(num(&i["id"])), l));
        }
    }
    for i in v["failed_imports"].as_array().cloned().unwrap_or_default() {
        let l = list(&i["importers"]);
        if !l.is_empty() {
            out.push(format!("X{}={}", path_index(i["name"].as_str().unwrap_or("")), l));
        }
    }
    for u in v["file_uris"].as_array().cloned().unwrap_or_default() {
        let id = num(&u["id"]);
        if name.contains_key(&id) {
            out.push(format!("U{}={}", nm(id), path_index(u["uri"].as_str().unwrap_or(""))));
        }
    }
    out.sort();
    out.join(" ")
}

fn clip(s: &str, n: usize) -> String {
    s.chars().take(n).collect()
}

/// For two answers that are JSON arrays: the elements (with multiplicity) that only one side has.
fn multiset_diff(a: &str, b: &str) -> (Value, Value) {
    let (Ok(Value::Array(xa)), Ok(Value::Array(xb))) = (serde_json::from_str::<Value>(a), serde_json::from_str::<Value>(b)) else {
        return (Value::Null, Value::Null);
    };
    let mut sa: Vec<String> = xa.iter().map(|x| x.to_string()).collect();
    let mut sb: Vec<String> = xb.iter().map(|x| x.to_string()).collect();
    sa.sort();
    sb.sort();
    let (mut i, mut j) = (0, 0);
    let (mut oa, mut ob) = (vec![], vec![]);
    while i < sa.len() || j < sb.len() {
        if j >= sb.len() || (i < sa.len() && sa[i] < sb[j]) {
            oa.push(clip(&sa[i], 300));
            i += 1;
        } else if i >= sa.len() || sb[j] < sa[i] {
            ob.push(clip(&sb[j], 300));
            j += 1;
        } else {
            i += 1;
            j += 1;
        }
    }
    (json!(oa), json!(ob))
}

fn crash_kind(err: &str) -> &'static str {
    if err.contains("overflowed its stack") || err.contains("stack overflow") {
        "overflow"
    } else if err.contains("panicked at") {
        "panic"
    } else {
        "other"
    }
}

fn tail(s: &str, n: usize) -> String {
    let cs: Vec<char> = s.chars().collect();
    cs[cs.len().saturating_sub(n)..].iter().collect()
}

fn fresh(exe: &str, dir: &Path, case: &Case, fin: &Final, reverse: bool, tag: &str) -> Result<Vec<(String, String)>, String> {
    let mut s = Nls::start(exe, dir, tag).map_err(|_| "fresh server did not start".to_string())?;
    let mut version = 0i64;
    let r = (|| -> Result<Vec<(String, String)>, Dead> {
        let mut order: Vec<usize> = (0..case.n).collect();
        if reverse {
            order.reverse();
        }
        for &p in &order {
            if let Some(c) = &fin.open[p] {
                apply(&mut s, dir, &Op::Open(p, c.clone()), &mut version)?;
                s.barrier(dir)?;
            }
        }
        for &p in &order {
            if fin.open[p].is_none() && fin.touched[p] {
                if let Some(c) = &case.disk[p] {
                    // shown as a buffer holding exactly the text on disk, and left open: closing it
                    // would make the fresh server itself go through close_file
                    apply(&mut s, dir, &Op::Open(p, c.clone()), &mut version)?;
                    s.barrier(dir)?;
                }
            }
        }
        observe(&mut s, dir, case, fin)
    })();
    let (_code, err) = s.finish();
    r.map_err(|_| format!("fresh server died: {} {}", crash_kind(&err), tail(&err, 200)))
}

fn run_case(exe: &str, root: &Path, idx: usize, line: &str, oracle: bool, want_state: bool) -> Value {
    let case = parse_case(line);
    let dir = root.join(format!("case{idx}"));
    let _ = fs::remove_dir_all(&dir);
    fs::create_dir_all(&dir).unwrap();
    for p in 0..case.n {
        if let Some(c) = &case.disk[p] {
            fs::write(dir.join(format!("{}.ncl", name(p))), text(p, c)).unwrap();
        }
    }
    let fin = final_state(&case);
    let mut trace: Vec<String> = vec![];
    let mut crash = Value::Null;
    let mut hist_obs: Option<Vec<(String, String)>> = None;
    let mut state = Value::Null;
    let mut states: Vec<String> = vec![];
    match Nls::start(exe, &dir, "hist") {
        Err(_) => crash = json!({"step": -1, "kind": "other", "stderr": "server did not start"}),
        Ok(mut s) => {
            let mut version = 0i64;
            let mut died_at: Option<i64> = None;
            for (k, op) in case.ops.iter().enumerate() {
                let r = apply(&mut s, &dir, op, &mut version).and_then(|_| s.barrier(&dir));
                match r {
                    Ok(pubs) => {
                        if want_state {
                            if let Ok(v) = s.request("verif/state", Value::Null) {
                                states.push(canon_state(&v));
                            }
                        }
                        let mut v: Vec<String> = pubs
                            .iter()
                            .map(|p| format!("{}:{}", path_index(p["uri"].as_str().unwrap_or("")), classes(&p["diagnostics"])))
                            .collect();
                        v.sort();
                        trace.push(v.join(","));
                    }
                    Err(Dead) => {
                        died_at = Some(k as i64);
                        break;
                    }
                }
            }
            if died_at.is_none() && want_state {
                state = Value::String(states.join(" || "));
            }
            if died_at.is_none() && oracle {
                match observe(&mut s, &dir, &case, &fin) {
                    Ok(o) => hist_obs = Some(o),
                    Err(Dead) => died_at = Some(case.ops.len() as i64),
                }
            }
            let (code, err) = s.finish();
            if let Some(k) = died_at {
                trace.push("CRASH".into());
                crash = json!({"step": k, "kind": crash_kind(&err), "exit": code, "stderr": tail(&err, 300)});
            } else if code != Some(0) {
                crash = json!({"step": case.ops.len(), "kind": crash_kind(&err), "exit": code, "stderr": tail(&err, 300)});
            }
        }
    }
    let mut oracle_v = Value::Null;
    if std::env::var("VERIF_C19_DUMP").is_ok() {
        if let Some(h) = &hist_obs {
            for (l, a) in h {
                eprintln!("HIST {l} => {a}");
            }
        }
    }
    if let Some(h) = &hist_obs {
        let mut diffs: Vec<Value> = vec![];
        let mut order_dependent = false;
        let mut checked = 0usize;
        match fresh(exe, &dir, &case, &fin, false, "fresh") {
            Err(e) => diffs.push(json!({"what": "fresh", "error": e})),
            Ok(f) => {
                checked = h.len();
                if f.len() != h.len() {
                    diffs.push(json!({"what": "length", "hist": h.len(), "fresh": f.len()}));
                }
                for ((la, a), (_lb, b)) in h.iter().zip(f.iter()) {
                    if a != b {
                        let (oh, of) = multiset_diff(a, b);
                        diffs.push(json!({"what": la, "hist": clip(a, 700), "fresh": clip(b, 700),
                                          "only_hist": oh, "only_fresh": of}));
                    }
                }
                if !diffs.is_empty() {
                    // is the fresh server itself order dependent on these documents?
                    if let Ok(f2) = fresh(exe, &dir, &case, &fin, true, "fresh2") {
                        order_dependent = f2 != f;
                    }
                }
            }
        }
        let ndiffs = diffs.len();
        diffs.truncate(40);
        oracle_v = json!({"checked": checked, "ndiffs": ndiffs, "diffs": diffs, "order_dependent": order_dependent});
    }
    let _ = fs::remove_dir_all(&dir);
    json!({"trace": trace.join(";"), "crash": crash, "oracle": oracle_v, "state": state})
}

fn main() {
    let args: Vec<String> = std::env::args().collect();
    let exe = args.get(1).expect("usage: c19 <nls> [--no-oracle]").clone();
    let oracle = !args.iter().any(|a| a == "--no-oracle");
    let want_state = args.iter().any(|a| a == "--state");
    // scratch directory: `--scratch <dir>` (a sub-directory per process is created in it), else /tmp
    let base = args
        .iter()
        .position(|a| a == "--scratch")
        .and_then(|i| args.get(i + 1))
        .map(PathBuf::from)
        .unwrap_or_else(std::env::temp_dir);
    let root = base.join(format!("verif-c19-{}", std::process::id()));
    fs::create_dir_all(&root).unwrap();
    let stdin = std::io::stdin();
    let mut out = std::io::stdout().lock();
    for (idx, line) in stdin.lock().lines().enumerate() {
        let line = line.unwrap();
        let line = line.trim();
        if line.is_empty() || line.starts_with('#') {
            writeln!(out, "{}", json!({"skip": true})).unwrap();
            continue;
        }
        let v = run_case(&exe, &root, idx, line, oracle, want_state);
        writeln!(out, "{v}").unwrap();
        out.flush().unwrap();
    }
    let _ = fs::remove_dir_all(&root);
}
