//! C06 translator-run table: `MergePriority::cmp` on a grid.  stdin lines `<p1> <p2>` with
//! p = `d` (default/bottom) | `x` (no annotation) | `F` (force) | `<num>/<den>`; prints Lt|Eq|Gt.
use malachite::rational::Rational;
use nickel_lang_parser::ast::MergePriority;
use std::io::BufRead;

fn parse(s: &str) -> MergePriority {
    match s {
        "d" => MergePriority::Bottom,
        "x" => MergePriority::Neutral,
        "F" => MergePriority::Top,
        _ => {
            let (p, q) = s.split_once('/').unwrap();
            let p: i64 = p.parse().unwrap();
            let q: i64 = q.parse().unwrap();
            MergePriority::Numeral(Rational::from_signeds(p, q))
        }
    }
}

fn main() {
    for line in std::io::stdin().lock().lines() {
        let line = line.unwrap();
        let (a, b) = line.split_once(' ').unwrap();
        let (a, b) = (parse(a), parse(b));
        let eq = a == b;
        let r = match a.cmp(&b) {
            std::cmp::Ordering::Less => "Lt",
            std::cmp::Ordering::Equal => "Eq",
            std::cmp::Ordering::Greater => "Gt",
        };
        println!("{r} {}", if eq { "eq" } else { "ne" });
    }
}
