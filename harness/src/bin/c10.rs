//! C10 harness: every input yields a result or a structured diagnostic, never a crash.
//!
//! Modes (first argument):
//!
//!   (none)      supervisor: reads one case per stdin line `<fmt>[,opt...]\t<hex bytes>` and prints
//!               one result line per case.  The cases are executed by a *worker subprocess* (this
//!               binary re-invoked with `--worker`), because a native stack overflow or an
//!               allocation failure aborts the whole process: when the worker dies on a signal (or
//!               exits) while processing a case, the case is reported as `CRASH`, the worker is
//!               restarted and the run continues.  A case that does not answer within the time
//!               limit is reported as `TIMEOUT` (worker killed).
//!   --worker    the worker: same input protocol; prints `S <stage>` before each pipeline stage
//!               and `R <json>` when the case is done.
//!   lextrace    one line of Nickel source (hex) per line: prints the step trace of the modal
//!               lexer (raw logos token class, emitted token class / lexical error, spans, mode
//!               stack depth), the input of the lexer-automaton correspondence (coq/Crash/Lexer.v).
//!   eval        `<flags>\t<escaped program>` -> canonical outcome (same as bin nkeval), used for
//!               the primop cores (coq/Crash/NumOps.v, coq/Crash/Index.v).
//!
//! fmt is one of ncl|json|yaml|toml.  Options: `fuel=<n>` (H1 step budget, default 400000),
//! `stack=<MiB>` (stack of the stage threads, default 256), `light` (parse-level stages only).
//!
//! Result of a case (`R` line): `{"stages": {stage: outcome}, "findings": [{kind, stage, detail}]}`.
//! Kinds of findings:
//!   panic   a stage panicked (caught by catch_unwind); detail = message @ location
//!   span    a diagnostic label / token span / error span lies outside its file, is reversed, or
//!           is not on a char boundary
//!   loop    the lexer did not terminate within len+16 steps
//! The supervisor adds CRASH (signal / abort / stack overflow / out of memory) and TIMEOUT.
//!
//! Nothing in here `{:?}`-prints evaluation errors or values (they may be cyclic).
use std::io::{BufRead, Cursor, Read, Write};
use std::panic::{AssertUnwindSafe, catch_unwind};
use std::sync::{Arc, Mutex, mpsc};
use std::time::{Duration, Instant};

use logos::Logos;
use nickel_lang_core::{
    ast::{AstAlloc, InputFormat},
    error::{
        Error, IntoDiagnostics, NullReporter,
        report::{ColorOpt, DiagnosticsWrapper, report_as_str},
    },
    eval::cache::CacheImpl,
    eval::value::{Container, NickelValue, ValueContentRef},
    files::Files,
    parser::{
        ErrorTolerantParser, FullyErrorTolerantParser,
        grammar::{
            CliFieldAssignmentParser, ExtendedTermParser, FixedTypeParser, StaticFieldPathParser,
            TermParser,
        },
        lexer::Lexer,
    },
    pretty::PrettyPrintCap,
    program::Program,
    serialize::{self, ExportFormat},
    typecheck::TypecheckMode,
};
use nickel_lang_parser::error::LexicalError;
use nickel_lang_parser::lexer::{
    ModalLexer, MultiStringToken, NormalToken, StringToken, Token,
};
use serde_json::{Value as J, json};

// ------------------------------------------------------------------ small helpers

fn unhex(s: &str) -> Vec<u8> {
    let b = s.trim().as_bytes();
    let mut out = Vec::with_capacity(b.len() / 2);
    let v = |c: u8| match c {
        b'0'..=b'9' => c - b'0',
        b'a'..=b'f' => c - b'a' + 10,
        b'A'..=b'F' => c - b'A' + 10,
        _ => 0,
    };
    let mut i = 0;
    while i + 1 < b.len() {
        out.push(v(b[i]) * 16 + v(b[i + 1]));
        i += 2;
    }
    out
}

static LAST_PANIC_LOC: Mutex<String> = Mutex::new(String::new());

fn install_hook() {
    std::panic::set_hook(Box::new(|info| {
        if let Some(l) = info.location() {
            if let Ok(mut g) = LAST_PANIC_LOC.lock() {
                *g = format!("{}:{}", l.file(), l.line());
            }
        }
    }));
}

fn panic_text(p: Box<dyn std::any::Any + Send>) -> String {
    let msg = p
        .downcast_ref::<String>()
        .cloned()
        .or_else(|| p.downcast_ref::<&str>().map(|s| s.to_string()))
        .unwrap_or_else(|| "<non-string panic payload>".into());
    let loc = LAST_PANIC_LOC.lock().map(|g| g.clone()).unwrap_or_default();
    let msg: String = msg.chars().take(300).collect();
    format!("{msg} @ {loc}")
}

#[derive(Default)]
struct Report {
    stages: Vec<(String, String)>,
    findings: Vec<J>,
}

impl Report {
    fn finding(&mut self, kind: &str, stage: &str, detail: String) {
        self.findings.push(json!({"kind": kind, "stage": stage, "detail": detail}));
    }
    fn merge(&mut self, other: Report) {
        self.stages.extend(other.stages);
        self.findings.extend(other.findings);
    }
    fn to_json(&self) -> J {
        let mut m = serde_json::Map::new();
        for (k, v) in &self.stages {
            m.insert(k.clone(), J::String(v.clone()));
        }
        json!({"stages": J::Object(m), "findings": self.findings})
    }
}

#[derive(Clone)]
struct Opts {
    fuel: u64,
    stack_mb: usize,
    light: bool,
    /// only lex, strict parse, both typechecking modes, eval_full and query
    lean: bool,
    /// (with lean) only walk typechecking and eval_full: the error matrix
    errs: bool,
    /// (with errs) stop after walk typechecking: static type errors
    tconly: bool,
}

/// Run one stage on its own big-stack thread under catch_unwind.  The closure returns the stage
/// outcome (a short string) and may add findings.
fn stage<F>(rep: &mut Report, o: &Opts, name: &str, f: F) -> Option<String>
where
    F: FnOnce(&mut Report) -> String + Send + 'static,
{
    println!("S {name}");
    let _ = std::io::stdout().flush();
    let h = std::thread::Builder::new()
        .stack_size(o.stack_mb << 20)
        .spawn(move || {
            let mut local = Report::default();
            let r = catch_unwind(AssertUnwindSafe(|| f(&mut local)));
            // the step budget is thread-local: a fresh thread starts unlimited
            (r.map_err(panic_text), local)
        })
        .expect("spawn stage thread");
    match h.join() {
        Ok((Ok(out), local)) => {
            rep.merge(local);
            rep.stages.push((name.to_owned(), out.clone()));
            Some(out)
        }
        Ok((Err(msg), local)) => {
            rep.merge(local);
            rep.stages.push((name.to_owned(), "PANIC".into()));
            rep.finding("panic", name, msg);
            None
        }
        Err(p) => {
            rep.stages.push((name.to_owned(), "PANIC".into()));
            rep.finding("panic", name, panic_text(p));
            None
        }
    }
}

// ------------------------------------------------------------------ diagnostics

fn check_range(what: &str, start: usize, end: usize, src: &str) -> Option<String> {
    let len = src.len();
    if start > end {
        return Some(format!("{what}: reversed range {start}..{end} (file length {len})"));
    }
    if end > len {
        return Some(format!("{what}: range {start}..{end} exceeds file length {len}"));
    }
    if !src.is_char_boundary(start) || !src.is_char_boundary(end) {
        return Some(format!("{what}: range {start}..{end} is not on char boundaries (file length {len})"));
    }
    None
}

/// Convert an error to diagnostics, check every label against its file, render as text and JSON.
/// Returns the number of diagnostics.
fn render<E: IntoDiagnostics>(rep: &mut Report, at: &str, files: &mut Files, err: E) -> usize {
    let name = format!("render:{at}");
    let mut files2 = files.clone();
    let r = catch_unwind(AssertUnwindSafe(|| {
        let mut found: Vec<String> = Vec::new();
        let diags = err.into_diagnostics(&mut files2);
        for d in diags.iter() {
            for l in d.labels.iter() {
                let src = files2.source(l.file_id);
                if let Some(msg) = check_range("label", l.range.start, l.range.end, src) {
                    let m: String = d.message.chars().take(80).collect();
                    found.push(format!("{msg} | diagnostic: {m}"));
                }
            }
        }
        let n = diags.len();
        // machine-readable formats
        let wrapped = DiagnosticsWrapper::from(diags.clone());
        let _ = serde_json::to_string(&wrapped).map_err(|e| found.push(format!("json diagnostics: {e}")));
        (n, diags, found)
    }));
    match r {
        Ok((n, diags, found)) => {
            for f in found {
                rep.finding("span", &name, f);
            }
            // the text renderer (codespan) – separately, so that a span finding is not masked
            for d in diags {
                let mut f3 = files2.clone();
                let d2 = d.clone();
                let r = catch_unwind(AssertUnwindSafe(|| report_as_str(&mut f3, d, ColorOpt::Never)));
                if let Err(p) = r {
                    rep.finding("panic", &format!("{name}:text"), panic_text(p));
                }
                let mut f4 = files2.clone();
                let r = catch_unwind(AssertUnwindSafe(|| report_as_str(&mut f4, d2, ColorOpt::Always)));
                if let Err(p) = r {
                    rep.finding("panic", &format!("{name}:colour"), panic_text(p));
                }
            }
            n
        }
        Err(p) => {
            rep.finding("panic", &name, panic_text(p));
            0
        }
    }
}

fn err_class(e: &Error) -> String {
    use nickel_lang_core::error::EvalErrorKind as K;
    match e {
        Error::EvalError(d) => {
            let k = match &d.error {
                K::BlameError { .. } => "Blame",
                K::MissingFieldDef { .. } => "MissingDef",
                K::TypeError { .. } | K::UnaryPrimopTypeError { .. } | K::NAryPrimopTypeError { .. } => "TypeErr",
                K::ParseError(_) => "Parse",
                K::NotAFunc(..) => "NotAFunc",
                K::FieldMissing { .. } => "FieldMissing",
                K::NotEnoughArgs(..) => "NotEnoughArgs",
                K::MergeIncompatibleArgs { .. } => "NonMergeable",
                K::UnboundIdentifier(..) => "UnboundId",
                K::InfiniteRecursion(..) => "InfiniteRec",
                K::SerializationError(..) => "Serialization",
                K::DeserializationError(..) | K::DeserializationErrorWithInner { .. } => "Deserialization",
                K::IllegalPolymorphicTailAccess { .. } => "TailAccess",
                K::IncomparableValues { .. } => "Incomparable",
                K::NonExhaustiveEnumMatch { .. } | K::NonExhaustiveMatch { .. } => "NonExhaustive",
                K::FailedDestructuring { .. } => "FailedDestructuring",
                K::QueryNonRecord { .. } => "QueryNonRecord",
                K::InternalError(..) => "Internal",
                K::Other(msg, _) => {
                    if msg == nickel_lang_core::verif_hooks::BUDGET_MSG {
                        "Budget"
                    } else {
                        "OtherErr"
                    }
                }
            };
            format!("err:Eval:{k}")
        }
        Error::TypecheckError(_) => "err:Typecheck".into(),
        Error::ParseErrors(p) => format!("err:Parse:{}", p.errors.len()),
        Error::ImportError(_) => "err:Import".into(),
        Error::ExportError(_) => "err:Export".into(),
        Error::IOError(_) => "err:IO".into(),
        Error::ReplError(_) => "err:Repl".into(),
    }
}

// ------------------------------------------------------------------ stages

fn new_prog(bytes: &[u8], fmt: InputFormat, name: &str) -> Result<Program<CacheImpl>, String> {
    Program::new_from_source_with_format(Cursor::new(bytes.to_vec()), name, fmt, std::io::sink(), NullReporter {})
        .map_err(|e| format!("{e}"))
}

fn file_name(fmt: InputFormat) -> &'static str {
    match fmt {
        InputFormat::Nickel => "input.ncl",
        InputFormat::Json => "input.json",
        InputFormat::Yaml => "input.yaml",
        InputFormat::Toml => "input.toml",
        _ => "input.txt",
    }
}

/// A stage that builds a fresh Program and runs `f` on it; an `Err` is rendered.
fn prog_stage<F>(rep: &mut Report, o: &Opts, name: &'static str, bytes: &Arc<Vec<u8>>, fmt: InputFormat, f: F) -> Option<String>
where
    F: FnOnce(&mut Program<CacheImpl>, &mut Report) -> Result<String, Error> + Send + 'static,
{
    let bytes = bytes.clone();
    stage(rep, o, name, move |rep| {
        let mut prog = match new_prog(&bytes, fmt, file_name(fmt)) {
            Ok(p) => p,
            Err(_) => return "err:IO(new)".into(),
        };
        let res = f(&mut prog, rep);
        nickel_lang_core::verif_hooks::set_fuel(u64::MAX);
        match res {
            Ok(s) => s,
            Err(e) => {
                let class = err_class(&e);
                let mut files = prog.files();
                let n = render(rep, name, &mut files, e);
                format!("{class}:{n}")
            }
        }
    })
}

/// Variant name and the numbers of a lexical error, read off its (derived, finite) Debug output,
/// so that the harness does not depend on the exact payload types of `LexicalError`.
fn lexerr_info(e: &LexicalError) -> (String, Vec<usize>) {
    let d = format!("{e:?}");
    let name: String = d.chars().take_while(|c| c.is_alphanumeric()).collect();
    let mut nums = Vec::new();
    let mut cur = String::new();
    for c in d.chars().chain(std::iter::once(' ')) {
        if c.is_ascii_digit() {
            cur.push(c);
        } else if !cur.is_empty() {
            nums.push(cur.parse().unwrap_or(usize::MAX));
            cur.clear();
        }
    }
    (name, nums)
}

/// The byte ranges a lexical error designates (as `ParseError::from_lexical` builds them).
fn lexerr_ranges(e: &LexicalError) -> Vec<(usize, usize)> {
    let (name, n) = lexerr_info(e);
    match (name.as_str(), n.as_slice()) {
        ("InvalidAsciiEscapeCode", [l]) => vec![(*l, *l + 2)],
        (_, [l]) => vec![(*l, *l + 1)],
        (_, [a, b]) => vec![(*a, *b)],
        (_, [a, b, c, d]) => vec![(*a, *b), (*c, *d)],
        _ => vec![],
    }
}

/// The printer / parser law error rendering relies on (core/src/error/mod.rs blame_error::path_span
/// pretty-prints a position-less type with the runtime printer and parses it back with
/// FixedTypeParser ... .unwrap()): for a type `src`, parse -> runtime type -> print -> parse must
/// succeed, and printing the re-parsed type gives the same text.  `None` = `src` is not a type.
fn type_law(src: &str) -> Option<Result<usize, String>> {
    use nickel_lang_core::parser::ErrorTolerantParserCompat;
    let mut files = Files::empty();
    let id = files.add("type.ncl", src);
    let mut pos_table = nickel_lang_core::position::PosTable::new();
    let ty = FixedTypeParser::new().parse_strict_compat(&mut pos_table, id, Lexer::new(src)).ok()?;
    let printed = format!("{ty}");
    // the constructor at the root of the type (names the class of a failure)
    let kind: String = format!("{:?}", ty.typ).chars().take_while(|c| c.is_alphanumeric()).collect();
    let id2 = files.add("<printed type>", printed.as_str());
    let res: Result<usize, String> = 
        match FixedTypeParser::new().parse_tolerant_compat(&mut pos_table, id2, Lexer::new(&printed)) {
            Err(_) => Err(format!("the printed type does not parse back: {}", printed.chars().take(200).collect::<String>())),
            Ok((_, errs)) if !errs.no_errors() => {
                Err(format!("the printed type parses back with {} error(s): {}", errs.errors.len(), printed.chars().take(200).collect::<String>()))
            }
            Ok((ty2, _)) => {
                let printed2 = format!("{ty2}");
                if printed2 == printed {
                    Ok(printed.len())
                } else {
                    Err(format!(
                        "printing is not stable under re-parsing: {} / {}",
                        printed.chars().take(120).collect::<String>(),
                        printed2.chars().take(120).collect::<String>()
                    ))
                }
            }
        };
    Some(res.map_err(|m| format!("[{kind}] {m}")))
}

fn lex_stage(src: &str, rep: &mut Report) -> String {
    let mut lx = Lexer::new(src);
    let cap = src.len() + 16;
    let mut n = 0usize;
    let mut nerr = 0usize;
    let mut prev_end = 0usize;
    loop {
        if n > cap {
            rep.finding("loop", "lex", format!("lexer produced more than {cap} items"));
            break;
        }
        match lx.next() {
            None => break,
            Some(Ok((s, _tok, e))) => {
                if let Some(m) = check_range("token", s, e, src) {
                    rep.finding("span", "lex", m);
                }
                if s < prev_end {
                    rep.finding("span", "lex", format!("token {s}..{e} starts before the end {prev_end} of the previous one"));
                }
                prev_end = e;
            }
            Some(Err(le)) => {
                nerr += 1;
                let ranges = lexerr_ranges(&le);
                for (s, e) in ranges {
                    if let Some(m) = check_range("lexical error", s, e, src) {
                        rep.finding("span", "lex", m);
                    }
                }
                // the parser stops at the first lexical error; so do we
                break;
            }
        }
        n += 1;
    }
    format!("ok:{n}:{nerr}:{}", lx.modes.len())
}

fn escape_nickel_string(s: &str) -> String {
    let mut out = String::with_capacity(s.len() + 2);
    out.push('"');
    for c in s.chars() {
        match c {
            '\\' => out.push_str("\\\\"),
            '"' => out.push_str("\\\""),
            '%' => out.push_str("\\%"),
            '\n' => out.push_str("\\n"),
            '\r' => out.push_str("\\r"),
            '\t' => out.push_str("\\t"),
            c if (c as u32) < 0x20 || c as u32 == 0x7f => out.push_str(&format!("\\x{:02x}", c as u32)),
            c => out.push(c),
        }
    }
    out.push('"');
    out
}

fn export_all(prog: &mut Program<CacheImpl>, rep: &mut Report, v: &NickelValue, at: &str) -> String {
    let mut outs = Vec::new();
    for (tag, fmt) in [
        ("json", ExportFormat::Json),
        ("yaml", ExportFormat::Yaml),
        ("yamldocs", ExportFormat::YamlDocuments),
        ("toml", ExportFormat::Toml),
        ("text", ExportFormat::Text),
    ] {
        let r = serialize::validate(fmt, v).and_then(|_| serialize::to_string(fmt, v));
        match r {
            Ok(s) => outs.push(format!("{tag}={}", s.len())),
            Err(e) => {
                let err = Error::export_error(prog.pos_table().clone(), e);
                let mut files = prog.files();
                let n = render(rep, &format!("{at}:{tag}"), &mut files, err);
                outs.push(format!("{tag}=err{n}"));
            }
        }
    }
    // pretty-printing of the evaluated term
    let shown = format!("{v}");
    outs.push(format!("pretty={}", shown.len()));
    outs.join(",")
}

fn top_fields(v: &NickelValue) -> Vec<String> {
    match v.content_ref() {
        ValueContentRef::Record(Container::Alloc(r)) => r.fields.iter().map(|(id, _)| id.label().to_owned()).take(3).collect(),
        _ => vec![],
    }
}

fn run_ncl(bytes: Arc<Vec<u8>>, o: &Opts) -> Report {
    let mut rep = Report::default();
    let src = match String::from_utf8(bytes.to_vec()) {
        Ok(s) => Arc::new(s),
        Err(_) => {
            // not UTF-8: the only entry point is the `Read`-based constructor, which must answer
            // with an I/O error
            stage(&mut rep, o, "new:invalid-utf8", {
                let bytes = bytes.clone();
                move |_| match new_prog(&bytes, InputFormat::Nickel, "input.ncl") {
                    Ok(_) => "ok(accepted invalid utf-8)".into(),
                    Err(_) => "err:IO".into(),
                }
            });
            return rep;
        }
    };

    {
        let src = src.clone();
        stage(&mut rep, o, "lex", move |rep| lex_stage(&src, rep));
    }

    let strict = {
        let src = src.clone();
        stage(&mut rep, o, "parse_strict", move |rep| {
            let alloc = AstAlloc::new();
            let mut files = Files::empty();
            let id = files.add("input.ncl", src.as_str());
            match TermParser::new().parse_strict(&alloc, id, Lexer::new(&src)) {
                Ok(ast) => {
                    let s = format!("{ast}");
                    format!("ok:pretty={}", s.len())
                }
                Err(errs) => {
                    let n = errs.errors.len();
                    render(rep, "parse_strict", &mut files, errs);
                    format!("err:{n}")
                }
            }
        })
    };

    if !o.lean {
        let src = src.clone();
        stage(&mut rep, o, "parse_tolerant", move |rep| {
            let alloc = AstAlloc::new();
            let mut files = Files::empty();
            let id = files.add("input.ncl", src.as_str());
            let a = match TermParser::new().parse_tolerant(&alloc, id, Lexer::new(&src)) {
                Ok((ast, errs)) => {
                    let n = errs.errors.len();
                    let s = format!("{ast}");
                    if n > 0 {
                        render(rep, "parse_tolerant", &mut files, errs);
                    }
                    format!("ok:{n}:pretty={}", s.len())
                }
                Err(e) => {
                    render(rep, "parse_tolerant", &mut files, e);
                    "fatal".to_string()
                }
            };
            let full = files.source_span(id);
            let (ast, errs) = TermParser::new().parse_fully_tolerant(&alloc, id, Lexer::new(&src), full);
            let n = errs.errors.len();
            let s = format!("{ast}");
            if n > 0 {
                render(rep, "parse_fully_tolerant", &mut files, errs);
            }
            format!("{a};full:{n}:pretty={}", s.len())
        });
    }

    if !o.lean {
        let src = src.clone();
        stage(&mut rep, o, "parse_other", move |rep| {
            let alloc = AstAlloc::new();
            let mut files = Files::empty();
            let id = files.add("input.ncl", src.as_str());
            let mut outs = Vec::new();
            match ExtendedTermParser::new().parse_strict(&alloc, id, Lexer::new(&src)) {
                Ok(_) => outs.push("ext=ok".to_string()),
                Err(e) => {
                    outs.push(format!("ext=err{}", e.errors.len()));
                    render(rep, "parse_other:ext", &mut files, e);
                }
            }
            match FixedTypeParser::new().parse_strict(&alloc, id, Lexer::new(&src)) {
                Ok(t) => {
                    // (printing a deeply indented type is quadratic in the nesting depth: only
                    // print what comes from small inputs)
                    let n = if src.len() <= 20_000 { format!("{t}").len() } else { 0 };
                    outs.push(format!("type=ok{n}"));
                    if src.len() <= 20_000 {
                        // (an arbitrary *term* in type position is the business of the
                        // printer / parser round trip of terms, property C14: only genuine type
                        // constructors here; the generated law cases cover record contracts)
                        if let Some(Err(msg)) = type_law(&src) {
                            if !msg.starts_with("[Contract]") {
                                rep.finding("typelaw", "parse_other:type", msg);
                            }
                        }
                    }
                }
                Err(e) => {
                    outs.push(format!("type=err{}", e.errors.len()));
                    render(rep, "parse_other:type", &mut files, e);
                }
            }
            match StaticFieldPathParser::new().parse_strict(&alloc, id, Lexer::new(&src)) {
                Ok(p) => outs.push(format!("path=ok{}", p.len())),
                Err(e) => {
                    outs.push(format!("path=err{}", e.errors.len()));
                    render(rep, "parse_other:path", &mut files, e);
                }
            }
            match CliFieldAssignmentParser::new().parse_strict(&alloc, id, Lexer::new(&src)) {
                Ok(_) => outs.push("assign=ok".to_string()),
                Err(e) => {
                    outs.push(format!("assign=err{}", e.errors.len()));
                    render(rep, "parse_other:assign", &mut files, e);
                }
            }
            outs.join(",")
        });
    }

    if o.light {
        return rep;
    }

    let parsed_ok = strict.as_deref().map(|s| s.starts_with("ok")).unwrap_or(false);
    let fuel = o.fuel;

    // an input that does not parse: the Program-level path only (parse error rendering with the
    // stdlib files around)
    if !parsed_ok {
        prog_stage(&mut rep, o, "eval", &bytes, InputFormat::Nickel, move |prog, _rep| {
            nickel_lang_core::verif_hooks::set_fuel(fuel);
            let v = prog.eval()?;
            nickel_lang_core::verif_hooks::set_fuel(u64::MAX);
            let s = format!("{v}");
            Ok(format!("ok:pretty={}", s.len()))
        });
        return rep;
    }

    if !o.lean {
    prog_stage(&mut rep, o, "pprint_ast", &bytes, InputFormat::Nickel, move |prog, _rep| {
        let mut out = Vec::new();
        prog.pprint_ast(&mut out, false)?;
        let a = out.len();
        let mut out = Vec::new();
        prog.pprint_ast(&mut out, true)?;
        Ok(format!("ok:{a}:{}", out.len()))
    });
    }
    if !o.errs {
    prog_stage(&mut rep, o, "typecheck_strict", &bytes, InputFormat::Nickel, move |prog, _rep| {
        prog.typecheck(TypecheckMode::Enforce)?;
        Ok("ok".into())
    });
    }
    prog_stage(&mut rep, o, "typecheck_walk", &bytes, InputFormat::Nickel, move |prog, _rep| {
        prog.typecheck(TypecheckMode::Walk)?;
        Ok("ok".into())
    });
    // (the stages that may legitimately run out of budget come after the ones that may not)
    // the Program-level path (parse error rendering with the stdlib files around, or evaluation)
    if o.tconly {
        return rep;
    }
    if o.lean {
        // the cross-product programs: both typechecking modes above, full evaluation with
        // pretty-printing of the result, and query
        prog_stage(&mut rep, o, "eval_full", &bytes, InputFormat::Nickel, move |prog, _rep| {
            nickel_lang_core::verif_hooks::set_fuel(fuel);
            let v = prog.eval_full()?;
            nickel_lang_core::verif_hooks::set_fuel(u64::MAX);
            let s = format!("{v}");
            Ok(format!("ok:pretty={}", s.len()))
        });
        if !o.errs {
        prog_stage(&mut rep, o, "query", &bytes, InputFormat::Nickel, move |prog, _rep| {
            nickel_lang_core::verif_hooks::set_fuel(fuel);
            let f = prog.query()?;
            nickel_lang_core::verif_hooks::set_fuel(u64::MAX);
            let shown = f.value.as_ref().map(|v| v.pretty_print_cap(80).len()).unwrap_or(0);
            Ok(format!("ok:value={shown}"))
        });
        }
        return rep;
    }
    let evaled = prog_stage(&mut rep, o, "eval", &bytes, InputFormat::Nickel, move |prog, _rep| {
        nickel_lang_core::verif_hooks::set_fuel(fuel);
        let v = prog.eval()?;
        nickel_lang_core::verif_hooks::set_fuel(u64::MAX);
        let s = format!("{v}");
        Ok(format!("ok:pretty={}:fields={}", s.len(), top_fields(&v).join("/")))
    });
    prog_stage(&mut rep, o, "export", &bytes, InputFormat::Nickel, move |prog, rep| {
        nickel_lang_core::verif_hooks::set_fuel(fuel);
        let v = prog.eval_full_for_export()?;
        nickel_lang_core::verif_hooks::set_fuel(u64::MAX);
        Ok(format!("ok:{}", export_all(prog, rep, &v, "export")))
    });
    prog_stage(&mut rep, o, "eval_full", &bytes, InputFormat::Nickel, move |prog, _rep| {
        nickel_lang_core::verif_hooks::set_fuel(fuel);
        let v = prog.eval_full()?;
        nickel_lang_core::verif_hooks::set_fuel(u64::MAX);
        let s = format!("{v}");
        Ok(format!("ok:pretty={}", s.len()))
    });
    prog_stage(&mut rep, o, "query", &bytes, InputFormat::Nickel, move |prog, _rep| {
        nickel_lang_core::verif_hooks::set_fuel(fuel);
        let f = prog.query()?;
        nickel_lang_core::verif_hooks::set_fuel(u64::MAX);
        // what `nickel query` prints for the value (core/src/repl/query_print.rs: TERM_MAX_WIDTH = 80)
        let shown = f.value.as_ref().map(|v| v.pretty_print_cap(80).len()).unwrap_or(0);
        let doc = f.metadata.0.as_ref().and_then(|m| m.doc.as_ref()).map(|d| d.len()).unwrap_or(0);
        Ok(format!("ok:value={shown}:doc={doc}"))
    });
    // query of the first top-level fields (as `nickel query --field f`)
    let fields: Vec<String> = evaled
        .as_deref()
        .and_then(|s| s.split(":fields=").nth(1))
        .map(|s| s.split('/').filter(|x| !x.is_empty()).map(|x| x.to_owned()).collect())
        .unwrap_or_default();
    for (i, fname) in fields.into_iter().enumerate() {
        let name: &'static str = ["query_field0", "query_field1", "query_field2"][i.min(2)];
        prog_stage(&mut rep, o, name, &bytes, InputFormat::Nickel, move |prog, rep| {
            // the field name goes through the field path parser, quoted
            let quoted = escape_nickel_string(&fname);
            match prog.parse_field_path(quoted) {
                Ok(p) => prog.field = p,
                Err(e) => {
                    let mut files = prog.files();
                    render(rep, name, &mut files, e);
                    return Ok("err:fieldpath".into());
                }
            }
            nickel_lang_core::verif_hooks::set_fuel(fuel);
            let f = prog.query()?;
            nickel_lang_core::verif_hooks::set_fuel(u64::MAX);
            let shown = f.value.as_ref().map(|v| v.pretty_print_cap(80).len()).unwrap_or(0);
            Ok(format!("ok:value={shown}"))
        });
    }
    prog_stage(&mut rep, o, "doc_spine", &bytes, InputFormat::Nickel, move |prog, _rep| {
        nickel_lang_core::verif_hooks::set_fuel(fuel);
        let v = prog.eval_record_spine()?;
        nickel_lang_core::verif_hooks::set_fuel(u64::MAX);
        let s = format!("{v}");
        Ok(format!("ok:pretty={}", s.len()))
    });
    rep
}

fn run_data(bytes: Arc<Vec<u8>>, fmt: InputFormat, o: &Opts) -> Report {
    let mut rep = Report::default();
    let fuel = o.fuel;
    // import of a data file (the `Read` entry point; invalid UTF-8 must be an I/O error)
    prog_stage(&mut rep, o, "data_export", &bytes, fmt, move |prog, rep| {
        nickel_lang_core::verif_hooks::set_fuel(fuel);
        let v = prog.eval_full_for_export()?;
        nickel_lang_core::verif_hooks::set_fuel(u64::MAX);
        Ok(format!("ok:{}", export_all(prog, rep, &v, "data_export")))
    });
    if o.light {
        return rep;
    }
    // the same document imported from a Nickel program through a real file (the AST-based import
    // path of the cache, which is not the one a main file goes through)
    {
        let dir = std::env::temp_dir().join(format!("c10-import-{}", std::process::id()));
        let _ = std::fs::create_dir_all(&dir);
        let path = dir.join(file_name(fmt));
        if std::fs::write(&path, bytes.as_slice()).is_ok() {
            let prog_text = format!("import {}", escape_nickel_string(&path.to_string_lossy()));
            let b = Arc::new(prog_text.into_bytes());
            prog_stage(&mut rep, o, "data_import", &b, InputFormat::Nickel, move |prog, rep| {
                nickel_lang_core::verif_hooks::set_fuel(fuel);
                let v = prog.eval_full_for_export()?;
                nickel_lang_core::verif_hooks::set_fuel(u64::MAX);
                Ok(format!("ok:{}", export_all(prog, rep, &v, "data_import")))
            });
            // ... and merged with a Nickel record, which is what imported data is for
            let prog_text = format!("(import {}) & {{c10_extra_field = 1}}", escape_nickel_string(&path.to_string_lossy()));
            let b = Arc::new(prog_text.into_bytes());
            prog_stage(&mut rep, o, "data_import_merge", &b, InputFormat::Nickel, move |prog, rep| {
                nickel_lang_core::verif_hooks::set_fuel(fuel);
                let v = prog.eval_full_for_export()?;
                nickel_lang_core::verif_hooks::set_fuel(u64::MAX);
                Ok(format!("ok:{}", export_all(prog, rep, &v, "data_import_merge")))
            });
            let _ = std::fs::remove_file(&path);
        }
    }
    prog_stage(&mut rep, o, "data_typecheck", &bytes, fmt, move |prog, _rep| {
        prog.typecheck(TypecheckMode::Walk)?;
        Ok("ok".into())
    });
    // std.deserialize on the same text (only expressible for valid UTF-8)
    if let Ok(text) = String::from_utf8(bytes.to_vec()) {
        let tags: &[&str] = match fmt {
            InputFormat::Json => &["Json"],
            InputFormat::Yaml => &["Yaml", "YamlDocuments"],
            InputFormat::Toml => &["Toml"],
            _ => &["Text"],
        };
        for (i, tag) in tags.iter().enumerate() {
            let prog_text = format!("std.deserialize '{tag} {}", escape_nickel_string(&text));
            let b = Arc::new(prog_text.into_bytes());
            let name: &'static str = ["deserialize", "deserialize2"][i.min(1)];
            prog_stage(&mut rep, o, name, &b, InputFormat::Nickel, move |prog, rep| {
                nickel_lang_core::verif_hooks::set_fuel(fuel);
                let v = prog.eval_full_for_export()?;
                nickel_lang_core::verif_hooks::set_fuel(u64::MAX);
                Ok(format!("ok:{}", export_all(prog, rep, &v, name)))
            });
        }
    }
    rep
}

fn parse_case(line: &str) -> Option<(InputFormat, Opts, Vec<u8>)> {
    let (head, hex) = line.split_once('\t')?;
    let mut it = head.split(',');
    let fmt = match it.next()? {
        "ncl" => InputFormat::Nickel,
        "json" => InputFormat::Json,
        "yaml" => InputFormat::Yaml,
        "toml" => InputFormat::Toml,
        "text" => InputFormat::Text,
        _ => return None,
    };
    let mut o = Opts { fuel: 400_000, stack_mb: 256, light: false, lean: false, errs: false, tconly: false };
    for f in it {
        if let Some(n) = f.strip_prefix("fuel=") {
            o.fuel = n.parse().ok()?;
        } else if let Some(n) = f.strip_prefix("stack=") {
            o.stack_mb = n.parse().ok()?;
        } else if f == "light" {
            o.light = true;
        } else if f == "lean" {
            o.lean = true;
        } else if f == "errs" {
            o.lean = true;
            o.errs = true;
        } else if f == "tcerrs" {
            o.lean = true;
            o.errs = true;
            o.tconly = true;
        }
    }
    Some((fmt, o, unhex(hex)))
}

fn worker() {
    install_hook();
    let stdin = std::io::stdin();
    for line in stdin.lock().lines() {
        let Ok(line) = line else { break };
        let rep = match parse_case(&line) {
            None => {
                let mut r = Report::default();
                r.stages.push(("protocol".into(), "bad case line".into()));
                r
            }
            Some((fmt, o, bytes)) => {
                let bytes = Arc::new(bytes);
                match fmt {
                    InputFormat::Nickel => run_ncl(bytes, &o),
                    f => run_data(bytes, f, &o),
                }
            }
        };
        println!("R {}", rep.to_json());
        let _ = std::io::stdout().flush();
    }
}

// ------------------------------------------------------------------ supervisor

enum Msg {
    Line(String),
    Eof,
}

struct Worker {
    child: std::process::Child,
    stdin: std::process::ChildStdin,
    rx: mpsc::Receiver<Msg>,
    err: Arc<Mutex<Vec<u8>>>,
    err_done: mpsc::Receiver<()>,
}

fn spawn_worker(mem_kb: u64) -> Worker {
    use std::process::{Command, Stdio};
    let exe = std::env::current_exe().expect("current_exe");
    // address-space limit: an allocation failure aborts the worker instead of taking the machine down
    let script = format!("ulimit -v {mem_kb} 2>/dev/null; ulimit -c 0 2>/dev/null; exec \"$0\" --worker");
    let mut child = Command::new("sh")
        .arg("-c")
        .arg(script)
        .arg(exe)
        .stdin(Stdio::piped())
        .stdout(Stdio::piped())
        .stderr(Stdio::piped())
        .spawn()
        .expect("spawn worker");
    let stdin = child.stdin.take().unwrap();
    let stdout = child.stdout.take().unwrap();
    let mut stderr = child.stderr.take().unwrap();
    let (tx, rx) = mpsc::channel();
    std::thread::spawn(move || {
        let r = std::io::BufReader::new(stdout);
        for l in r.lines() {
            match l {
                Ok(l) => {
                    if tx.send(Msg::Line(l)).is_err() {
                        return;
                    }
                }
                Err(_) => break,
            }
        }
        let _ = tx.send(Msg::Eof);
    });
    let err = Arc::new(Mutex::new(Vec::new()));
    let err2 = err.clone();
    let (etx, err_done) = mpsc::channel();
    std::thread::spawn(move || {
        let mut buf = [0u8; 4096];
        loop {
            match stderr.read(&mut buf) {
                Ok(0) | Err(_) => {
                    let _ = etx.send(());
                    break;
                }
                Ok(n) => {
                    let mut g = err2.lock().unwrap();
                    g.extend_from_slice(&buf[..n]);
                    let l = g.len();
                    if l > 8192 {
                        g.drain(..l - 8192);
                    }
                }
            }
        }
    });
    Worker { child, stdin, rx, err, err_done }
}

fn supervisor(args: &[String]) {
    use std::os::unix::process::ExitStatusExt;
    let mut timeout = 60u64;
    let mut mem_kb = 12u64 << 20;
    let mut i = 0;
    while i < args.len() {
        match args[i].as_str() {
            "--timeout" => {
                timeout = args[i + 1].parse().unwrap();
                i += 1;
            }
            "--mem-mb" => {
                mem_kb = args[i + 1].parse::<u64>().unwrap() << 10;
                i += 1;
            }
            _ => {}
        }
        i += 1;
    }
    let stdin = std::io::stdin();
    let stdout = std::io::stdout();
    let mut out = std::io::BufWriter::new(stdout.lock());
    let mut w = spawn_worker(mem_kb);
    for line in stdin.lock().lines() {
        let Ok(line) = line else { break };
        w.err.lock().unwrap().clear();
        let sent = writeln!(w.stdin, "{line}").and_then(|_| w.stdin.flush());
        let deadline = Instant::now() + Duration::from_secs(timeout);
        let mut last_stage = String::from("(start)");
        let mut done_stages: Vec<String> = Vec::new();
        let result: String = loop {
            if sent.is_err() {
                // worker already gone
            }
            let left = deadline.saturating_duration_since(Instant::now());
            match w.rx.recv_timeout(left) {
                Ok(Msg::Line(l)) => {
                    if let Some(s) = l.strip_prefix("S ") {
                        done_stages.push(last_stage.clone());
                        last_stage = s.to_owned();
                    } else if let Some(r) = l.strip_prefix("R ") {
                        break format!("R {r}");
                    }
                }
                Ok(Msg::Eof) | Err(mpsc::RecvTimeoutError::Disconnected) => {
                    let st = w.child.wait().ok();
                    // the worker's stderr is complete once its reader saw EOF
                    let _ = w.err_done.recv_timeout(Duration::from_secs(5));
                    let tail = String::from_utf8_lossy(&w.err.lock().unwrap()).into_owned();
                    let how = match st {
                        Some(s) => match s.signal() {
                            Some(sig) => format!("signal {sig}"),
                            None => format!("exit {}", s.code().unwrap_or(-1)),
                        },
                        None => "unknown".into(),
                    };
                    let kind = if tail.contains("overflowed its stack") {
                        "stack-overflow"
                    } else if tail.contains("memory allocation of") {
                        "out-of-memory"
                    } else {
                        "abort"
                    };
                    w = spawn_worker(mem_kb);
                    break format!(
                        "CRASH {}",
                        json!({"stage": last_stage, "kind": kind, "status": how, "stderr": tail.chars().rev().take(600).collect::<String>().chars().rev().collect::<String>()})
                    );
                }
                Err(mpsc::RecvTimeoutError::Timeout) => {
                    let _ = w.child.kill();
                    let _ = w.child.wait();
                    w = spawn_worker(mem_kb);
                    break format!("TIMEOUT {}", json!({"stage": last_stage, "seconds": timeout}));
                }
            }
        };
        let ms = (Instant::now() + Duration::from_secs(timeout)).saturating_duration_since(deadline).as_millis();
        writeln!(out, "{ms}\t{result}").unwrap();
        out.flush().unwrap();
    }
    drop(w.stdin);
    let _ = w.child.wait();
}

// ------------------------------------------------------------------ lexer trace

fn class_normal(t: &NormalToken) -> String {
    match t {
        NormalToken::DoubleQuote => "DQuote".into(),
        NormalToken::StrEnumTagBegin => "StrEnumTagBegin".into(),
        NormalToken::MultiStringStart(n) => format!("MultiStart:{n}"),
        NormalToken::SymbolicStringStart(s) => format!("SymStart:{}", s.length),
        NormalToken::LBrace => "LBrace".into(),
        NormalToken::RBrace => "RBrace".into(),
        NormalToken::LineComment => "Comment".into(),
        NormalToken::Error => "Error".into(),
        _ => "Other".into(),
    }
}

fn class_str(t: &StringToken) -> String {
    match t {
        StringToken::Error => "Error".into(),
        // (the callback has normalised CR LF to LF: a remaining CR is a lone one)
        StringToken::Literal(s) => if s.contains('\r') { "LiteralCR".into() } else { "Literal".into() },
        StringToken::DoubleQuote => "DQuote".into(),
        StringToken::Interpolation => "Interp".into(),
        // raw: the char after the backslash; emitted: the char it stands for
        StringToken::EscapedChar(c) => format!("EscChar:{}", *c as u32),
        StringToken::EscapedAscii(s) => format!("EscAscii:{s}"),
    }
}

fn class_multi(t: &MultiStringToken) -> String {
    match t {
        MultiStringToken::Error => "Error".into(),
        MultiStringToken::Literal(s) => format!("{}:{}", if s.contains('\r') { "LiteralCR" } else { "Literal" }, s.len()),
        MultiStringToken::CandidateEnd(s) => format!("CandEnd:{}", s.len()),
        MultiStringToken::CandidateInterpolation(s) => format!("CandInterp:{}", s.len()),
        MultiStringToken::QuotesCandidateInterpolation(s) => format!("QCandInterp:{}", s.len()),
        MultiStringToken::End => "End".into(),
        MultiStringToken::Interpolation => "Interp".into(),
    }
}

fn class_tok(t: &Token) -> String {
    match t {
        Token::Normal(t) => format!("N.{}", class_normal(t)),
        Token::Str(t) => format!("S.{}", class_str(t)),
        Token::MultiStr(t) => format!("M.{}", class_multi(t)),
    }
}

/// One trace item per call of `Lexer::next`:
/// `<mode>|<raw token classes consumed by this call, with spans>|<emitted>|<depth after>`
/// The raw tokens are obtained by running the logos sub-lexer of the current mode on the rest of
/// the input, independently of the real lexer (which only shows what it emits).
fn lextrace(src: &str) -> String {
    let mut lx = Lexer::new(src);
    let mut items: Vec<String> = Vec::new();
    let mut pos = 0usize; // where the real lexer stands
    let cap = src.len() + 16;
    let mut buffered = false; // the multistring buffer holds an Interpolation token
    for _ in 0..cap {
        let mode = match lx.lexer.as_ref() {
            Some(ModalLexer::Normal { .. }) => 'N',
            Some(ModalLexer::String { .. }) => 'S',
            Some(ModalLexer::MultiString { .. }) => 'M',
            None => '?',
        };
        // raw tokens, independently: in normal mode comments are skipped inside one call of next()
        let mut raws: Vec<String> = Vec::new();
        let mut p = pos;
        let mut raw_end = false;
        if mode == 'M' && buffered {
            raws.push("Buffered".into());
        } else {
            loop {
                let rest = &src[p..];
                let (cls, span) = match mode {
                    'N' => {
                        let mut l = NormalToken::lexer(rest);
                        match l.next() {
                            None => {
                                raw_end = true;
                                break;
                            }
                            Some(t) => (class_normal(&t.unwrap_or(NormalToken::Error)), l.span()),
                        }
                    }
                    'S' => {
                        let mut l = StringToken::lexer(rest);
                        match l.next() {
                            None => {
                                raw_end = true;
                                break;
                            }
                            Some(t) => (class_str(&t.unwrap_or(StringToken::Error)), l.span()),
                        }
                    }
                    _ => {
                        let mut l = MultiStringToken::lexer(rest);
                        match l.next() {
                            None => {
                                raw_end = true;
                                break;
                            }
                            Some(t) => (class_multi(&t.unwrap_or(MultiStringToken::Error)), l.span()),
                        }
                    }
                };
                raws.push(format!("{cls}@{}-{}", p + span.start, p + span.end));
                p += span.end;
                if !(mode == 'N' && cls == "Comment") {
                    break;
                }
            }
        }
        let item = lx.next();
        let depth = lx.modes.len();
        let emitted = match &item {
            None => "EOF".to_string(),
            Some(Ok((s, t, e))) => format!("{}@{s}-{e}", class_tok(t)),
            Some(Err(e)) => {
                let (name, nums) = lexerr_info(e);
                format!("E.{name}@{}", nums.iter().map(|n| n.to_string()).collect::<Vec<_>>().join("-"))
            }
        };
        // after a split candidate interpolation the second half is buffered
        buffered = match lx.lexer.as_ref() {
            Some(ModalLexer::MultiString { buffer, .. }) => buffer.is_some(),
            _ => false,
        };
        if !(mode == 'M' && raws.first().map(|s| s == "Buffered").unwrap_or(false)) {
            pos = p;
        }
        items.push(format!("{mode}|{}|{emitted}|{depth}{}", raws.join(";"), if raw_end { "|rawEOF" } else { "" }));
        match item {
            None | Some(Err(_)) => break,
            _ => {}
        }
    }
    // the error the strict parser reports for the same text (variant name and the byte offsets of
    // its spans, read off the derived Debug output of ParseError, which is plain data)
    let alloc = AstAlloc::new();
    let mut files = Files::empty();
    let id = files.add("input.ncl", src);
    let pe = match TermParser::new().parse_strict(&alloc, id, Lexer::new(src)) {
        Ok(_) => "PE ok".to_string(),
        Err(errs) => match errs.errors.first() {
            None => "PE none".to_string(),
            Some(e) => {
                let d = format!("{e:?}");
                let name: String = d.chars().take_while(|c| c.is_alphanumeric()).collect();
                let mut nums = Vec::new();
                let mut rest = d.as_str();
                while let Some(i) = rest.find("ByteIndex(") {
                    let tail = &rest[i + 10..];
                    let n: String = tail.chars().take_while(|c| c.is_ascii_digit()).collect();
                    nums.push(n);
                    rest = tail;
                }
                format!("PE {name} {}", nums.join("-"))
            }
        },
    };
    format!("{} || {pe}", items.join(" "))
}

fn main() {
    let args: Vec<String> = std::env::args().skip(1).collect();
    match args.first().map(|s| s.as_str()) {
        Some("--worker") => worker(),
        Some("lextrace") => {
            install_hook();
            let stdin = std::io::stdin();
            let stdout = std::io::stdout();
            let mut out = std::io::BufWriter::new(stdout.lock());
            for line in stdin.lock().lines() {
                let line = line.unwrap();
                let bytes = unhex(&line);
                let r = match String::from_utf8(bytes) {
                    Ok(s) => catch_unwind(AssertUnwindSafe(|| lextrace(&s))).unwrap_or_else(|p| format!("PANIC {}", panic_text(p))),
                    Err(_) => "NOT-UTF8".into(),
                };
                writeln!(out, "{r}").unwrap();
            }
        }
        Some("typelaw") => {
            install_hook();
            let stdin = std::io::stdin();
            let stdout = std::io::stdout();
            let mut out = std::io::BufWriter::new(stdout.lock());
            for line in stdin.lock().lines() {
                let line = line.unwrap();
                let r = match String::from_utf8(unhex(&line)) {
                    Ok(s) => match catch_unwind(AssertUnwindSafe(|| type_law(&s))) {
                        Ok(None) => "NOTYPE".to_string(),
                        Ok(Some(Ok(n))) => format!("OK {n}"),
                        Ok(Some(Err(m))) => format!("FAIL {}", m.replace('\n', " ")),
                        Err(p) => format!("PANIC {}", panic_text(p).replace('\n', " ")),
                    },
                    Err(_) => "NOT-UTF8".into(),
                };
                writeln!(out, "{r}").unwrap();
            }
        }
        Some("eval") => {
            install_hook();
            use verif_harness::eval::{Mode, Opts as EOpts, run, unescape};
            let stdin = std::io::stdin();
            let stdout = std::io::stdout();
            let mut out = std::io::BufWriter::new(stdout.lock());
            for line in stdin.lock().lines() {
                let line = line.unwrap();
                let (flags, prog) = line.split_once('\t').unwrap_or(("", &line));
                let mut o = EOpts::default();
                o.mode = Mode::Full;
                o.typecheck = false;
                o.fuel = 200_000;
                for f in flags.split(',') {
                    if let Some(n) = f.strip_prefix("fuel=") {
                        o.fuel = n.parse().unwrap();
                    }
                }
                let r = run(&unescape(prog), &o);
                writeln!(out, "{}", r.line()).unwrap();
                out.flush().unwrap();
            }
        }
        _ => supervisor(&args),
    }
}
