//! C20 harness: dependency resolution on synthetic on-disk package indices.
//!
//! stdin: one universe per line
//!     `I:<pkgver>;<pkgver>;... R:<dep>,<dep>,... [L:<id>@<ver>,...]`
//!   pkgver = `p0@1.2.3(a>p1:1.2,b>p2:=1.0.0-rc1)`   (dependency list may be empty)
//!   dep    = `<local name>><package>:<requirement>`
//!   requirement = `M` | `M.m` | `M.m.p` | `M._.p` (prefix with a patch but no minor; only
//!                 reachable through the serialised index format) | `=M.m.p[-pre]`
//!   L: versions put in the lock file handed to `resolve_with_lock` for the *first* resolution.
//!   R2: (optional) the root manifest's dependencies after an edit; the lock file produced by the
//!       first phase is kept, and the decision of `ManifestFile::lock` is replayed: `UP=1` and
//!       `copy_from_lock` if `is_lock_file_up_to_date`, else `UP=0` and `resolve_with_lock`;
//!       the result is described by `res2 A2 E2 SD2 K2 M2`.
//! stdout: one line per universe, `key=value` fields separated by one space:
//!   res   ok | NoSolution | ErrDeps | ErrChoose | Err:<variant> | PANIC
//!   A     the resolved `index_packages`, `p0:1.2.3+2.0.0,p1:0.1.0` (ids sorted, versions in the
//!         order stored by the resolution)
//!   E     every dependency edge bound through `Resolution::precise` (`!` = panicked)
//!   SD    `Resolution::sorted_dependencies` of every resolved index package
//!   K     `LockFile::new`
//!   M     `Resolution::package_map`
//!   RL    `resolve_with_lock` with the lock file just produced: `same` or the new assignment
//!   RK    `LockFile::new` on the re-resolution: `same` / `diff`
//! A line `LAWS V:<versions> Q:<requirements>` instead prints the implementation's own tables of
//! `cmp`, `==`, `BucketVersion::from`, `VersionReq::matches`, `BucketVersion::contains` on the pool.
//! Everything that touches the package crate runs under `catch_unwind`; scratch directories are
//! created under $TMPDIR (default /tmp) and removed after each universe.
use nickel_lang_core::identifier::Ident;
use nickel_lang_package::{
    Dependency, IndexDependency, ManifestFile, ObjectId, PreciseIndexPkg, PrecisePkg,
    config::Config,
    error::Error,
    index::{self, PackageIndex, PreciseId},
    lock::{EntryName, LockFile, LockFileEntry, LockPrecisePkg},
    resolve::{self, Resolution},
    snapshot::Snapshot,
    version::{SemVer, SemVerPrefix, VersionReq},
};
use std::collections::{BTreeMap, HashMap};
use std::io::{BufRead, Write};
use std::panic::{AssertUnwindSafe, catch_unwind};
use std::path::{Path, PathBuf};

#[derive(Clone, Debug)]
struct Dep {
    name: String,
    pkg: String,
    req: VersionReq,
}

#[derive(Clone, Debug)]
struct PkgVer {
    pkg: String,
    ver: SemVer,
    deps: Vec<Dep>,
}

fn parse_ver(s: &str) -> SemVer {
    let (core, pre) = match s.split_once('-') {
        Some((c, p)) => (c, p),
        None => (s, ""),
    };
    let mut it = core.split('.');
    let mut n = || it.next().unwrap().parse::<u64>().unwrap();
    let (a, b, c) = (n(), n(), n());
    SemVer { major: a, minor: b, patch: c, pre: pre.to_owned() }
}

fn parse_req(s: &str) -> VersionReq {
    if let Some(e) = s.strip_prefix('=') {
        return VersionReq::Exact(parse_ver(e));
    }
    let parts: Vec<&str> = s.split('.').collect();
    let num = |x: &str| -> Option<u64> { if x == "_" { None } else { Some(x.parse().unwrap()) } };
    VersionReq::Compatible(SemVerPrefix {
        major: parts[0].parse().unwrap(),
        minor: parts.get(1).and_then(|x| num(x)),
        patch: parts.get(2).and_then(|x| num(x)),
    })
}

fn show_req(r: &VersionReq) -> String {
    match r {
        VersionReq::Exact(v) => format!("={v}"),
        VersionReq::Compatible(p) => {
            let f = |x: Option<u64>| x.map(|n| n.to_string()).unwrap_or("_".into());
            match (p.minor, p.patch) {
                (None, None) => format!("{}", p.major),
                (Some(m), None) => format!("{}.{}", p.major, m),
                (m, q) => format!("{}.{}.{}", p.major, f(m), f(q)),
            }
        }
    }
}

fn parse_dep(s: &str) -> Dep {
    let (name, rest) = s.split_once('>').unwrap();
    let (pkg, req) = rest.split_once(':').unwrap();
    Dep { name: name.to_owned(), pkg: pkg.to_owned(), req: parse_req(req) }
}

fn parse_deps(s: &str) -> Vec<Dep> {
    s.split(',').filter(|x| !x.is_empty()).map(parse_dep).collect()
}

struct Case {
    index: Vec<PkgVer>,
    root: Vec<Dep>,
    root2: Option<Vec<Dep>>,
    locked: Vec<(String, SemVer)>,
}

fn parse_case(line: &str) -> Case {
    let mut c = Case { index: vec![], root: vec![], root2: None, locked: vec![] };
    for sec in line.split(' ').filter(|s| !s.is_empty()) {
        if let Some(body) = sec.strip_prefix("I:") {
            for pv in body.split(';').filter(|x| !x.is_empty()) {
                let (head, deps) = pv.split_once('(').unwrap();
                let deps = deps.strip_suffix(')').unwrap();
                let (pkg, ver) = head.split_once('@').unwrap();
                c.index.push(PkgVer { pkg: pkg.to_owned(), ver: parse_ver(ver), deps: parse_deps(deps) });
            }
        } else if let Some(body) = sec.strip_prefix("R2:") {
            c.root2 = Some(parse_deps(body));
        } else if let Some(body) = sec.strip_prefix("R:") {
            c.root = parse_deps(body);
        } else if let Some(body) = sec.strip_prefix("L:") {
            for l in body.split(',').filter(|x| !x.is_empty()) {
                let (pkg, ver) = l.split_once('@').unwrap();
                c.locked.push((pkg.to_owned(), parse_ver(ver)));
            }
        } else {
            panic!("bad section {sec}");
        }
    }
    c
}

fn id_of(pkg: &str) -> index::Id {
    format!("github:o/{pkg}").parse().unwrap()
}

fn pkg_of(id: &index::Id) -> String {
    let index::Id::Github { name, .. } = id;
    name.clone()
}

fn index_dep(d: &Dep) -> IndexDependency {
    IndexDependency { id: id_of(&d.pkg), version: d.req.clone() }
}

fn class_of(e: &Error) -> String {
    // error *class* only (`Error`'s Debug is its Display, so match on the variants)
    match e {
        Error::Resolution(b) => match &**b {
            resolve::ResolveError::NoSolution(_) => "NoSolution".into(),
            resolve::ResolveError::ErrorRetrievingDependencies { .. } => "ErrDeps".into(),
            resolve::ResolveError::ErrorChoosingVersion { .. } => "ErrChoose".into(),
            resolve::ResolveError::ErrorInShouldCancel(_) => "ErrCancel".into(),
        },
        Error::UnknownIndexPackage { .. } => "Err:UnknownIndexPackage".into(),
        Error::UnknownIndexPackageVersion { .. } => "Err:UnknownIndexPackageVersion".into(),
        Error::Io { .. } => "Err:Io".into(),
        Error::PackageIndexDeserialization { .. } => "Err:PackageIndexDeserialization".into(),
        Error::DuplicateIndexPackageVersion { .. } => "Err:DuplicateIndexPackageVersion".into(),
        _ => "Err:Other".into(),
    }
}

fn show_assignment(res: &Resolution) -> String {
    let mut m: BTreeMap<String, String> = BTreeMap::new();
    for (id, vs) in &res.index_packages {
        m.insert(pkg_of(id), vs.iter().map(|v| v.to_string()).collect::<Vec<_>>().join("+"));
    }
    m.into_iter().map(|(k, v)| format!("{k}:{v}")).collect::<Vec<_>>().join(",")
}

fn show_precise(p: &PrecisePkg) -> String {
    match p {
        PrecisePkg::Index(PreciseIndexPkg { id, version }) => format!("{}@{}", pkg_of(id), version),
        PrecisePkg::Path(p) => format!("path:{}", p.display()),
        PrecisePkg::Git(_) => "git".into(),
    }
}

fn show_entry_name(n: &EntryName) -> String {
    format!("{}#{}", n.name, n.id)
}

fn show_lock(l: &LockFile) -> String {
    let deps = l.dependencies.iter().map(|(k, d)| format!("{k}={}", show_entry_name(&d.name))).collect::<Vec<_>>().join(",");
    let pk = l
        .packages
        .iter()
        .map(|(n, e)| {
            let prec = match &e.precise {
                LockPrecisePkg::Index { id, version } => format!("{}@{}", pkg_of(id), version),
                LockPrecisePkg::Path => "path".into(),
                LockPrecisePkg::Git { .. } => "git".into(),
            };
            let ds = e.dependencies.iter().map(|(k, d)| format!("{k}={}", show_entry_name(&d.name))).collect::<Vec<_>>().join(",");
            format!("{}={}[{}]", show_entry_name(n), prec, ds)
        })
        .collect::<Vec<_>>()
        .join(";");
    format!("ok{{{deps}|{pk}}}")
}

struct Env {
    dir: PathBuf,
    config: Config,
    commits: HashMap<String, String>, // object id (hex) -> "p0@1.2.3"
}

fn commit_for(i: usize) -> ObjectId {
    ObjectId::from_hex(format!("{:040x}", 0xc20_0000u64 + i as u64).as_bytes()).unwrap()
}

fn setup(case: &Case, dir: &Path) -> Result<Env, String> {
    std::fs::create_dir_all(dir).map_err(|e| e.to_string())?;
    let config = Config::new().map_err(|e| format!("{e:?}"))?.with_cache_dir(dir.join("cache"));
    std::fs::create_dir_all(&config.cache_dir).map_err(|e| e.to_string())?;
    let mut commits = HashMap::new();
    // The index files are written directly, one json line per version in the crate's own
    // serialisation format (`index::serialize::PackageFormat`), in the order of the universe;
    // they are read back by `PackageIndex::shared` (index load) like a downloaded index.
    for (i, pv) in case.index.iter().enumerate() {
        let id = id_of(&pv.pkg);
        let index::Id::Github { org, name, path } = id.clone();
        let commit = commit_for(i);
        commits.insert(commit.to_string(), format!("{}@{}", pv.pkg, pv.ver));
        let pkg = index::Package {
            id: PreciseId::Github { org, name, path, commit },
            version: pv.ver.clone(),
            minimal_nickel_version: SemVer::new(1, 0, 0),
            dependencies: pv.deps.iter().map(|d| (Ident::new(&d.name), index_dep(d))).collect(),
            authors: vec![],
            description: String::new(),
            keywords: vec![],
            license: String::new(),
        };
        let file = config.index_dir.join(id.path());
        std::fs::create_dir_all(file.parent().unwrap()).map_err(|e| e.to_string())?;
        let line = serde_json::to_string(&index::serialize::PackageFormat::from(pkg)).map_err(|e| e.to_string())?;
        let mut f = std::fs::OpenOptions::new().create(true).append(true).open(&file).map_err(|e| e.to_string())?;
        writeln!(f, "{line}").map_err(|e| e.to_string())?;
    }
    std::fs::create_dir_all(&config.index_dir).map_err(|e| e.to_string())?;
    Ok(Env { dir: dir.to_owned(), config, commits })
}

fn show_path(env: &Env, p: &Path) -> String {
    // <index_package_dir>/contents/<commit>/<subpath>
    let base = env.config.index_package_dir.join("contents");
    match p.strip_prefix(&base) {
        Ok(rest) => {
            let mut comps = rest.components();
            let c = comps.next().map(|c| c.as_os_str().to_string_lossy().to_string()).unwrap_or_default();
            let sub: PathBuf = comps.collect();
            let name = env.commits.get(&c).cloned().unwrap_or(format!("?{c}"));
            if sub.as_os_str().is_empty() { name } else { format!("{name}/{}", sub.display()) }
        }
        Err(_) => format!("?{}", p.display()),
    }
}

fn guarded<T>(f: impl FnOnce() -> Result<T, Error>) -> Result<T, String> {
    match catch_unwind(AssertUnwindSafe(f)) {
        Ok(Ok(x)) => Ok(x),
        Ok(Err(e)) => Err(class_of(&e)),
        Err(_) => Err("PANIC".into()),
    }
}

fn manifest_of(root: &[Dep], env: &Env) -> ManifestFile {
    ManifestFile {
        parent_dir: env.dir.join("root"),
        name: Ident::new("root"),
        version: SemVer::new(0, 0, 1),
        minimal_nickel_version: SemVer::new(1, 0, 0),
        dependencies: root.iter().map(|d| (Ident::new(&d.name), Dependency::Index(index_dep(d)))).collect(),
        authors: vec![],
        description: String::new(),
        keywords: vec![],
        license: String::new(),
    }
}

fn lock_of(locked: &[(String, SemVer)]) -> LockFile {
    let mut l = LockFile::empty();
    for (i, (pkg, v)) in locked.iter().enumerate() {
        l.packages.insert(
            EntryName { name: format!("l{i}"), id: 0 },
            LockFileEntry { precise: LockPrecisePkg::Index { id: id_of(pkg), version: v.clone() }, dependencies: BTreeMap::new() },
        );
    }
    l
}

fn do_resolve(manifest: &ManifestFile, lock: &LockFile, env: &Env) -> Result<Resolution, String> {
    guarded(|| {
        let snap = Snapshot::new(&env.config, &manifest.parent_dir, manifest)?;
        let index = PackageIndex::shared(env.config.clone())?;
        resolve::resolve_with_lock(manifest, lock, snap, index, env.config.clone())
    })
}

/// Everything downstream of a resolution: (A, E, SD, K, M) fields with the given suffix, and the
/// lock file if `LockFile::new` returned one.
fn describe(res: &Resolution, manifest: &ManifestFile, root: &[Dep], env: &Env, sfx: &str) -> (String, Option<LockFile>) {
    let mut out = format!(" A{sfx}={}", show_assignment(res));

    // E: every edge through `precise`
    let mut edges: Vec<String> = vec![];
    let bind = |d: &Dep| -> String {
        let dep = Dependency::Index(index_dep(d));
        match catch_unwind(AssertUnwindSafe(|| res.precise(&dep))) {
            Ok(PrecisePkg::Index(p)) => p.version.to_string(),
            Ok(_) => "?".into(),
            Err(_) => "!".into(),
        }
    };
    let mut root_deps = root.to_vec();
    root_deps.sort_by(|a, b| a.name.cmp(&b.name));
    for d in &root_deps {
        edges.push(format!("root/{}>{}:{}={}", d.name, d.pkg, show_req(&d.req), bind(d)));
    }
    let mut resolved: Vec<(String, SemVer)> = vec![];
    for (id, vs) in &res.index_packages {
        for v in vs {
            resolved.push((pkg_of(id), v.clone()));
        }
    }
    // ordered by the components, not by `Ord for SemVer` (the output order must not depend on it)
    resolved.sort_by(|a, b| {
        (&a.0, a.1.major, a.1.minor, a.1.patch, &a.1.pre).cmp(&(&b.0, b.1.major, b.1.minor, b.1.patch, &b.1.pre))
    });
    let mut sds: Vec<String> = vec![];
    for (pkg, v) in &resolved {
        let id = id_of(pkg);
        match guarded(|| res.index.package(&id, v)) {
            Ok(p) => {
                let mut ds: Vec<Dep> = p
                    .dependencies
                    .iter()
                    .map(|(n, d)| Dep { name: n.label().to_owned(), pkg: pkg_of(&d.id), req: d.version.clone() })
                    .collect();
                ds.sort_by(|a, b| a.name.cmp(&b.name));
                for d in &ds {
                    edges.push(format!("{pkg}@{v}/{}>{}:{}={}", d.name, d.pkg, show_req(&d.req), bind(d)));
                }
            }
            Err(c) => edges.push(format!("{pkg}@{v}/{c}")),
        }
        let prec = PrecisePkg::Index(PreciseIndexPkg { id: id.clone(), version: v.clone() });
        match guarded(|| res.sorted_dependencies(&prec)) {
            Ok(l) => sds.push(format!(
                "{pkg}@{v}[{}]",
                l.iter().map(|(n, _, p)| format!("{}={}", n.label(), show_precise(p))).collect::<Vec<_>>().join(",")
            )),
            Err(c) => sds.push(format!("{pkg}@{v}[{c}]")),
        }
    }
    out += &format!(" E{sfx}={}", edges.join(","));
    out += &format!(" SD{sfx}={}", sds.join(";"));

    // K: lock file
    let lock = guarded(|| LockFile::new(manifest, res));
    match &lock {
        Ok(l) => out += &format!(" K{sfx}={}", show_lock(l)),
        Err(c) => out += &format!(" K{sfx}={c}"),
    }

    // M: package map
    match guarded(|| res.package_map(manifest)) {
        Ok(pm) => {
            let mut top: Vec<String> = pm.top_level.iter().map(|(n, p)| format!("{}={}", n.label(), show_path(env, p))).collect();
            top.sort();
            let mut pk: Vec<String> =
                pm.packages.iter().map(|((pp, n), p)| format!("{}/{}={}", show_path(env, pp), n.label(), show_path(env, p))).collect();
            pk.sort();
            out += &format!(" M{sfx}=ok{{{}|{}}}", top.join(","), pk.join(","));
        }
        Err(c) => out += &format!(" M{sfx}={c}"),
    }
    (out, lock.ok())
}

fn run_case(case: &Case, dir: &Path) -> String {
    let env = match setup(case, dir) {
        Ok(e) => e,
        Err(e) => return format!("res=SETUP:{}", e.replace(' ', "_")),
    };
    let manifest = manifest_of(&case.root, &env);
    let first_lock = lock_of(&case.locked);
    let res = match do_resolve(&manifest, &first_lock, &env) {
        Ok(r) => r,
        Err(c) => return format!("res={c}"),
    };
    let (desc, lock) = describe(&res, &manifest, &case.root, &env, "");
    let mut out = format!("res=ok{desc}");

    // RL / RK: resolve again with the lock file just produced
    let mut reread_lock = None;
    if let Some(l) = &lock {
        // through the on-disk format, as the CLI does
        let lpath = env.dir.join("Nickel-pkg.lock");
        let reread = guarded(|| {
            l.write(&lpath)?;
            LockFile::from_path(&lpath)
        });
        match reread {
            Ok(l2) => {
                if &l2 != l {
                    out += " RL=LOCK-ROUNDTRIP-DIFF";
                } else {
                    match do_resolve(&manifest, &l2, &env) {
                        Ok(res2) => {
                            let a2 = show_assignment(&res2);
                            if a2 == show_assignment(&res) { out += " RL=same" } else { out += &format!(" RL={a2}") }
                            match guarded(|| LockFile::new(&manifest, &res2)) {
                                Ok(k2) => out += if &k2 == l { " RK=same" } else { " RK=diff" },
                                Err(c) => out += &format!(" RK={c}"),
                            }
                        }
                        Err(c) => out += &format!(" RL={c}"),
                    }
                    reread_lock = Some(l2);
                }
            }
            Err(c) => out += &format!(" RL=LOCKIO:{c}"),
        }
    } else {
        out += " RL=skipped";
    }

    // Second phase: the manifest is edited (R2:), the lock file stays.  This is what
    // `ManifestFile::lock` does: keep the lock (copy_from_lock) if it is up to date for the new
    // manifest, otherwise resolve again preferring the locked versions.
    if let (Some(root2), Some(l)) = (&case.root2, &reread_lock) {
        let manifest2 = manifest_of(root2, &env);
        let up = guarded(|| {
            let snap = Snapshot::new(&env.config, &manifest2.parent_dir, &manifest2)?;
            Ok(manifest2.is_lock_file_up_to_date(&snap, l))
        });
        match up {
            Ok(up) => {
                out += &format!(" UP={}", if up { 1 } else { 0 });
                let res2 = if up {
                    guarded(|| {
                        let snap = Snapshot::new(&env.config, &manifest2.parent_dir, &manifest2)?;
                        let index = PackageIndex::shared(env.config.clone())?;
                        resolve::copy_from_lock(l, snap, index, env.config.clone())
                    })
                } else {
                    do_resolve(&manifest2, l, &env)
                };
                match res2 {
                    Ok(r2) => {
                        let (d2, _) = describe(&r2, &manifest2, root2, &env, "2");
                        out += &format!(" res2=ok{d2}");
                    }
                    Err(c) => out += &format!(" res2={c}"),
                }
            }
            Err(c) => out += &format!(" UP={c}"),
        }
    }
    out
}

/// `LAWS V:<v>,<v>,... Q:<req>,<req>,...` — the implementation's own comparison and matching of
/// versions on a pool, for the law check (cmp is a total order consistent with ==) and for the
/// comparison with the model:
///   cmp   one row per version, `<`, `=`, `>` for `a.cmp(b)`
///   eq    one row per version, `1`/`0` for `a == b`
///   bt    number of keys of a `BTreeMap<SemVer, ()>` filled with the pool (the index cache)
///   sd    the pool after `sort(); dedup()` (Resolution::index_packages)
///   bk    `BucketVersion::from(v)` of every version
///   m     one row per requirement, `VersionReq::matches(v)`
///   bc    one row per requirement, `BucketVersion::from(req).contains(v)`
fn laws(line: &str) -> String {
    use nickel_lang_package::resolve::BucketVersion;
    let mut vs: Vec<SemVer> = vec![];
    let mut qs: Vec<VersionReq> = vec![];
    for sec in line.split(' ').skip(1) {
        if let Some(b) = sec.strip_prefix("V:") {
            vs = b.split(',').filter(|x| !x.is_empty()).map(parse_ver).collect();
        } else if let Some(b) = sec.strip_prefix("Q:") {
            qs = b.split(',').filter(|x| !x.is_empty()).map(parse_req).collect();
        }
    }
    let row = |f: &dyn Fn(&SemVer) -> char| -> String { vs.iter().map(f).collect() };
    let cmp: Vec<String> = vs
        .iter()
        .map(|a| row(&|b| match a.cmp(b) { std::cmp::Ordering::Less => '<', std::cmp::Ordering::Equal => '=', std::cmp::Ordering::Greater => '>' }))
        .collect();
    let eq: Vec<String> = vs.iter().map(|a| row(&|b| if a == b { '1' } else { '0' })).collect();
    let bt: BTreeMap<SemVer, ()> = vs.iter().map(|v| (v.clone(), ())).collect();
    let mut sd = vs.clone();
    sd.sort();
    sd.dedup();
    let bk: Vec<String> = vs.iter().map(|v| BucketVersion::from(v.clone()).to_string()).collect();
    let m: Vec<String> = qs.iter().map(|q| row(&|v| if q.matches(v) { '1' } else { '0' })).collect();
    let bc: Vec<String> = qs.iter().map(|q| { let b = BucketVersion::from(q.clone()); row(&|v| if b.contains(v) { '1' } else { '0' }) }).collect();
    format!(
        "laws cmp={} eq={} bt={} sd={} bk={} m={} bc={}",
        cmp.join("/"),
        eq.join("/"),
        bt.len(),
        sd.iter().map(|v| v.to_string()).collect::<Vec<_>>().join(","),
        bk.join(","),
        m.join("/"),
        bc.join("/")
    )
}

fn main() {
    std::panic::set_hook(Box::new(|_| {}));
    if std::env::var_os("HOME").is_none() {
        // `Config::new` wants a project directory even though we override every path
        unsafe { std::env::set_var("HOME", "/tmp") };
    }
    let tmp = std::env::var("TMPDIR").unwrap_or("/tmp".into());
    let base = PathBuf::from(tmp).join(format!("verif-c20-{}", std::process::id()));
    // a killed earlier process with the same pid may have left its scratch directory behind
    let _ = std::fs::remove_dir_all(&base);
    let stdin = std::io::stdin();
    let stdout = std::io::stdout();
    let mut w = std::io::BufWriter::new(stdout.lock());
    for (n, line) in stdin.lock().lines().enumerate() {
        let line = line.unwrap();
        let dir = base.join(n.to_string());
        let _ = std::fs::remove_dir_all(&dir);
        let r = catch_unwind(AssertUnwindSafe(|| {
            if line.starts_with("LAWS ") {
                return laws(&line);
            }
            let case = parse_case(&line);
            run_case(&case, &dir)
        }))
        .unwrap_or_else(|_| "res=HARNESS-PANIC".into());
        let _ = std::fs::remove_dir_all(&dir);
        // flushed per line: if a later universe kills the process (stack overflow, abort) the
        // check still knows which one it was
        writeln!(w, "{r}").unwrap();
        w.flush().unwrap();
    }
    let _ = std::fs::remove_dir_all(&base);
}
