//! scratch probe for C13 (lexer behaviour on raw CR etc.)
use nickel_lang_parser::lexer::{Lexer, Token, StringToken, NormalToken};
fn show(src: &str) {
    let r = std::panic::catch_unwind(|| {
        let lx = Lexer::new(src);
        let mut out = String::new();
        for t in lx {
            match t {
                Ok((a, tok, b)) => out.push_str(&format!("[{a}-{b} {tok:?}] ")),
                Err(e) => { out.push_str(&format!("ERR {e:?}")); break; }
            }
        }
        out
    });
    println!("{:?} => {}", src, match r { Ok(s) => s, Err(_) => "PANIC".into() });
}
fn main() {
    std::panic::set_hook(Box::new(|_| {}));
    for s in ["m%{", "m%", "m%%x", "am%{", "a-s%{", "a-s%", "m %", "m%\"", "_m%{", "m%%\"x\"%%", "mm%{", "\"a\rb\"", "\"\rb\"", "\"\rbcd\"", "\"\r\"", "\"\r\n\"", "\"a\r\n\"", "\"\r%\"", "\"a\r\"", "\"\r\\n\"", "\"\\\n\"", "\"\\\r\"", "\"\\x41\\x7f\\x80\\xZZ\\x4\"", "\"\\é\"", "\"%\"", "\"%%{\"", "\"\\", "\"abc", "\"a\r\rb\"", "\"\r\r\n\"", "\"x\\%{y\"", "\"\u{1F600}\\\u{1F600}\""] {
        show(s);
    }
}
