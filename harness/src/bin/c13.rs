//! C13 harness: data survives export and import across formats.
//!
//! stdin: one case per line, fields separated by TAB; stdout: one line per case, fields separated
//! by TAB.  Strings travel as lists of code points `c1.c2.c3` (`-` = empty), big integers in
//! binary, values as tagged JSON (see `build`).
//!
//!   esc  <cps s>            P=<printed literal> L=<lexer result> A=<parser result>
//!   lex  <cps text>         L=<lexer result on raw text starting with a quote>
//!   key  <cps k>            P=<ident_quoted k> K=<key read back by the parser from `{ P = 1 }`>
//!   ktok <cps text>         first token of the normal-mode lexer, as Ident.lex_key reports it
//!   int  <bits>             T=<json token> P=<i64|u64|f64> Y= J= M= (+ JL= MI= TY= TT=) read-backs
//!   num  <p/q>              per format: token text and what each loader reads back (exact rational)
//!   ys   <cps doc>          EV=<style>:<tag>:<cps> of the first scalar in value position, R=<resolution>
//!   emit <cps s>            EV= of the scalar serde_yaml wrote for the string s, R= what the loader reads
//!   val  <json spec>        the round-trip oracles for one data value, all formats, all loaders
//!   doc  <fmt> <cps text>   every loader of that format on the same document
use std::collections::BTreeMap;
use std::io::{BufRead, Cursor, Write};
use std::panic::{AssertUnwindSafe, catch_unwind};
use std::str::FromStr;

use nickel_lang_core::{
    ast::{Ast, AstAlloc, InputFormat, Node, StringChunk},
    cache::{CacheHub, SourcePath},
    error::NullReporter,
    eval::{
        VirtualMachine, VmContext,
        cache::CacheImpl,
        value::{Container, NickelValue, ValueContentRef},
    },
    files::Files,
    identifier::LocIdent,
    parser::{ErrorTolerantParser, grammar::TermParser, lexer::Lexer},
    position::PosTable,
    serialize::{self, ExportFormat, yaml::Listify},
    term::{BinaryOp, Number, make as mk_term, record::RecordData},
};
use nickel_lang_parser::{
    ast::pretty::ident_quoted,
    lexer::{NormalToken, StringToken, Token},
};

// ------------------------------------------------------------------ code point lists

fn cps_to_string(s: &str) -> String {
    if s == "-" || s.is_empty() {
        return String::new();
    }
    s.split('.').map(|x| char::from_u32(x.parse::<u32>().unwrap()).unwrap()).collect()
}

fn show_cps(s: &str) -> String {
    if s.is_empty() {
        return "-".into();
    }
    s.chars().map(|c| (c as u32).to_string()).collect::<Vec<_>>().join(".")
}

// ------------------------------------------------------------------ canonical trees

#[derive(Clone, Debug, PartialEq)]
enum Tree {
    Null,
    Bool(bool),
    Num(String),
    Str(String),
    Arr(Vec<Tree>),
    Rec(BTreeMap<String, Tree>),
    Other(String),
}

fn tree_of(v: &NickelValue) -> Tree {
    match v.content_ref() {
        ValueContentRef::Null => Tree::Null,
        ValueContentRef::Bool(b) => Tree::Bool(b),
        ValueContentRef::Number(n) => Tree::Num(format!("{n}")),
        ValueContentRef::String(s) => Tree::Str(s.to_string()),
        ValueContentRef::EnumVariant(d) if d.arg.is_none() => Tree::Other(format!("'{}", d.tag.label())),
        ValueContentRef::Array(Container::Empty) => Tree::Arr(vec![]),
        ValueContentRef::Array(Container::Alloc(a)) => Tree::Arr(a.array.iter().map(tree_of).collect()),
        ValueContentRef::Record(Container::Empty) => Tree::Rec(BTreeMap::new()),
        ValueContentRef::Record(Container::Alloc(r)) => {
            let mut m = BTreeMap::new();
            let mut dup = false;
            for (id, f) in r.fields.iter() {
                let t = match &f.value {
                    Some(v) => tree_of(v),
                    None => Tree::Other("<nodef>".into()),
                };
                if m.insert(id.label().to_owned(), t).is_some() {
                    dup = true;
                }
            }
            if dup { Tree::Other("<dupkeys>".into()) } else { Tree::Rec(m) }
        }
        _ => Tree::Other(format!("<{}>", v.type_of().unwrap_or("?"))),
    }
}

fn show_tree(t: &Tree) -> String {
    match t {
        Tree::Null => "null".into(),
        Tree::Bool(b) => format!("{b}"),
        Tree::Num(n) => format!("#{n}"),
        Tree::Str(s) => format!("s{}", show_cps(s)),
        Tree::Arr(a) => format!("[{}]", a.iter().map(show_tree).collect::<Vec<_>>().join(",")),
        Tree::Rec(m) => format!(
            "{{{}}}",
            m.iter().map(|(k, v)| format!("{}:{}", show_cps(k), show_tree(v))).collect::<Vec<_>>().join(",")
        ),
        Tree::Other(s) => format!("?{}", s.replace(['\t', '\n', ' '], "_")),
    }
}

fn leaf_desc(t: &Tree) -> String {
    match t {
        Tree::Arr(a) => format!("[..{}]", a.len()),
        Tree::Rec(m) => format!("{{..{}}}", m.len()),
        _ => show_tree(t),
    }
}

/// First difference: `path|orig|got`, path elements separated by `/` (keys as cps, indices as #i).
fn diff(a: &Tree, b: &Tree, path: &mut Vec<String>) -> Option<String> {
    match (a, b) {
        (Tree::Arr(x), Tree::Arr(y)) if x.len() == y.len() => {
            for (i, (p, q)) in x.iter().zip(y.iter()).enumerate() {
                path.push(format!("#{i}"));
                if let Some(d) = diff(p, q, path) {
                    return Some(d);
                }
                path.pop();
            }
            None
        }
        (Tree::Rec(x), Tree::Rec(y)) if x.keys().eq(y.keys()) => {
            for (k, p) in x.iter() {
                path.push(format!("k{}", show_cps(k)));
                if let Some(d) = diff(p, &y[k], path) {
                    return Some(d);
                }
                path.pop();
            }
            None
        }
        (Tree::Rec(x), Tree::Rec(y)) => {
            let kx: Vec<String> = x.keys().map(|k| show_cps(k)).collect();
            let ky: Vec<String> = y.keys().map(|k| show_cps(k)).collect();
            Some(format!("{}|keys({})|keys({})", path.join("/"), kx.join(","), ky.join(",")))
        }
        _ if a == b => None,
        _ => Some(format!("{}|{}|{}", path.join("/"), leaf_desc(a), leaf_desc(b))),
    }
}

fn cmp_tree(orig: &Tree, got: &Result<Tree, String>) -> String {
    match got {
        Err(e) => format!("ERR({e})"),
        Ok(g) => match diff(orig, g, &mut vec![]) {
            None => "ok".into(),
            Some(d) => format!("DIFF({d})"),
        },
    }
}

// ------------------------------------------------------------------ the evaluation context

/// step budget of one evaluation (recursive YAML anchors denote infinite values)
const FUEL: u64 = 3_000_000;

struct Ctx {
    vm: VmContext<CacheHub, CacheImpl>,
    counter: usize,
}

fn err_class(e: &nickel_lang_core::error::Error) -> String {
    let o = verif_harness::eval::classify(e);
    match o {
        verif_harness::eval::Outcome::Err { class, detail } => {
            format!("{class}:{}", detail.chars().take(80).collect::<String>().replace(['\t', '\n', ' ', '(', ')', '|'], "_"))
        }
        _ => "?".into(),
    }
}

impl Ctx {
    fn new() -> Self {
        Ctx { vm: VmContext::new(CacheHub::new(), std::io::sink(), NullReporter {}), counter: 0 }
    }

    /// Load `text` as a main file of the given format (the `import`/CLI path:
    /// SourceCache::parse_other for data formats) and fully evaluate it.
    fn load_file(&mut self, text: &str, format: InputFormat) -> Result<Tree, String> {
        self.counter += 1;
        let ext = match format {
            InputFormat::Json => "json",
            InputFormat::Yaml => "yaml",
            InputFormat::Toml => "toml",
            _ => "ncl",
        };
        let name = format!("/verif-c13/f{}.{ext}", self.counter);
        let id = self
            .vm
            .import_resolver
            .sources
            .add_source(SourcePath::Path(name.into(), format), Cursor::new(text.to_owned()))
            .map_err(|e| format!("IO:{e}"))?;
        let v = self.vm.prepare_eval(id).map_err(|e| err_class(&e))?;
        nickel_lang_core::verif_hooks::set_fuel(FUEL);
        let r = VirtualMachine::<_, CacheImpl>::new(&mut self.vm).eval_full_for_export(v);
        nickel_lang_core::verif_hooks::set_fuel(u64::MAX);
        match r {
            Ok(v) => Ok(tree_of(&v)),
            Err(e) => Err(err_class(&nickel_lang_core::error::Error::from(e))),
        }
    }

    /// Evaluate a closed term (no stdlib needed) with the real evaluator.
    fn eval_term(&mut self, t: NickelValue) -> Result<NickelValue, String> {
        nickel_lang_core::verif_hooks::set_fuel(FUEL);
        let r = VirtualMachine::<_, CacheImpl>::new_empty_env(&mut self.vm).eval_full(t);
        nickel_lang_core::verif_hooks::set_fuel(u64::MAX);
        r.map_err(|e| err_class(&nickel_lang_core::error::Error::from(e)))
    }
}

fn fmt_tag(f: ExportFormat) -> &'static str {
    match f {
        ExportFormat::Json => "Json",
        ExportFormat::Yaml => "Yaml",
        ExportFormat::Toml => "Toml",
        _ => "Text",
    }
}

fn input_format(f: ExportFormat) -> InputFormat {
    match f {
        ExportFormat::Json => InputFormat::Json,
        ExportFormat::Yaml => InputFormat::Yaml,
        ExportFormat::Toml => InputFormat::Toml,
        _ => InputFormat::Text,
    }
}

/// The library function std.deserialize uses for each format (operation.rs: BinaryOp::Deserialize).
fn deserialize_direct(f: ExportFormat, text: &str) -> Result<NickelValue, String> {
    match f {
        ExportFormat::Json => serde_json::from_str::<NickelValue>(text).map_err(|e| format!("serde_json:{}", short(&e.to_string()))),
        ExportFormat::Yaml => {
            let mut pt = PosTable::new();
            serialize::yaml::load_yaml_value(&mut pt, text, None, Listify::Auto).map_err(|e| format!("load_yaml:{}", short(&format!("{e:?}"))))
        }
        ExportFormat::Toml => toml::from_str::<NickelValue>(text).map_err(|e| format!("toml:{}", short(&e.to_string()))),
        _ => Err("format".into()),
    }
}

/// What a Nickel program observes: the deserialised value, fully evaluated.
fn deserialize_eval(ctx: &mut Ctx, f: ExportFormat, text: &str) -> Result<NickelValue, String> {
    let v = deserialize_direct(f, text)?;
    ctx.eval_term(v)
}

fn short(s: &str) -> String {
    s.chars().take(60).collect::<String>().replace(['\t', '\n', ' ', '(', ')', '|'], "_")
}

/// `nickel convert`: data text -> Ast (load_json / load_yaml / toml ast_from_str) -> Nickel source.
fn convert_to_nickel(f: ExportFormat, text: &str) -> Result<String, String> {
    let alloc = AstAlloc::new();
    let mut files = Files::empty();
    let file_id = files.add("<convert>", text);
    let ast: Result<Ast<'_>, String> = match f {
        ExportFormat::Json => serialize::yaml::load_json(&alloc, text, Some(file_id)).map_err(|e| format!("load_json:{}", short(&format!("{e:?}")))),
        ExportFormat::Yaml => serialize::yaml::load_yaml(&alloc, text, Some(file_id), Listify::Auto).map_err(|e| format!("load_yaml:{}", short(&format!("{e:?}")))),
        ExportFormat::Toml => serialize::toml_deser::ast_from_str(&alloc, text, file_id).map_err(|e| format!("toml_edit:{}", short(&format!("{e:?}")))),
        _ => Err("format".into()),
    };
    Ok(ast?.to_string())
}

fn export_text(f: ExportFormat, v: &NickelValue) -> Result<String, String> {
    if let Err(e) = serialize::validate(f, v) {
        let s = format!("{:?}", e.error);
        let class = if s.starts_with("UnsupportedNull") {
            "null".to_string()
        } else if s.starts_with("NumberOutOfRange") {
            "range".to_string()
        } else if s.starts_with("NonSerializable") {
            "nonser".to_string()
        } else {
            format!("validate:{}", short(&s))
        };
        return Err(class);
    }
    serialize::to_string(f, v).map_err(|e| format!("emit:{}", short(&format!("{:?}", e.error))))
}

// ------------------------------------------------------------------ building values

fn number_of(s: &str) -> Number {
    Number::from_str(s).unwrap_or_else(|_| panic!("bad rational {s}"))
}

fn build(j: &serde_json::Value) -> NickelValue {
    let o = j.as_object().expect("tagged object");
    let (k, v) = o.iter().next().expect("one key");
    match k.as_str() {
        "z" => NickelValue::null(),
        "b" => NickelValue::bool_value_posless(v.as_bool().unwrap()),
        "n" => NickelValue::number_posless(number_of(v.as_str().unwrap())),
        "s" => NickelValue::string_posless(v.as_str().unwrap()),
        "a" => NickelValue::array_posless(v.as_array().unwrap().iter().map(build).collect(), Vec::new()),
        "r" => {
            let fields: Vec<(LocIdent, NickelValue)> = v
                .as_array()
                .unwrap()
                .iter()
                .map(|kv| {
                    let kv = kv.as_array().unwrap();
                    (LocIdent::from(kv[0].as_str().unwrap()), build(&kv[1]))
                })
                .collect();
            NickelValue::record_posless(RecordData::with_field_values(fields))
        }
        _ => panic!("bad tag {k}"),
    }
}

// ------------------------------------------------------------------ lexer / parser cases

fn lex_class(e: &nickel_lang_parser::error::LexicalError) -> &'static str {
    use nickel_lang_parser::error::LexicalError::*;
    match e {
        Generic(..) => "Generic",
        InvalidEscapeSequence(..) => "InvalidEscape",
        InvalidAsciiEscapeCode(..) => "InvalidAscii",
        _ => "OtherLexErr",
    }
}

/// Lex `src` (which starts with a double quote) with the real lexer and fuse the literal parts the
/// way the grammar's ChunkLiteral does.
fn lex_string_real(src: &str) -> String {
    let r = catch_unwind(AssertUnwindSafe(|| {
        let mut lx = Lexer::new(src);
        match lx.next() {
            Some(Ok((_, Token::Normal(NormalToken::DoubleQuote), _))) => {}
            _ => return "E:NotAString".to_string(),
        }
        let mut acc = String::new();
        loop {
            match lx.next() {
                None => return "E:Eof".into(),
                Some(Err(e)) => return format!("E:{}", lex_class(&e)),
                Some(Ok((_, tok, end))) => match tok {
                    Token::Str(StringToken::Literal(s)) => acc.push_str(&s),
                    Token::Str(StringToken::EscapedChar(c)) => acc.push(c),
                    Token::Str(StringToken::Interpolation) => return format!("I:{}", show_cps(&acc)),
                    Token::Normal(NormalToken::DoubleQuote) => {
                        return format!("S:{}|R:{}", show_cps(&acc), show_cps(&src[end..]));
                    }
                    other => return format!("E:Unexpected_{other:?}").replace(' ', "_"),
                },
            }
        }
    }));
    r.unwrap_or_else(|_| "E:Panic".into())
}

fn static_string_of(node: &Node<'_>) -> Option<String> {
    match node {
        Node::String(s) => Some((*s).to_owned()),
        Node::StringChunks(chunks) => {
            let mut acc = String::new();
            for c in chunks.iter() {
                match c {
                    StringChunk::Literal(s) => acc.push_str(s),
                    StringChunk::Expr(..) => return None,
                }
            }
            Some(acc)
        }
        _ => None,
    }
}

fn parse_nickel<'a>(alloc: &'a AstAlloc, src: &str) -> Result<Ast<'a>, String> {
    let mut files = Files::empty();
    let file_id = files.add("<c13>", src);
    let r = catch_unwind(AssertUnwindSafe(|| TermParser::new().parse_strict(alloc, file_id, Lexer::new(src))));
    match r {
        Ok(Ok(a)) => Ok(a),
        Ok(Err(_)) => Err("Parse".into()),
        Err(_) => Err("Panic".into()),
    }
}

fn case_esc(s: &str) -> String {
    let alloc = AstAlloc::new();
    let printed = Ast::from(Node::String(alloc.alloc_str(s))).to_string();
    let lexed = lex_string_real(&printed);
    let alloc2 = AstAlloc::new();
    let parsed = match parse_nickel(&alloc2, &printed) {
        Ok(a) => match static_string_of(&a.node) {
            Some(t) => format!("S:{}", show_cps(&t)),
            None => "E:NotStatic".into(),
        },
        Err(e) => format!("E:{e}"),
    };
    format!("P={}\tL={}\tA={}", show_cps(&printed), lexed, parsed)
}

fn case_key(k: &str) -> String {
    let printed = ident_quoted(k);
    let src = format!("{{ {printed} = 1 }}");
    let alloc = AstAlloc::new();
    let key = match parse_nickel(&alloc, &src) {
        Ok(a) => match &a.node {
            Node::Record(r) if r.field_defs.len() == 1 && r.field_defs[0].path.len() == 1 => {
                match r.field_defs[0].path[0].try_as_ident() {
                    Some(id) => show_cps(id.label()),
                    None => "!dyn".into(),
                }
            }
            _ => "!shape".into(),
        },
        Err(e) => format!("!{e}"),
    };
    // the printer proper (a record Ast with that field) must print the same key text
    let alloc2 = AstAlloc::new();
    let via_printer = {
        use nickel_lang_core::ast::record::{FieldDef, FieldMetadata, FieldPathElem};
        use nickel_lang_core::position::TermPos;
        let fd = FieldDef {
            path: FieldPathElem::single_ident_path(&alloc2, LocIdent::from(k)),
            metadata: FieldMetadata::default(),
            value: Some(Ast::from(Node::Null)),
            pos: TermPos::default(),
        };
        let rec: Ast<'_> = Node::Record(alloc2.record_data([], [fd], false)).into();
        rec.to_string()
    };
    // layout-insensitive: `{ KEY = null }` or, for long keys, `{\n  KEY = null\n}`
    let inner = via_printer
        .strip_prefix('{')
        .and_then(|t| t.strip_suffix('}'))
        .map(|t| t.trim_matches([' ', '\n']))
        .unwrap_or("");
    let same = inner
        .strip_prefix(printed.as_str())
        .map(|rest| rest.split_whitespace().collect::<Vec<_>>() == ["=", "null"])
        .unwrap_or(false);
    let pp = if same { "same".to_string() } else { format!("DIFF:{}", show_cps(&via_printer)) };
    format!("P={}\tK={}\tPP={}", show_cps(&printed), key, pp)
}

fn case_ktok(src: &str) -> String {
    if src.starts_with('"') {
        let r = lex_string_real(src);
        return match r.split_once('|') {
            Some((a, _)) => a.to_string(),
            None => {
                if let Some(_) = r.strip_prefix("I:") { "D".into() } else { r }
            }
        };
    }
    let r = catch_unwind(AssertUnwindSafe(|| {
        let mut lx = Lexer::new(src);
        match lx.next() {
            None => "O".to_string(),
            Some(Err(e)) => format!("E:{}", lex_class(&e)),
            Some(Ok((a, tok, b))) => match tok {
                Token::Normal(NormalToken::Identifier(id)) => format!("I:{}", show_cps(id)),
                Token::Normal(NormalToken::MultiStringStart(_)) | Token::Normal(NormalToken::SymbolicStringStart(_)) => "M".into(),
                Token::Normal(_) => {
                    let text = &src[a..b];
                    let identlike = {
                        let t = text.trim_start_matches('_');
                        !t.is_empty()
                            && t.chars().next().unwrap().is_ascii_alphabetic()
                            && t.chars().all(|c| c.is_ascii_alphanumeric() || c == '_' || c == '-' || c == '\'')
                    };
                    if identlike { format!("W:{}", show_cps(text)) } else { "O".into() }
                }
                _ => "O".into(),
            },
        }
    }));
    r.unwrap_or_else(|_| "E:Panic".into())
}

// ------------------------------------------------------------------ numbers

fn z_of_bits(b: &str) -> Number {
    let (neg, digits) = match b.strip_prefix('-') {
        Some(d) => (true, d),
        None => (false, b),
    };
    let mut n = Number::from(0);
    let two = Number::from(2);
    for c in digits.chars() {
        n = n * &two + Number::from(if c == '1' { 1 } else { 0 });
    }
    if neg { -n } else { n }
}

fn show_num_result(r: Result<NickelValue, String>) -> String {
    match r {
        Err(e) => format!("E({e})"),
        Ok(v) => match tree_of(&v) {
            Tree::Num(n) => format!("N:{n}"),
            t => show_tree(&t),
        },
    }
}

fn field_x(r: Result<NickelValue, String>) -> Result<NickelValue, String> {
    let v = r?;
    match v.content_ref() {
        ValueContentRef::Record(Container::Alloc(rec)) => rec
            .fields
            .iter()
            .find(|(id, _)| id.label() == "x")
            .and_then(|(_, f)| f.value.clone())
            .ok_or_else(|| "nofield".to_string()),
        _ => Err("notrecord".into()),
    }
}

fn case_num(n: Number) -> String {
    let v = NickelValue::number_posless(n);
    let wrapped = NickelValue::record_posless(RecordData::with_field_values([(LocIdent::from("x"), v.clone())]));
    let mut out = Vec::new();
    // JSON
    match export_text(ExportFormat::Json, &v) {
        Ok(t) => {
            let t = t.trim().to_string();
            out.push(format!("T={}", show_cps(&t)));
            out.push(format!("J={}", show_num_result(deserialize_direct(ExportFormat::Json, &t))));
            let mut pt = PosTable::new();
            out.push(format!(
                "JL={}",
                show_num_result(serialize::yaml::load_json_value(&mut pt, &t, None).map_err(|e| short(&format!("{e:?}"))))
            ));
        }
        Err(e) => out.push(format!("T=!{e}")),
    }
    // YAML
    match export_text(ExportFormat::Yaml, &v) {
        Ok(t) => {
            out.push(format!("TY={}", show_cps(t.trim())));
            out.push(format!("Y={}", show_num_result(deserialize_direct(ExportFormat::Yaml, &t))));
        }
        Err(e) => out.push(format!("TY=!{e}")),
    }
    // TOML (needs a table at top level)
    match export_text(ExportFormat::Toml, &wrapped) {
        Ok(t) => {
            let tok = t.trim().strip_prefix("x = ").unwrap_or(t.trim()).to_string();
            out.push(format!("TT={}", show_cps(&tok)));
            out.push(format!("M={}", show_num_result(field_x(deserialize_direct(ExportFormat::Toml, &t)))));
            let mut pt = PosTable::new();
            let mut files = Files::empty();
            let fid = files.add("<t>", t.as_str());
            out.push(format!(
                "MI={}",
                show_num_result(field_x(serialize::toml_deser::from_str(&mut pt, &t, fid).map_err(|e| short(&format!("{e:?}")))))
            ));
        }
        Err(e) => out.push(format!("TT=!{e}")),
    }
    out.join("\t")
}

// ------------------------------------------------------------------ YAML scalars

fn style_name(s: saphyr_parser::ScalarStyle) -> &'static str {
    use saphyr_parser::ScalarStyle::*;
    match s {
        Plain => "plain",
        SingleQuoted => "single",
        DoubleQuoted => "double",
        Literal => "literal",
        Folded => "folded",
    }
}

struct ScalarSpy {
    depth_keys: Vec<Option<bool>>, // for each open container: Some(expecting_key) for maps, None for seqs
    found: Option<String>,
}

impl<'i> saphyr_parser::SpannedEventReceiver<'i> for ScalarSpy {
    fn on_event(&mut self, ev: saphyr_parser::Event<'i>, _span: saphyr_parser::Span) {
        use saphyr_parser::Event::*;
        match ev {
            MappingStart(..) => {
                self.flip();
                self.depth_keys.push(Some(true));
            }
            SequenceStart(..) => {
                self.flip();
                self.depth_keys.push(None);
            }
            MappingEnd | SequenceEnd => {
                self.depth_keys.pop();
            }
            Alias(_) => self.flip(),
            Scalar(value, style, _aid, tag) => {
                let is_key = matches!(self.depth_keys.last(), Some(Some(true)));
                if !is_key && self.found.is_none() {
                    let tagk = match tag.as_ref() {
                        None => "none".to_string(),
                        Some(t) => {
                            if t.is_yaml_core_schema() {
                                match t.suffix.as_ref() {
                                    "bool" => "bool".into(),
                                    "int" => "int".into(),
                                    "float" => "float".into(),
                                    "null" => "null".into(),
                                    "str" => "str".into(),
                                    _ => "coreother".into(),
                                }
                            } else {
                                "noncore".into()
                            }
                        }
                    };
                    self.found = Some(format!("{}:{}:{}", style_name(style), tagk, show_cps(&value)));
                }
                self.flip();
            }
            _ => {}
        }
    }
}

impl ScalarSpy {
    fn flip(&mut self) {
        if let Some(Some(k)) = self.depth_keys.last_mut() {
            *k = !*k;
        }
    }
}

fn first_value_scalar(doc: &str) -> String {
    let mut spy = ScalarSpy { depth_keys: vec![], found: None };
    let mut parser = saphyr_parser::Parser::new(saphyr_parser::BufferedInput::new(doc.chars()));
    match parser.load(&mut spy, true) {
        Ok(()) => spy.found.unwrap_or_else(|| "none".into()),
        Err(_) => "scanerr".into(),
    }
}

fn first_leaf(t: &Tree) -> Option<&Tree> {
    match t {
        Tree::Arr(a) => a.first().and_then(first_leaf),
        Tree::Rec(m) => m.values().next().and_then(first_leaf),
        _ => Some(t),
    }
}

fn show_resolution(r: Result<NickelValue, String>) -> String {
    match r {
        Err(_) => "E".into(),
        Ok(v) => match first_leaf(&tree_of(&v)) {
            Some(Tree::Null) => "Z".into(),
            Some(Tree::Bool(b)) => format!("B:{b}"),
            Some(Tree::Num(n)) => format!("N:{n}"),
            Some(Tree::Str(s)) => format!("S:{}", show_cps(s)),
            Some(t) => show_tree(t),
            None => "none".into(),
        },
    }
}

fn case_ys(ctx: &mut Ctx, doc: &str) -> String {
    format!("EV={}\tR={}", first_value_scalar(doc), show_resolution(deserialize_eval(ctx, ExportFormat::Yaml, doc)))
}

fn case_emit(ctx: &mut Ctx, s: &str) -> String {
    let v = NickelValue::string_posless(s);
    match export_text(ExportFormat::Yaml, &v) {
        Err(e) => format!("EV=!{e}"),
        Ok(text) => format!(
            "EV={}\tR={}\tTXT={}",
            first_value_scalar(&text),
            show_resolution(deserialize_eval(ctx, ExportFormat::Yaml, &text)),
            show_cps(&text)
        ),
    }
}

// ------------------------------------------------------------------ the round-trip oracles

/// `deep <pattern> <leaf spec>`: the leaf wrapped in one container per pattern character
/// (`a` = singleton array, `r` = record with the field `k`), innermost first, in a top-level record.
fn build_deep(pattern: &str, leaf: &str) -> NickelValue {
    let j: serde_json::Value = serde_json::from_str(leaf).expect("leaf spec");
    let mut v = build(&j);
    for c in pattern.chars() {
        v = match c {
            'a' => NickelValue::array_posless([v].into_iter().collect(), Vec::new()),
            _ => NickelValue::record_posless(RecordData::with_field_values([(LocIdent::from("k"), v)])),
        };
    }
    NickelValue::record_posless(RecordData::with_field_values([(LocIdent::from("top"), v)]))
}

fn case_val(ctx: &mut Ctx, spec: &str, detail: bool) -> String {
    let j: serde_json::Value = serde_json::from_str(spec).expect("value spec");
    let v = build(&j);
    oracles(ctx, v, detail)
}

fn oracles(ctx: &mut Ctx, v: NickelValue, detail: bool) -> String {
    let orig = tree_of(&v);
    let mut out: Vec<String> = Vec::new();
    let is_record = matches!(orig, Tree::Rec(_));
    // the independently exported JSON of the original is the reference for the convert path
    for f in [ExportFormat::Json, ExportFormat::Yaml, ExportFormat::Toml] {
        let name = fmt_tag(f).to_lowercase();
        if f == ExportFormat::Toml && !is_record {
            out.push(format!("{name}.ser=skip(toplevel)"));
            continue;
        }
        let text = match export_text(f, &v) {
            Ok(t) => t,
            Err(e) => {
                out.push(format!("{name}.ser=ERR({e})"));
                continue;
            }
        };
        out.push(format!("{name}.ser=ok"));
        if detail {
            out.push(format!("{name}.txt={}", show_cps(&text)));
        }
        // 1. the function std.deserialize calls
        let des = deserialize_eval(ctx, f, &text);
        out.push(format!("{name}.des={}", cmp_tree(&orig, &des.as_ref().map(tree_of).map_err(|e| e.clone()))));
        // 2. textual fixpoint: export(import(export(v))) == export(v)
        if let Ok(dv) = &des {
            let again = export_text(f, dv);
            out.push(format!(
                "{name}.fix={}",
                match again {
                    Ok(t2) if t2 == text => "ok".to_string(),
                    Ok(t2) => format!("DIFF({})", if detail { show_cps(&t2) } else { format!("len{}", t2.len()) }),
                    Err(e) => format!("ERR({e})"),
                }
            ));
        }
        // 3. file import (SourceCache::parse_other)
        let imp = ctx.load_file(&text, input_format(f));
        out.push(format!("{name}.imp={}", cmp_tree(&orig, &imp)));
        // 4. through the evaluator: %deserialize% 'F (%serialize% 'F v)
        let term = mk_term::op2(
            BinaryOp::Deserialize,
            NickelValue::enum_tag_posless(fmt_tag(f)),
            mk_term::op2(BinaryOp::Serialize, NickelValue::enum_tag_posless(fmt_tag(f)), v.clone()),
        );
        let ev = ctx.eval_term(term);
        out.push(format!("{name}.ev={}", cmp_tree(&orig, &ev.as_ref().map(tree_of).map_err(|e| e.clone()))));
        // 4b. %serialize% gives the text the library function gives
        let ser_term = mk_term::op2(BinaryOp::Serialize, NickelValue::enum_tag_posless(fmt_tag(f)), v.clone());
        let evser = ctx.eval_term(ser_term);
        out.push(format!(
            "{name}.evser={}",
            match evser.as_ref().map(tree_of) {
                Ok(Tree::Str(s)) if s == text => "ok".to_string(),
                Ok(t) => format!("DIFF({})", leaf_desc(&t).chars().take(80).collect::<String>()),
                Err(e) => format!("ERR({e})"),
            }
        ));
        // 5. nickel convert: data -> Nickel source (printer) -> parse -> evaluate
        match convert_to_nickel(f, &text) {
            Err(e) => out.push(format!("{name}.conv=ERR({e})")),
            Ok(src) => {
                let conv = ctx.load_file(&src, InputFormat::Nickel);
                out.push(format!("{name}.conv={}", cmp_tree(&orig, &conv)));
                if detail {
                    out.push(format!("{name}.ncl={}", show_cps(&src)));
                }
            }
        }
    }
    // 'YamlDocuments: an array is written as one document per element and read back as an array
    if let Tree::Arr(_) = orig {
        let term = mk_term::op2(
            BinaryOp::Deserialize,
            NickelValue::enum_tag_posless("YamlDocuments"),
            mk_term::op2(BinaryOp::Serialize, NickelValue::enum_tag_posless("YamlDocuments"), v.clone()),
        );
        let ev = ctx.eval_term(term);
        out.push(format!("yaml.docs={}", cmp_tree(&orig, &ev.as_ref().map(tree_of).map_err(|e| e.clone()))));
    }
    out.join("\t")
}

fn case_doc(ctx: &mut Ctx, fmt: &str, text: &str) -> String {
    let f = match fmt {
        "json" => ExportFormat::Json,
        "yaml" => ExportFormat::Yaml,
        "toml" => ExportFormat::Toml,
        _ => return "!fmt".into(),
    };
    let show = |r: Result<Tree, String>| match r {
        Ok(t) => show_tree(&t),
        Err(e) => format!("ERR({e})"),
    };
    let mut out = Vec::new();
    out.push(format!("des={}", show(deserialize_eval(ctx, f, text).map(|v| tree_of(&v)))));
    out.push(format!("imp={}", show(ctx.load_file(text, input_format(f)))));
    let term = mk_term::op2(BinaryOp::Deserialize, NickelValue::enum_tag_posless(fmt_tag(f)), NickelValue::string_posless(text));
    out.push(format!("ev={}", show(ctx.eval_term(term).map(|v| tree_of(&v)))));
    out.push(format!(
        "conv={}",
        show(convert_to_nickel(f, text).and_then(|src| ctx.load_file(&src, InputFormat::Nickel)))
    ));
    if f == ExportFormat::Json {
        // a JSON document is a YAML document
        out.push(format!("asyaml={}", show(deserialize_eval(ctx, ExportFormat::Yaml, text).map(|v| tree_of(&v)))));
    }
    out.join("\t")
}

// ------------------------------------------------------------------ main loop

fn handle(ctx: &mut Ctx, line: &str) -> String {
    let fields: Vec<&str> = line.split('\t').collect();
    match fields.as_slice() {
        ["esc", s] => case_esc(&cps_to_string(s)),
        ["lex", s] => format!("L={}", lex_string_real(&cps_to_string(s))),
        ["key", k] => case_key(&cps_to_string(k)),
        ["ktok", s] => case_ktok(&cps_to_string(s)),
        ["int", b] => case_num(z_of_bits(b)),
        ["num", q] => case_num(number_of(q)),
        ["ys", doc] => case_ys(ctx, &cps_to_string(doc)),
        ["emit", s] => case_emit(ctx, &cps_to_string(s)),
        ["val", spec] => case_val(ctx, spec, false),
        ["val", spec, "detail"] => case_val(ctx, spec, true),
        ["deep", pattern, leaf] => oracles(ctx, build_deep(pattern, leaf), false),
        ["doc", fmt, text] => case_doc(ctx, fmt, &cps_to_string(text)),
        _ => "!badcase".into(),
    }
}

fn main() {
    std::panic::set_hook(Box::new(|_| {}));
    let h = std::thread::Builder::new()
        .stack_size(1 << 30)
        .spawn(|| {
            let stdin = std::io::stdin();
            let stdout = std::io::stdout();
            let mut w = std::io::BufWriter::new(stdout.lock());
            let mut ctx = Ctx::new();
            nickel_lang_core::verif_hooks::set_fuel(u64::MAX);
            for (n, line) in stdin.lock().lines().enumerate() {
                let line = line.unwrap();
                // every loaded source stays in the context's caches: start afresh now and then
                if n % 150 == 149 {
                    ctx = Ctx::new();
                }
                let r = catch_unwind(AssertUnwindSafe(|| handle(&mut ctx, &line)));
                match r {
                    Ok(s) => writeln!(w, "{s}").unwrap(),
                    Err(p) => {
                        let msg = p
                            .downcast_ref::<String>()
                            .cloned()
                            .or_else(|| p.downcast_ref::<&str>().map(|s| s.to_string()))
                            .unwrap_or_default();
                        // the context may be in an inconsistent state after an unwind
                        ctx = Ctx::new();
                        writeln!(w, "PANIC({})", short(&msg)).unwrap()
                    }
                }
                w.flush().unwrap();
            }
        })
        .unwrap();
    h.join().unwrap();
}
