//! C02 syntactic tie.  One type (Nickel source) per stdin line; for each, one stdout line
//!   `T <type s-expr>\tF <skeleton of Type::contract>\tS <skeleton of Type::contract_static>\tH <0|1>`
//! (H: RuntimeContract::from_static_type gives S with hook H2 off and F with hook H2 on)
//! or `ERR <what>`.  The type s-expr is the parsed `Type` (with the excluded sets the parser
//! computed for record-row variables); the skeletons are obtained by walking the `NickelValue`
//! that the real `subcontract` built: which `$internals` function is applied to which
//! sub-contracts.  Nothing here re-implements typ.rs.
use nickel_lang_core::{
    eval::value::{Container, NickelValue, ValueContentRef},
    files::Files,
    parser::{ErrorTolerantParserCompat, grammar::FixedTypeParser, lexer::Lexer},
    position::PosTable,
    label::Label,
    term::{BinaryOp, LabeledType, RuntimeContract, Term},
    traverse::{Traverse, TraverseControl},
    typ::{
        DictTypeFlavour, EnumRows, EnumRowsF, RecordRows, RecordRowsF, Type, TypeF, VarKind,
    },
};
use std::io::{BufRead, Write};

fn hx(s: &str) -> String {
    let mut out = String::from("x");
    for b in s.as_bytes() {
        out.push_str(&format!("{b:02x}"));
    }
    out
}

// ------------------------------------------------------------------ the parsed type

fn sx_type(t: &Type) -> String {
    match &t.typ {
        TypeF::Dyn => "Dyn".into(),
        TypeF::Number => "Num".into(),
        TypeF::String => "Str".into(),
        TypeF::Bool => "Bool".into(),
        TypeF::Array(t) => format!("(arr {})", sx_type(t)),
        TypeF::Arrow(a, b) => format!("(fun {} {})", sx_type(a), sx_type(b)),
        TypeF::Record(rrows) => sx_rrows(rrows),
        TypeF::Dict { type_fields, flavour } => format!(
            "(dict {} {})",
            match flavour {
                DictTypeFlavour::Type => "t",
                DictTypeFlavour::Contract => "c",
            },
            sx_type(type_fields)
        ),
        TypeF::Enum(erows) => sx_erows(erows),
        TypeF::Forall { var, var_kind, body } => {
            let k = match var_kind {
                VarKind::Type => "ty".to_string(),
                VarKind::EnumRows { .. } => "en".to_string(),
                VarKind::RecordRows { excluded } => {
                    let mut ex: Vec<String> = excluded.iter().map(|i| i.label().to_owned()).collect();
                    ex.sort();
                    format!("(rr{})", ex.iter().map(|e| format!(" {}", hx(e))).collect::<String>())
                }
            };
            format!("(all {} {} {})", hx(var.label()), k, sx_type(body))
        }
        TypeF::Var(id) => format!("(tv {})", hx(id.label())),
        TypeF::Contract(_) => "(op 0)".into(),
        TypeF::ForeignId | TypeF::Symbol | TypeF::Wildcard(_) => "(unsupported)".into(),
    }
}

fn sx_rrows(rrows: &RecordRows) -> String {
    let mut rows = Vec::new();
    let mut cur = rrows;
    let tail = loop {
        match &cur.0 {
            RecordRowsF::Empty => break "closed".to_string(),
            RecordRowsF::TailDyn => break "dyn".to_string(),
            RecordRowsF::TailVar(id) => break format!("(var {})", hx(id.label())),
            RecordRowsF::Extend { row, tail } => {
                rows.push(format!("({} {})", hx(row.id.label()), sx_type(&row.typ)));
                cur = tail;
            }
        }
    };
    format!("(rec {}{})", tail, rows.iter().map(|r| format!(" {r}")).collect::<String>())
}

fn sx_erows(erows: &EnumRows) -> String {
    let mut rows = Vec::new();
    let mut cur = erows;
    let tail = loop {
        match &cur.0 {
            EnumRowsF::Empty => break "closed".to_string(),
            EnumRowsF::TailVar(id) => break format!("(var {})", hx(id.label())),
            EnumRowsF::Extend { row, tail } => {
                rows.push(match &row.typ {
                    None => format!("({})", hx(row.id.label())),
                    Some(t) => format!("({} {})", hx(row.id.label()), sx_type(t)),
                });
                cur = tail;
            }
        }
    };
    format!("(enum {}{})", tail, rows.iter().map(|r| format!(" {r}")).collect::<String>())
}

// ------------------------------------------------------------------ the generated contract

fn unwrap_custom(v: &NickelValue) -> &NickelValue {
    match v.content_ref() {
        ValueContentRef::CustomContract(inner) => unwrap_custom(inner),
        _ => v,
    }
}

/// `f a b c` -> (f, [a, b, c])
fn spine(v: &NickelValue) -> (&NickelValue, Vec<&NickelValue>) {
    let mut args = Vec::new();
    let mut cur = v;
    loop {
        match cur.as_term() {
            Some(Term::App(data)) => {
                args.push(&data.arg);
                cur = &data.head;
            }
            _ => break,
        }
    }
    args.reverse();
    (cur, args)
}

fn var_name(v: &NickelValue) -> Option<String> {
    match v.as_term() {
        Some(Term::Var(id)) => Some(id.label().to_owned()),
        _ => None,
    }
}

fn str_array(v: &NickelValue) -> String {
    let mut items: Vec<String> = Vec::new();
    if let Some(Container::Alloc(a)) = v.as_array() {
        for e in a.array.iter() {
            items.push(e.as_string().map(|s| hx(s.as_ref())).unwrap_or_else(|| "?".into()));
        }
    }
    items.sort();
    format!("[{}]", items.join(" "))
}

fn key(v: &NickelValue) -> String {
    v.as_sealing_key().map(|k| format!("{k}")).unwrap_or_else(|| "?".into())
}

fn skel(v: &NickelValue) -> String {
    let v = unwrap_custom(v);
    let (head, args) = spine(v);
    let Some(name) = var_name(head) else {
        return "(opaque)".into();
    };
    if !name.starts_with('$') {
        return "(opaque)".into();
    }
    match (name.as_str(), args.len()) {
        ("$dyn" | "$num" | "$bool" | "$string" | "$array_dyn" | "$func_dyn" | "$dict_dyn" | "$forall_enum_tail"
         | "$empty_tail" | "$dyn_tail", 0) => name,
        ("$array" | "$func_dom" | "$func_codom" | "$dict_contract" | "$dict_type", 1) => {
            format!("({} {})", name, skel(args[0]))
        }
        ("$func", 2) => format!("($func {} {})", skel(args[0]), skel(args[1])),
        ("$forall", 3) => {
            let pol = match args[1].as_enum_variant().map(|d| d.tag.label().to_owned()).as_deref() {
                Some("Positive") => "+",
                Some("Negative") => "-",
                _ => "?",
            };
            format!("($forall {} {} {})", key(args[0]), pol, skel(args[2]))
        }
        ("$forall_var", 1) => format!("($forall_var {})", key(args[0])),
        ("$forall_record_tail", 2) => format!("($forall_record_tail {} {})", key(args[0]), str_array(args[1])),
        ("$forall_record_tail_excluded_only", 1) => {
            format!("($forall_record_tail_excluded_only {})", str_array(args[0]))
        }
        ("$record_type", 3) => {
            let mut fields = Vec::new();
            if let Some(Container::Alloc(r)) = args[0].as_record() {
                for (id, field) in r.fields.iter() {
                    let c = field.value.as_ref().map(skel).unwrap_or_else(|| "?".into());
                    fields.push(format!("{}={}", hx(id.label()), c));
                }
            }
            let has_tail = match args[2].as_bool() {
                Some(true) => "true",
                Some(false) => "false",
                None => "?",
            };
            format!("($record_type {{{}}} {} {})", fields.join(" "), skel(args[1]), has_tail)
        }
        ("$enum", 1) => {
            // the matcher is a pre-compiled match: list the contracts it applies, in order
            let mut parts: Vec<String> = Vec::new();
            let mut fail = false;
            args[0].traverse_ref(
                &mut |t: &NickelValue, _: &()| -> TraverseControl<(), ()> {
                    match t.as_term() {
                        Some(Term::Op2(data)) if matches!(data.op, BinaryOp::ContractApply) => {
                            parts.push(skel(&data.arg1));
                            TraverseControl::SkipBranch
                        }
                        Some(Term::Var(id)) if id.label() == "$enum_fail" => {
                            fail = true;
                            TraverseControl::Continue
                        }
                        _ => TraverseControl::Continue,
                    }
                },
                &(),
            );
            if fail {
                parts.push("$enum_fail".into());
            }
            format!("($enum{})", parts.iter().map(|p| format!(" {p}")).collect::<String>())
        }
        _ => format!("(unknown {} {})", name, args.len()),
    }
}

fn main() {
    let stdin = std::io::stdin();
    let stdout = std::io::stdout();
    let mut w = std::io::BufWriter::new(stdout.lock());
    for line in stdin.lock().lines() {
        let line = line.unwrap();
        let res = std::panic::catch_unwind(|| {
            let mut pos_table = PosTable::new();
            let id = Files::empty().add("<t>", line.clone());
            match FixedTypeParser::new().parse_strict_compat(&mut pos_table, id, Lexer::new(&line)) {
                Ok(ty) => {
                    let full = match ty.contract(&mut pos_table) {
                        Ok(c) => skel(&c),
                        Err(_) => "UNBOUND".into(),
                    };
                    let stat = match ty.clone().contract_static(&mut pos_table) {
                        Ok(c) => skel(&c),
                        Err(_) => "UNBOUND".into(),
                    };
                    // hook H2: RuntimeContract::from_static_type must produce the static contract
                    // with the toggle off and the full contract with the toggle on
                    let mut via_hook = |on: bool| {
                        nickel_lang_core::verif_hooks::set_full_static_contracts(on);
                        let r = RuntimeContract::from_static_type(
                            &mut pos_table,
                            LabeledType { typ: ty.clone(), label: Label::default() },
                        );
                        nickel_lang_core::verif_hooks::set_full_static_contracts(false);
                        match r {
                            Ok(c) => skel(&c.contract),
                            Err(_) => "UNBOUND".into(),
                        }
                    };
                    let h_off = via_hook(false);
                    let h_on = via_hook(true);
                    let h = if h_off == stat && h_on == full { "H 1" } else { "H 0" };
                    format!("T {}\tF {}\tS {}\t{}", sx_type(&ty), full, stat, h)
                }
                Err(_) => "ERR parse".to_string(),
            }
        });
        let out = res.unwrap_or_else(|_| "ERR panic".to_string());
        writeln!(w, "{out}").unwrap();
    }
    w.flush().unwrap();
}
