//! Shared helpers for the verification harness binaries.
pub mod eval;
pub mod c14;
