//! Shared helpers for the verification harness binaries.
