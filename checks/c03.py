"""C03 — built-in type contracts accept exactly the values of their type
(core/src/typ.rs subcontract, core/stdlib/internals.ncl, operation.rs contract primops)."""
import json
import os
from fractions import Fraction

from vlib import core

META = {
    "harness_bins": ["nkeval", "c02"],
    "extract": "C03.v",
    "technique": "Coq proof that an implementation-shaped model of contract generation (typ.rs subcontract) and application (internals.ncl bodies) accepts exactly the members of the type, returns the value unchanged and is idempotent; model tied to the interpreter by running the same (value, type) pairs through the extracted model and through `value | T` at the three annotation sites and twice",
    "level_text": "Theorems (coq/Props/C03.v), for every first-order type T (Number, String, Bool, Dyn, Array, closed/open record types, both dictionary flavours, closed enum types with optional arguments; no repeated record field / enum alternative) and every data value v, at either label polarity: check T v succeeds iff member T v (member is a separate specification written from the manual); on success the result equals v up to record field order; a second application returns exactly the first result; on failure the error is a blame with the label's polarity. check is the composition of a model of Type::subcontract (all specialisations, sealing-key counter, variable environment) and a model of the internals.ncl contract bodies ($record_type split/missing/extra/tail wrappers, $dict_*, $enum matcher, $array). The models are hand-written; the tie is the correspondence run: generated (v,T) pairs are printed as Nickel source from the model's own (v,T) and evaluated by the real interpreter (harness nkeval, eval_full) as `v | T`, `let x | T = v in x`, `{f | T = v}.f` and `(v | T) | T`, and compared with the model's predicted outcome (result tree or error class with blame polarity); an independent Python membership function is the direct oracle.",
    "level_note": "Trusted: Coq kernel; extraction (ExtrOcamlBasic, ExtrOcamlNativeString); the OCaml printers of values/types to Nickel source and the Python generator/oracle; the hand-written reading of typ.rs/internals.ncl (validated only by the correspondence run, whose coverage is the exhaustive small universe plus the seeded sample). Not modelled: evaluation order of the deep force (only one error class is possible on data, proved as check_fail_is_blame), field order inside records (unspecified in merge.rs; results compared up to order), sealing/polymorphic tails and function contracts (C02/C11), metadata on the checked value's fields, numbers beyond exact small rationals.",
}

# ----------------------------------------------------------------------------- representation
# value: ("n", num, den) ("s", str) ("b", bool) ("u",) ("e", tag) ("v", tag, value) ("a", [values]) ("r", [(key, value)])
# type : "Dyn" "Num" "Str" "Bool" ("arr", T) ("rec", "closed"|"dyn", [(key, T)]) ("dict", "t"|"c", T)
#        ("enum", "closed", [(tag, None|T)])


def hx(s):
    return "x" + s.encode("utf-8").hex()


def sx_v(v):
    k = v[0]
    if k == "n":
        return "(n %d %d)" % (v[1], v[2])
    if k == "s":
        return "(s %s)" % hx(v[1])
    if k == "b":
        return "(b %d)" % (1 if v[1] else 0)
    if k == "u":
        return "(u)"
    if k == "e":
        return "(e %s)" % hx(v[1])
    if k == "v":
        return "(v %s %s)" % (hx(v[1]), sx_v(v[2]))
    if k == "a":
        return "(a" + "".join(" " + sx_v(x) for x in v[1]) + ")"
    if k == "r":
        return "(r" + "".join(" (%s %s)" % (hx(f), sx_v(x)) for f, x in v[1]) + ")"
    raise ValueError(v)


def sx_t(t):
    if isinstance(t, str):
        return t
    k = t[0]
    if k == "arr":
        return "(arr %s)" % sx_t(t[1])
    if k == "rec":
        return "(rec %s" % t[1] + "".join(" (%s %s)" % (hx(f), sx_t(x)) for f, x in t[2]) + ")"
    if k == "dict":
        return "(dict %s %s)" % (t[1], sx_t(t[2]))
    if k == "enum":
        return "(enum %s" % t[1] + "".join(" (%s)" % hx(f) if x is None else " (%s %s)" % (hx(f), sx_t(x)) for f, x in t[2]) + ")"
    raise ValueError(t)


# ----------------------------------------------------------------------------- independent oracle

def py_member(t, v):
    """v is a value of type t -- written from the manual, independently of the Coq development."""
    if t == "Dyn":
        return True
    if t == "Num":
        return v[0] == "n"
    if t == "Str":
        return v[0] == "s"
    if t == "Bool":
        return v[0] == "b"
    k = t[0]
    if k == "arr":
        return v[0] == "a" and all(py_member(t[1], x) for x in v[1])
    if k == "dict":
        return v[0] == "r" and all(py_member(t[2], x) for _, x in v[1])
    if k == "rec":
        if v[0] != "r":
            return False
        decl = dict(t[2])
        have = dict(v[1])
        if any(f not in have for f in decl):
            return False
        for f, x in have.items():
            if f in decl:
                if not py_member(decl[f], x):
                    return False
            elif t[1] != "dyn":
                return False
        return True
    if k == "enum":
        if v[0] == "e":
            return any(tag == v[1] and ty is None for tag, ty in t[2])
        if v[0] == "v":
            return any(tag == v[1] and ty is not None and py_member(ty, v[2]) for tag, ty in t[2])
        return False
    raise ValueError(t)


def in_theorem_domain(t):
    """No repeated record field, no two enum alternatives with the same tag and shape."""
    if isinstance(t, str):
        return True
    k = t[0]
    if k == "arr":
        return in_theorem_domain(t[1])
    if k == "dict":
        return in_theorem_domain(t[2])
    if k == "rec":
        ks = [f for f, _ in t[2]]
        return len(set(ks)) == len(ks) and all(in_theorem_domain(x) for _, x in t[2])
    if k == "enum":
        ks = [(f, x is None) for f, x in t[2]]
        return len(set(ks)) == len(ks) and all(x is None or in_theorem_domain(x) for _, x in t[2])
    raise ValueError(t)


def jstr(s):
    return json.dumps(s, ensure_ascii=False)


def py_tree(v):
    """nkeval's rendering of a fully evaluated value (keys sorted bytewise)."""
    k = v[0]
    if k == "n":
        q = Fraction(v[1], v[2])
        return "#%d" % q.numerator if q.denominator == 1 else "#%d/%d" % (q.numerator, q.denominator)
    if k == "s":
        return jstr(v[1])
    if k == "b":
        return "true" if v[1] else "false"
    if k == "u":
        return "null"
    if k == "e":
        return "'" + jstr(v[1])
    if k == "v":
        return "('%s %s)" % (jstr(v[1]), py_tree(v[2]))
    if k == "a":
        return "[" + ",".join(py_tree(x) for x in v[1]) + "]"
    if k == "r":
        fs = sorted(((f.encode("utf-8"), f, py_tree(x)) for f, x in v[1]))
        return "{" + ",".join("%s:%s" % (jstr(f), x) for _, f, x in fs) + "}"
    raise ValueError(v)


# ----------------------------------------------------------------------------- generators

KEYS = ["a", "b", "c", "foo", "a b", "if", "", "é", "_x", "A", "x1"]
TAGS = ["A", "B", "Foo", "ok", "a b", "if", "", "Ok", "Error"]
STRS = ["", "a", "hello world", 'q"uote', "back\\slash", "%{x}", "é", "l\nb", "1"]
NUMS = [(0, 1), (1, 1), (-1, 1), (42, 1), (1, 3), (-7, 2), (6, 4), (123456789, 1000)]


def gen_atom(rng):
    c = rng.below(6)
    if c == 0:
        n, d = rng.choice(NUMS)
        return ("n", n, d)
    if c == 1:
        return ("s", rng.choice(STRS))
    if c == 2:
        return ("b", rng.chance(1, 2))
    if c == 3:
        return ("u",)
    return ("e", rng.choice(TAGS))


def gen_value(rng, depth):
    """An arbitrary data value."""
    if depth <= 0 or rng.chance(2, 5):
        return gen_atom(rng)
    c = rng.below(3)
    if c == 0:
        return ("a", [gen_value(rng, depth - 1) for _ in range(rng.below(4))])
    if c == 1:
        ks = rng.shuffle(KEYS)[:rng.below(4)]
        return ("r", [(k, gen_value(rng, depth - 1)) for k in ks])
    return ("v", rng.choice(TAGS), gen_value(rng, depth - 1))


def gen_type(rng, depth, dups=False):
    if depth <= 0 or rng.chance(1, 4):
        return rng.choice(["Dyn", "Num", "Str", "Bool"])
    c = rng.below(10)
    if c < 2:
        return ("arr", gen_type(rng, depth - 1, dups))
    if c < 5:
        ks = rng.shuffle(KEYS)[:rng.below(4)]
        return ("rec", "dyn" if rng.chance(2, 5) else "closed", [(k, gen_type(rng, depth - 1, dups)) for k in ks])
    if c < 7:
        return ("dict", rng.choice(["t", "c"]), gen_type(rng, depth - 1, dups))
    n = rng.below(4)
    rows = []
    seen = set()
    for _ in range(n):
        tag = rng.choice(TAGS[:5] if dups else TAGS)
        arg = gen_type(rng, depth - 1, dups) if rng.chance(1, 2) else None
        if not dups and (tag, arg is None) in seen:
            continue
        seen.add((tag, arg is None))
        rows.append((tag, arg))
    return ("enum", "closed", rows)


def gen_member(rng, t, depth):
    """A value of type t (always a member)."""
    if t == "Dyn":
        return gen_value(rng, min(depth, 1))
    if t == "Num":
        n, d = rng.choice(NUMS)
        return ("n", n, d)
    if t == "Str":
        return ("s", rng.choice(STRS))
    if t == "Bool":
        return ("b", rng.chance(1, 2))
    k = t[0]
    if k == "arr":
        return ("a", [gen_member(rng, t[1], depth - 1) for _ in range(rng.below(4))])
    if k == "dict":
        ks = rng.shuffle(KEYS)[:rng.below(4)]
        return ("r", [(f, gen_member(rng, t[2], depth - 1)) for f in ks])
    if k == "rec":
        fs = [(f, gen_member(rng, x, depth - 1)) for f, x in t[2]]
        if t[1] == "dyn":
            extra = [f for f in rng.shuffle(KEYS)[:rng.below(3)] if f not in dict(t[2])]
            fs += [(f, gen_value(rng, 1)) for f in extra]
        return ("r", rng.shuffle(fs))
    if k == "enum":
        if not t[2]:
            return ("e", rng.choice(TAGS))      # the empty enum type has no member
        tag, arg = rng.choice(t[2])
        return ("e", tag) if arg is None else ("v", tag, gen_member(rng, arg, depth - 1))
    raise ValueError(t)


def other_kind(rng, v):
    for _ in range(20):
        w = gen_value(rng, 1)
        if w[0] != v[0]:
            return w
    return ("u",)


def mutate(rng, v, t=None):
    """Change v at one position (kind of a subvalue, a field added/dropped/renamed, tag, arity)."""
    k = v[0]
    if k == "a" and v[1] and rng.chance(3, 4):
        i = rng.below(len(v[1]))
        xs = list(v[1])
        xs[i] = mutate(rng, xs[i])
        return ("a", xs)
    if k == "r":
        fs = list(v[1])
        c = rng.below(5)
        if c == 0 and fs:
            del fs[rng.below(len(fs))]
            return ("r", fs)
        if c == 1:
            free = [f for f in KEYS if f not in dict(fs)]
            if free:
                fs.insert(rng.below(len(fs) + 1), (rng.choice(free), gen_value(rng, 1)))
                return ("r", fs)
        if c == 2 and fs:
            free = [f for f in KEYS if f not in dict(fs)]
            i = rng.below(len(fs))
            if free:
                fs[i] = (rng.choice(free), fs[i][1])
                return ("r", fs)
        if fs and c >= 2:
            i = rng.below(len(fs))
            fs[i] = (fs[i][0], mutate(rng, fs[i][1]))
            return ("r", fs)
    if k == "v":
        c = rng.below(4)
        if c == 0:
            return ("e", v[1])
        if c == 1:
            return ("v", rng.choice(TAGS), v[2])
        return ("v", v[1], mutate(rng, v[2]))
    if k == "e":
        c = rng.below(3)
        if c == 0:
            return ("v", v[1], gen_atom(rng))
        if c == 1:
            return ("e", rng.choice(TAGS))
    return other_kind(rng, v)


def gen_type_special(rng, depth):
    """Types around the shapes the contract generator specialises or could specialise: sub-types
    that are exactly Dyn (Array Dyn, {_ : Dyn}, Dyn fields, Dyn variant arguments), open and empty
    records, empty enums."""
    if depth <= 0 or rng.chance(1, 5):
        return rng.choice(["Dyn", "Dyn", "Num", "Str", "Bool"])
    c = rng.below(10)
    if c < 2:
        return ("arr", gen_type_special(rng, depth - 1))
    if c < 6:
        ks = rng.shuffle(KEYS)[:rng.below(4)]
        return ("rec", "dyn" if rng.chance(3, 5) else "closed", [(k, gen_type_special(rng, depth - 1)) for k in ks])
    if c < 8:
        return ("dict", rng.choice(["t", "c"]), gen_type_special(rng, depth - 1))
    rows, seen = [], set()
    for _ in range(rng.below(4)):
        tag = rng.choice(TAGS)
        arg = gen_type_special(rng, depth - 1) if rng.chance(1, 2) else None
        if (tag, arg is None) not in seen:
            seen.add((tag, arg is None))
            rows.append((tag, arg))
    return ("enum", "closed", rows)


def gen_member_full(rng, t, depth):
    """Like gen_member, but arrays and dictionaries are non-empty (so that there is an element to
    violate)."""
    if not isinstance(t, str):
        k = t[0]
        if k == "arr":
            return ("a", [gen_member_full(rng, t[1], depth - 1) for _ in range(rng.range(1, 2))])
        if k == "dict":
            ks = rng.shuffle(KEYS)[:rng.range(1, 2)]
            return ("r", [(f, gen_member_full(rng, t[2], depth - 1)) for f in ks])
        if k == "rec":
            fs = [(f, gen_member_full(rng, x, depth - 1)) for f, x in t[2]]
            if t[1] == "dyn" and rng.chance(1, 2):
                extra = [f for f in rng.shuffle(KEYS)[:1] if f not in dict(t[2])]
                fs += [(f, gen_value(rng, 0)) for f in extra]
            return ("r", rng.shuffle(fs))
        if k == "enum" and t[2]:
            tag, arg = rng.choice(t[2])
            return ("e", tag) if arg is None else ("v", tag, gen_member_full(rng, arg, depth - 1))
    return gen_member(rng, t, depth)


def single_violations(t, v):
    """v is a member of t.  Yields (what, v') where v' differs from v at ONE position and fails
    exactly one of the checks the type stands for: the kind of a ground value, "is an array /
    record / enum", each declared field missing (whatever its type), an extra field in a closed
    record, a tag outside the enum, the arity of a tag -- at every nesting level."""
    if t == "Dyn":
        return
    if t == "Num":
        yield ("ground", ("s", "1"))
        return
    if t == "Str":
        yield ("ground", ("n", 1, 1))
        return
    if t == "Bool":
        yield ("ground", ("u",))
        return
    k = t[0]
    if k == "arr":
        yield ("not-array", ("r", []))
        for i, x in enumerate(v[1][:2]):
            for what, x2 in single_violations(t[1], x):
                yield ("elem/" + what, ("a", v[1][:i] + [x2] + v[1][i + 1:]))
    elif k == "dict":
        yield ("not-record", ("a", []))
        for i, (f, x) in enumerate(v[1][:2]):
            for what, x2 in single_violations(t[2], x):
                yield ("dict/" + what, ("r", v[1][:i] + [(f, x2)] + v[1][i + 1:]))
    elif k == "rec":
        yield ("not-record", ("a", []))
        decl = dict(t[2])
        for f, ft in t[2]:
            yield ("missing-%s-field-%s" % (tcon(ft), t[1]), ("r", [(g, x) for g, x in v[1] if g != f]))
        if t[1] == "closed":
            free = [f for f in KEYS if f not in dict(v[1])]
            if free:
                yield ("extra-field", ("r", v[1] + [(free[0], ("n", 1, 1))]))
        for i, (f, x) in enumerate(v[1]):
            if f in decl:
                for what, x2 in single_violations(decl[f], x):
                    yield ("field/" + what, ("r", v[1][:i] + [(f, x2)] + v[1][i + 1:]))
    elif k == "enum":
        yield ("not-enum", ("s", v[1] if v[0] in ("e", "v") else "A"))
        yield ("unknown-tag", ("e", "Zz"))
        yield ("unknown-tag", ("v", "Zz", ("n", 1, 1)))
        if v[0] == "e":
            yield ("arity", ("v", v[1], ("n", 1, 1)))
        elif v[0] == "v":
            yield ("arity", ("e", v[1]))
            arg = dict((tag, ty) for tag, ty in t[2] if ty is not None).get(v[1])
            if arg is not None:
                for what, x2 in single_violations(arg, v[2]):
                    yield ("variant/" + what, ("v", v[1], x2))


def gen_targeted(rng, depth, cap):
    """One type, one member, and up to `cap` single-check violations of it (all of them when
    cap is None).  Returns [(value, type, what)]."""
    t = gen_type_special(rng, depth) if rng.chance(1, 2) else gen_type(rng, depth)
    m = gen_member_full(rng, t, depth)
    vs = [(what, v) for what, v in single_violations(t, m) if not py_member(t, v)]
    if cap is not None and len(vs) > cap:
        # keep one of each kind of check first, then fill up
        byk = {}
        for what, v in rng.shuffle(vs):
            byk.setdefault(what.split("/")[-1], []).append((what, v))
        picked = [l[0] for l in byk.values()][:cap]
        rest = [x for l in byk.values() for x in l[1:]]
        vs = picked + rest[:max(0, cap - len(picked))]
    return [(m, t, "member")] + [(v, t, what) for what, v in vs]


def gen_pair(rng, depth):
    dups = rng.chance(1, 20)
    t = gen_type(rng, depth, dups)
    c = rng.below(10)
    if c < 4:
        v = gen_member(rng, t, depth)
    elif c < 9:
        v = mutate(rng, gen_member(rng, t, depth))
    else:
        v = gen_value(rng, depth)
    return v, t


# exhaustive small universe -----------------------------------------------------------------

def small_values():
    atoms = [("n", 1, 1), ("s", "a"), ("b", True), ("u",), ("e", "A")]
    d1 = list(atoms)
    d1 += [("a", [])] + [("a", [x]) for x in atoms] + [("a", [x, y]) for x in atoms for y in atoms]
    d1 += [("r", [])] + [("r", [("a", x)]) for x in atoms] + [("r", [("b", x)]) for x in atoms]
    d1 += [("r", [("a", x), ("b", y)]) for x in atoms for y in atoms]
    d1 += [("v", "A", x) for x in atoms]
    return atoms, d1


def small_types():
    t0 = ["Num", "Str", "Bool", "Dyn"]
    t1 = [("arr", x) for x in t0] + [("dict", f, x) for f in "tc" for x in t0]
    for tail in ("closed", "dyn"):
        t1 += [("rec", tail, [])]
        t1 += [("rec", tail, [("a", x)]) for x in t0] + [("rec", tail, [("b", x)]) for x in t0]
        t1 += [("rec", tail, [("a", x), ("b", y)]) for x in t0 for y in t0]
    alts = [("A", None), ("B", None)] + [("A", x) for x in t0]
    t1 += [("enum", "closed", [])] + [("enum", "closed", [a]) for a in alts]
    t1 += [("enum", "closed", [a, b]) for a in alts for b in alts
           if (a[0], a[1] is None) != (b[0], b[1] is None)]
    return t0, t1


def exhaustive(full):
    atoms, v1 = small_values()
    t0, t1 = small_types()
    pairs = [(v, t) for v in v1 for t in t0] + [(v, t) for v in atoms for t in t1]
    if not full:
        # plus every container value against every type of the same shape (records x record and
        # dictionary types, arrays x array types, enum values x enum types)
        shape = {"r": ("rec", "dict"), "a": ("arr",), "e": ("enum",), "v": ("enum",)}
        pairs += [(v, t) for v in v1 if v[0] in shape for t in t1 if t[0] in shape[v[0]]]
        return pairs
    pairs = [(v, t) for v in v1 for t in t0 + t1]
    # nesting 2: one container level around a selection of depth-1 types / values
    sel_t = [t for i, t in enumerate(t1) if i % 4 == 0]
    sel_v = [v for i, v in enumerate(v1) if i % 2 == 0]
    t2 = []
    for x in sel_t:
        t2 += [("arr", x), ("dict", "t", x), ("dict", "c", x), ("rec", "closed", [("a", x)]),
               ("rec", "dyn", [("a", x)]), ("enum", "closed", [("A", x)])]
    v2 = []
    for x in sel_v:
        v2 += [("a", [x]), ("r", [("a", x)]), ("v", "A", x), ("r", [("a", x), ("b", ("n", 1, 1))])]
    pairs += [(v, t) for v in v2 for t in t2]
    return pairs


def corpus():
    p = os.path.join(core.ROOT, "corpus", "C03")
    res = []
    if os.path.isdir(p):
        for f in sorted(os.listdir(p)):
            for l in open(os.path.join(p, f)):
                l = l.rstrip("\n")
                if l.strip() and not l.startswith("#"):
                    res.append(json.loads(l))
    return res


def from_json_v(x):
    k = x[0]
    if k == "a":
        return ("a", [from_json_v(y) for y in x[1]])
    if k == "r":
        return ("r", [(f, from_json_v(y)) for f, y in x[1]])
    if k == "v":
        return ("v", x[1], from_json_v(x[2]))
    return tuple(x)


def from_json_t(x):
    if isinstance(x, str):
        return x
    k = x[0]
    if k == "arr":
        return ("arr", from_json_t(x[1]))
    if k == "dict":
        return ("dict", x[1], from_json_t(x[2]))
    if k == "rec":
        return ("rec", x[1], [(f, from_json_t(y)) for f, y in x[2]])
    if k == "enum":
        return ("enum", x[1], [(f, None if y is None else from_json_t(y)) for f, y in x[2]])
    raise ValueError(x)


# ----------------------------------------------------------------------------- the run

SITES = ["annot", "let", "field", "twice"]


def run_chunked(exe, args, lines, chunk=32000, timeout=7200):
    """run_sharded in bounded batches with a timeout that survives a heavily loaded machine
    (one interpreter start per program, ~60 ms each on an idle core)."""
    out = []
    for i in range(0, len(lines), chunk):
        rc, o, err = core.run_sharded(exe, args, lines[i:i + chunk], timeout=timeout)
        if rc:
            return rc, out + o, err
        out += o
    return 0, out, ""


def tcon(t):
    return t if isinstance(t, str) else (t[0] + ("-" + t[1] if t[0] in ("rec", "dict") else ""))


def depth_t(t):
    if isinstance(t, str):
        return 0
    if t[0] == "arr":
        return 1 + depth_t(t[1])
    if t[0] == "dict":
        return 1 + depth_t(t[2])
    return 1 + max([0] + [depth_t(x) for _, x in t[2] if x is not None])


def run_pairs(ck, pairs, exe_model, sites, label, sites_per_pair=None, whats=None):
    """pairs: list of (v, t).  Runs the model, then the interpreter on the programs the model
    printed, and compares.  sites_per_pair[i] overrides `sites` for pair i; whats[i] names the
    check a targeted value violates (distribution only)."""
    lines = [sx_v(v) + "\t" + sx_t(t) for v, t in pairs]
    rc, mout, err = core.run_sharded(exe_model, [], lines)
    if rc:
        ck.obligation("model-run:" + label, "internal", False, "rc=%s %s" % (rc, err))
        return
    progs, index = [], []
    parsed = []
    for i, (line, (v, t)) in enumerate(zip(mout, pairs)):
        f = line.split("\t")
        if len(f) != 7:
            ck.obligation("model-output:" + label, "internal", False, "case %s -> %r" % (lines[i], line[:300]))
            parsed.append(None)
            continue
        parsed.append(f)
        if whats:
            ck.hist("targeted_check", whats[i].split("/")[-1])
        for s in (sites_per_pair[i] if sites_per_pair else sites):
            progs.append("full\t" + f[3 + s].replace("\\", "\\\\").replace("\n", "\\n"))
            index.append((i, s))
    rc, iout, err = run_chunked(core.harness_bin("nkeval"), [], progs)
    if rc:
        ck.obligation("impl-run:" + label, "internal", False, "rc=%s %s" % (rc, err))
        return
    shown = 0
    for (i, s), prog, got in zip(index, progs, iout):
        v, t = pairs[i]
        f = parsed[i]
        model_member = f[0] == "m=1"
        in_dom = f[1] == "fo=1"
        predicted = f[2]
        pm = py_member(t, v)
        dom = in_theorem_domain(t)
        ck.case(key=lines[i] + SITES[s], nontrivial=not isinstance(t, str))
        ck.hist("site", SITES[s])
        ck.hist("type_constructor", tcon(t))
        ck.hist("type_depth", depth_t(t))
        ck.hist("impl_outcome", got.split(" ")[1] if got.startswith("ERR") else "OK")
        ck.hist("member", pm)
        if in_dom != dom:
            ck.obligation("spec-agreement:domain", "correspondence", False, "case %s: coq fo=%s python %s" % (lines[i], in_dom, dom))
        if dom and model_member != pm:
            ck.obligation("spec-agreement:member", "correspondence", False,
                          "Coq member and the independent Python oracle differ on %s: %s vs %s" % (lines[i], model_member, pm))
        replay = {"case": {"v": v, "t": t}, "site": SITES[s], "program": f[3 + s], "impl": got, "model": predicted,
                  "python_member": pm, "how_to_replay": "./verif check C03 --replay <this file>"}
        violated = False
        if dom:
            # direct oracle: needs no model
            ok = got.startswith("OK ")
            if ok and not pm:
                ck.violation("accepts-nonmember:%s:%s" % (tcon(t), SITES[s]),
                             "`%s` succeeds although the value is not a member of the type" % f[3 + s][:200], replay)
                violated = True
            elif not ok and pm:
                ck.violation("rejects-member:%s:%s" % (tcon(t), SITES[s]),
                             "`%s` fails (%s) although the value is a member of the type" % (f[3 + s][:200], got), replay)
                violated = True
            elif ok and got != "OK " + py_tree(v):
                ck.violation("changes-value:%s:%s" % (tcon(t), SITES[s]),
                             "`%s` succeeds with a different value: %s" % (f[3 + s][:200], got[:200]), replay)
                violated = True
        if got != predicted and not violated:
            ck.obligation("correspondence:model-vs-interpreter", "correspondence", False,
                          "program %s\nimpl  %s\nmodel %s" % (f[3 + s][:400], got[:300], predicted[:300]))
        if shown < 3 and not isinstance(t, str) and s == 0:
            ck.sample({"program": f[3 + s][:300], "impl": got[:200], "model": predicted[:200], "member": pm})
            shown += 1


def skeleton_tie(ck, types, label):
    """Syntactic tie of Type::subcontract: the skeleton of the contract the real `Type::contract`
    generates for each type (harness bin c02 walks the generated term) must be the model's
    `contract_of`.  Returns the types on which they differ."""
    rc, out, exe2 = core.ocaml_build("c02", "C02.v", "driver.ml")
    if rc:
        ck.obligation("model-extraction:C02.v (skeleton printer)", "build", False, out[-2000:])
        return []
    uniq, seen = [], set()
    for t in types:
        k = sx_t(t)
        if k not in seen:
            seen.add(k)
            uniq.append(t)
    sx = [sx_t(t) for t in uniq]
    rc, srcs, err = core.run_sharded(exe2, ["src"], sx)
    rc2, impl, err2 = core.run_sharded(core.harness_bin("c02"), [], srcs) if not rc else (1, [], "")
    rc3, model, err3 = core.run_sharded(exe2, ["skel"], sx) if not rc2 else (1, [], "")
    if rc or rc2 or rc3:
        ck.obligation("skeleton-run:" + label, "internal", False, "%s %s %s" % (err, err2, err3))
        return []
    bad = []
    for t, src, a, b in zip(uniq, srcs, impl, model):
        fa, fb = a.split("\t"), b.split("\t")
        ck.case(key="skel:" + src, nontrivial=not isinstance(t, str))
        ck.hist("skeleton_cases", "compared")
        if len(fa) < 3 or not fa[0].startswith("T ") or fa[0][2:] != sx_t(t):
            ck.obligation("printer:type-roundtrip", "internal", False, "%s -> %s -> %s" % (sx_t(t), src, a[:300]))
            continue
        if fa[1] != fb[0]:
            bad.append(t)
            if len(bad) <= 3:
                ck.obligation("correspondence:skeleton-of-generated-contract", "correspondence", False,
                              "type %s\nimpl  %s\nmodel %s" % (src, fa[1], fb[0]))
    ck.coverage.setdefault("skeleton_types_compared", 0)
    ck.coverage["skeleton_types_compared"] += len(uniq)
    return bad


def search_types(ck, types, exe_model):
    """The generated contract of these types is not the modelled one: look for a value on which
    the property itself fails (member and every single-check violation, all sites)."""
    rng = core.SplitMix64(ck.seed * 7919 + 31)
    pairs, whats = [], []
    for t in types[:40]:
        for _ in range(3):
            m = gen_member_full(rng, t, 4)
            pairs.append((m, t))
            whats.append("member")
            for what, v in single_violations(t, m):
                if not py_member(t, v):
                    pairs.append((v, t))
                    whats.append(what)
    run_pairs(ck, pairs[:4000], exe_model, [0, 1, 2, 3], "search", whats=whats[:4000])


def run(ck):
    ck.coq("Props.C03", clean=False)
    ok = ck.harness(["nkeval", "c02"])
    exe_model = ck.model("C03.v")
    if not ok or not exe_model:
        return
    rng = core.SplitMix64(ck.seed * 1000003 + 3)
    cor = [(from_json_v(c["v"]), from_json_t(c["t"])) for c in corpus()]
    if cor:
        run_pairs(ck, cor, exe_model, [0, 1, 2, 3], "corpus")
    thorough = ck.tier == "thorough"
    ex = exhaustive(thorough)
    ck.coverage["exhaustive_small_pairs"] = len(ex)
    run_pairs(ck, ex, exe_model, [0, 1, 2, 3] if thorough else [0], "exhaustive")
    n = 8000 if thorough else 600
    sample = []
    for i in range(n):
        sample.append(gen_pair(rng.fork(), rng.choice([1, 2, 2, 3, 3, 4])))
    run_pairs(ck, sample, exe_model, [0, 1, 2, 3], "sample")
    ck.coverage["sampled_pairs"] = n
    # targeted part: for each generated type a member and values violating ONE check each
    nt = 6000 if thorough else 450
    tp, tsites, twhat = [], [], []
    for i in range(nt):
        r = rng.fork()
        for v, t, what in gen_targeted(r, r.choice([1, 2, 2, 3, 3]), None if thorough else 6):
            tp.append((v, t))
            twhat.append(what)
            tsites.append([0, 1, 2, 3] if what == "member" or thorough else [0, 1 + r.below(3)])
    run_pairs(ck, tp, exe_model, [0], "targeted", sites_per_pair=tsites, whats=twhat)
    ck.coverage["targeted_types"] = nt
    ck.coverage["targeted_pairs"] = len(tp)
    # syntactic tie of subcontract on every type used above; a difference starts the search
    bad = skeleton_tie(ck, [t for _, t in cor + ex + sample + tp], "all")
    if bad:
        search_types(ck, bad, exe_model)
    ck.coverage["rule"] = ("case = (data value, type, annotation site); exhaustive part: all values of nesting <= 1 over atoms {1, \"a\", true, null, 'A} with <= 2 elements/fields against all types of nesting <= 1 (thorough: plus one more container level over a selection; quick: values x ground types and atoms x types, site `v | T` only); "
                           "targeted part: for each seeded random type (half of them biased to the shapes the generator specialises: sub-types exactly Dyn, open/empty records, empty enums) a member with non-empty containers and values that differ from it at one position and fail exactly one check -- ground kind, not-an-array/record/enum, EACH declared field missing whatever its type, extra field in a closed record, unknown tag, tag arity -- at every nesting level (quick: <= 6 per type, one per kind of check first; member at 4 sites, violations at `v | T` and one other site); quick exhaustive part also has every container value against every type of the same shape; the skeleton of the real generated contract (harness bin c02) is compared with the model's for every type used, and a difference triggers a focused search over those types; "
                           "sampled part: seeded random type of depth <= 4, then a member of it (40%), a member mutated at one position (50%: kind of a subvalue, field dropped/added/renamed, tag or arity changed) or an arbitrary value (10%), each at the 4 sites; field names/tags include quoted, keyword-like, empty and non-ASCII ones; non-trivial = the type is not a ground type; distinct by exact (value, type, site)")
    ck.coverage["partial"] = "theorems cover the first-order fragment without polymorphic tails; function and polymorphic contracts are C02/C11"
    ck.trusted += ["extraction: ExtrOcamlBasic + ExtrOcamlNativeString", "harness bin nkeval (eval_full, canonical tree printer)",
                   "OCaml printers of values/types to Nickel source (ocaml/c03/driver.ml)", "generator and independent membership oracle in checks/c03.py (SplitMix64, VERIF_SEED)"]
    ck.assumptions += ["record field order is unobservable (results compared with keys sorted)", "numbers are small exact rationals"]


def replay(ck, path):
    obj = json.load(open(path))
    ok = ck.harness(["nkeval", "c02"])
    exe_model = ck.model("C03.v")
    if ok and exe_model and "case" in obj:
        v, t = from_json_v(obj["case"]["v"]), from_json_t(obj["case"]["t"])
        run_pairs(ck, [(v, t)], exe_model, [0, 1, 2, 3], "replay")
