"""C16 — arithmetic is exact; `==` is a structural equivalence.

Parts:  translator std.ncl -> coq/Gen/StdNumber.v (fail closed), Coq theorems (Props/C16.v),
correspondence of the extracted model with the interpreter (harness bin `nkeval`), direct oracles
(law-expressions evaluated by the interpreter, independent exact rationals from python Fractions).
"""
import hashlib
import json
import os
import re
from fractions import Fraction

from vlib import core

META = {
    "harness_bins": ["nkeval"],
    "extract": "C16.v",
    "technique": "Coq proofs about an executable model of Number arithmetic on canonical rationals, about the std.number.* bodies translated from std.ncl at check time, and about == on data (explicit-stack algorithm of operation.rs = structural recursion = equality of canonical exported trees); model tied to the interpreter by an exhaustive literal/operator grid and random differential runs compared as exact p/q, with law-expressions and an independent Fraction reference as direct oracles",
    "level_text": "63 theorems (coq/Props/C16.v), all for unbounded inputs: + - * are commutative/associative/distributive with units on the canonical (lowest-terms) results the model computes and do not depend on the representative of the operands; / and % raise the division-by-zero error exactly when the divisor is zero, q*b = a for q = a/b; a = trunc(a/b)*b + a%b with |a%b| < |b| and the sign of the dividend; < <= > >= == form a total order compatible with + and with * by positives; pow on an i64 exponent is the exact rational power (pow_add, pow_mul, pow_neg, pow_succ, the zero-base/negative-exponent error explicit), any other exponent is marked unspecified (f64 path); number literals denote digits.fraction * 10^exponent exactly (leading/trailing zeros and point/exponent shifts irrelevant). The bodies of std.number.{floor,truncate,fract,abs,min,max,is_integer,compare,pow} are re-translated from /repo/core/stdlib/std.ncl on every run (fail closed) and floor x = Qfloor x, truncate = rounding towards zero, x = truncate x + fract x with |fract x| < 1, abs, min/max (lattice laws), is_integer, compare are proved about the translated bodies. On data values (null, bool, number, string, enum tag, enum variant, array, record with distinct keys): == is reflexive, symmetric, transitive, independent of field order and of the representative of numbers, holds exactly when the canonical exported trees are equal, agrees with equality of the serialized form on enum-free data (refuted with a witness when enum tags are present: 'a vs \"a\"), and the explicit stack-of-sub-equalities algorithm of operation.rs (its evaluation order included) computes the structural recursion. An extended model (EqX.v) adds what the evaluator sees beyond data: record fields with optional/undefined definitions and pending contracts, arrays with pending contracts, lazily erroring elements; it mirrors eq() after fix 8cabe79 including its error cases and scheduling order, and xeq_norm proves that on every pair of values that stand for data (validating contracts, empty optional fields) it raises no error and answers == of the underlying data (so pending contracts, empty optional fields and evaluation order are irrelevant there); plain data embeds (xeq_embed). The models are tied to the interpreter built from /repo by differential runs: every p/q with |p|<=12, q<=6 in every literal spelling x every operator and std.number function (thorough: all pairs), 200-digit random values, random nested expressions, random and exhaustive-small-universe triples of data values with and without pending contracts; every result is compared with the extracted model and with an independent exact reference, and the equality laws are also checked directly on the interpreter's own answers.",
    "level_note": "Trusted: Coq kernel; extraction (ExtrOcamlBasic + ExtrOcamlNativeString, no Extract Constant); ocaml/c16/driver.ml and harness/src/eval.rs (parsing/printing); the translator's tokenizer/parser for the std.ncl fragment (a mis-translation shows up as a model-vs-interpreter disagreement on the grid); python generators and Fraction reference in checks/c16.py. Modelled, not verified: operation.rs number operators and eq(), malachite (Rational arithmetic, from_sci_string, rounding_from Down) -- tied by correspondence only. Outside the theorems: results through f64 (pow with non-i64 exponent, sqrt, log, trigonometry: checked not to crash only); == on functions/labels/sealing keys/foreign values; contracts that change the value (defaults, custom contracts) -- only validating built-in contracts are modelled; not_exported is ignored by == (pinned: {a = 1, b | not_exported = 2} == {a = 1} is false although both export alike), so agreement with the exported form is claimed for data without hidden fields; error cases of the extended model (MissingFieldDef, blame, erroring elements) are tied by correspondence only; the lexer regex itself (literal spellings are generated from it by hand).",
}

STD_NCL = os.path.join(core.REPO, "core", "stdlib", "std.ncl")
GEN_DIR = os.path.join(core.COQ, "Gen")
WANTED = ["is_integer", "compare", "min", "max", "floor", "abs", "fract", "truncate", "pow"]


# ===================================================================== translator
class TranslateError(Exception):
    pass


TOK = re.compile(r"""
    (?P<ws>\s+|\#[^\n]*)
  | (?P<mstr>m(?P<pct>%+)")
  | (?P<str>"(?:[^"\\]|\\.)*")
  | (?P<num>[0-9]*\.?[0-9]+(?:[eE][+\-]?[0-9]+)?)
  | (?P<prim>%[a-z_/0-9]+%)
  | (?P<enum>'[A-Za-z_][A-Za-z0-9_'-]*)
  | (?P<id>_*[a-zA-Z][_a-zA-Z0-9'-]*)
  | (?P<op>=>|==|!=|<=|>=|&&|\|\||\|>|->|\+\+|\[\||\|\]|\.\.|[-+*/%<>=!(){}\[\],.:;|&@?$^~`\\])
""", re.X)


def tokenize(src, start_line=1):
    """Tokens of the Nickel fragment std.ncl is written in.  Multi-line strings are skipped as
    one token.  Returns list of (kind, text, line)."""
    toks, i, line = [], 0, start_line
    n = len(src)
    while i < n:
        m = TOK.match(src, i)
        if not m:
            raise TranslateError("std.ncl:%d: cannot tokenize %r" % (line, src[i:i + 20]))
        kind = m.lastgroup
        text = m.group(0)
        if kind == "pct":
            kind = "mstr"
        if kind == "mstr":
            close = '"' + m.group("pct")
            j = src.find(close, m.end())
            if j < 0:
                raise TranslateError("std.ncl:%d: unterminated multi-line string" % line)
            text = src[i:j + len(close)]
            toks.append(("mstr", text, line))
            line += text.count("\n")
            i = j + len(close)
            continue
        if kind != "ws":
            toks.append((kind, text, line))
        line += text.count("\n")
        i = m.end()
    return toks


def number_block(src):
    """(text, first line) of the record bound to the top-level field `number` of std.ncl."""
    m = re.search(r"^  number = \{\n", src, flags=re.M)
    if not m:
        raise TranslateError("std.ncl: field `number = {` not found at indentation 2")
    start = m.end()
    m2 = re.search(r"^  \},\n", src[start:], flags=re.M)
    if not m2:
        raise TranslateError("std.ncl: end of `number = {` not found")
    return src[start:start + m2.start()], src[:start].count("\n") + 1


def split_fields(toks):
    """Top-level fields of a record body: {name: (annotation tokens, value tokens)}."""
    fields, i, n = {}, 0, len(toks)
    while i < n:
        kind, text, line = toks[i]
        if kind != "id":
            raise TranslateError("std.ncl:%d: expected a field name, found %r" % (line, text))
        name = text
        i += 1
        depth, ann, val, seen_eq = 0, [], [], False
        while i < n:
            k, t, l = toks[i]
            if t in ("(", "{", "[", "[|"):
                depth += 1
            elif t in (")", "}", "]", "|]"):
                depth -= 1
            if depth == 0 and t == "," and seen_eq:
                i += 1
                break
            if depth == 0 and t == "=" and not seen_eq:
                seen_eq = True
            elif seen_eq:
                val.append(toks[i])
            else:
                ann.append(toks[i])
            i += 1
        if not seen_eq:
            raise TranslateError("std.ncl: field %s has no definition" % name)
        fields[name] = (ann, val)
    return fields


# precedence levels of grammar.lalrpop (InfixExpr)
BIN_LEVELS = [
    (3, {"*": "OMul", "/": "ODiv", "%": "OMod"}),
    (4, {"+": "OAdd", "-": "OSub"}),
    (7, {"<": "OLt", "<=": "OLe", ">": "OGt", ">=": "OGe"}),
    (8, {"==": "OEq", "!=": "ONe"}),
    (9, {"&&": "OAnd"}),
    (10, {"||": "OOr"}),
]
PRIM2 = {"%pow%": "OPow"}


class Parser:
    """Recursive descent over the tiny fragment; anything else raises (fail closed)."""

    def __init__(self, toks, fname):
        self.t, self.i, self.fname = toks, 0, fname

    def peek(self):
        return self.t[self.i] if self.i < len(self.t) else ("eof", "", self.t[-1][2] if self.t else 0)

    def next(self):
        tok = self.peek()
        self.i += 1
        return tok

    def fail(self, what):
        k, t, l = self.peek()
        raise TranslateError("std.ncl:%d: std.number.%s: %s (at %r) is outside the translated fragment" % (l, self.fname, what, t))

    def expect(self, text):
        k, t, l = self.next()
        if t != text:
            self.i -= 1
            self.fail("expected %r" % text)

    def function(self):
        params = []
        if self.peek()[1] == "fun":
            self.next()
            while self.peek()[0] == "id" and self.peek()[1] not in ("fun", "let", "if", "in", "then", "else"):
                params.append(self.next()[1])
            self.expect("=>")
        body = self.term()
        if self.peek()[0] != "eof":
            self.fail("trailing tokens")
        return params, body

    def term(self):
        k, t, l = self.peek()
        if t == "let":
            self.next()
            k2, x, _ = self.next()
            if k2 != "id" or x == "rec":
                self.i -= 1
                self.fail("let pattern")
            self.expect("=")
            e1 = self.term()
            self.expect("in")
            e2 = self.term()
            return ("let", x, e1, e2)
        if t == "if":
            self.next()
            c = self.term()
            self.expect("then")
            a = self.term()
            self.expect("else")
            b = self.term()
            return ("if", c, a, b)
        if t == "fun":
            self.fail("nested function")
        return self.infix(10)

    def infix(self, level):
        if level == 5:
            if self.peek()[1] == "!":
                self.next()
                return ("not", self.infix(5))
            return self.infix(4)
        if level == 1:
            if self.peek()[1] == "-":
                self.next()
                return ("neg", self.infix(1))
            return self.applicative()
        table = dict(BIN_LEVELS).get(level)
        if table is None:
            return self.infix(level - 1)
        lhs = self.infix(level - 1)
        while self.peek()[1] in table and self.peek()[0] == "op":
            op = table[self.next()[1]]
            rhs = self.infix(level - 1)
            lhs = ("bin", op, lhs, rhs)
        return lhs

    def applicative(self):
        k, t, l = self.peek()
        if k == "prim":
            if t not in PRIM2:
                self.fail("primitive operator")
            self.next()
            a = self.atom()
            b = self.atom()
            return ("bin", PRIM2[t], a, b)
        head = self.atom()
        if self.starts_atom():
            self.fail("function application")
        return head

    def starts_atom(self):
        k, t, l = self.peek()
        return k in ("num", "enum", "str", "prim") or t == "(" or (k == "id" and t not in ("then", "else", "in"))

    def atom(self):
        k, t, l = self.next()
        if k == "num":
            return ("lit", t)
        if k == "enum":
            return ("enum", t[1:])
        if k == "id":
            if t in ("true", "false"):
                return ("bool", t == "true")
            if t in ("fun", "let", "if", "then", "else", "in", "match", "import", "forall", "null", "rec"):
                self.i -= 1
                self.fail("keyword")
            return ("var", t)
        if t == "(":
            e = self.term()
            self.expect(")")
            return e
        self.i -= 1
        self.fail("token")


def lit_parts(text):
    """Split a number token into (integer digits, fractional digits, exponent)."""
    m = re.fullmatch(r"([0-9]*)(?:\.([0-9]+))?(?:[eE]([+\-]?[0-9]+))?", text)
    if not m:
        raise TranslateError("bad number literal %r" % text)
    ip, fp, ex = m.group(1), m.group(2), m.group(3)
    if fp is None and "." not in text:
        fp = ""
    return ip, fp or "", int(ex) if ex else 0


def coq_string(s):
    return '"' + s.replace('"', '""') + '"'


def coq_lit(text):
    ip, fp, ex = lit_parts(text)
    ds = lambda s: "[" + "; ".join("%d%%N" % int(c) for c in s) + "]"
    return "(mkLit %s %s (%d)%%Z)" % (ds(ip), ds(fp), ex)


def coq_expr(e, bound):
    k = e[0]
    if k == "lit":
        return "(ELit %s)" % coq_lit(e[1])
    if k == "bool":
        return "(EBool %s)" % ("true" if e[1] else "false")
    if k == "enum":
        return "(EEnum %s)" % coq_string(e[1])
    if k == "var":
        if e[1] not in bound:
            raise TranslateError("std.number body refers to %r, which is neither a parameter nor let-bound" % e[1])
        return "(EVar %s)" % coq_string(e[1])
    if k == "let":
        return "(ELet %s %s %s)" % (coq_string(e[1]), coq_expr(e[2], bound), coq_expr(e[3], bound | {e[1]}))
    if k == "if":
        return "(EIf %s %s %s)" % tuple(coq_expr(x, bound) for x in e[1:])
    if k == "bin":
        return "(EBin %s %s %s)" % (e[1], coq_expr(e[2], bound), coq_expr(e[3], bound))
    if k == "neg":
        return "(ENeg %s)" % coq_expr(e[1], bound)
    if k == "not":
        return "(ENot %s)" % coq_expr(e[1], bound)
    raise TranslateError("internal: " + repr(e))


def check_annotation(name, ann):
    """The static type must be Number -> ... (the model blames non-number arguments)."""
    txt = " ".join(t for k, t, l in ann if k != "mstr")
    m = re.match(r": ((?:Number -> )+)(Number|Bool|\[\| 'Lesser , 'Equal , 'Greater \|\]) \| doc$", txt)
    if not m:
        raise TranslateError("std.number.%s: unexpected annotation %r" % (name, txt))
    return m.group(1).count("Number")


def translate(path=STD_NCL):
    """Returns (coq source of Gen/StdNumber.v, {name: (params, ast)})."""
    src = open(path).read()
    block, line0 = number_block(src)
    fields = split_fields(tokenize(block, line0))
    out = ["(* GENERATED by checks/c16.py from %s (sha256 %s) -- do not edit, never committed. *)" % (
        path, hashlib.sha256(src.encode()).hexdigest()[:16]),
        "From Coq Require Import ZArith QArith List String.",
        "From NV Require Import Arith.Num Arith.Expr.",
        "Import ListNotations.", "Open Scope string_scope.", ""]
    table, asts = [], {}
    for name in WANTED:
        if name not in fields:
            raise TranslateError("std.number.%s not found in std.ncl" % name)
        ann, val = fields[name]
        arity = check_annotation(name, ann)
        params, body = Parser(val, name).function()
        if len(params) != arity or len(set(params)) != len(params):
            raise TranslateError("std.number.%s: %d parameters for a type of arity %d" % (name, len(params), arity))
        asts[name] = (params, body)
        out.append("Definition std_%s_params : list string := [%s]." % (name, "; ".join(coq_string(p) for p in params)))
        out.append("Definition std_%s_body : expr :=\n  %s." % (name, coq_expr(body, set(params))))
        table.append("(%s, (std_%s_params, std_%s_body))" % (coq_string(name), name, name))
        out.append("")
    out.append("Definition std_number_table : std_table :=\n  [ %s ]." % ";\n    ".join(table))
    return "\n".join(out) + "\n", asts


def setup_gen():
    """Called by `./verif setup` before the Coq build: regenerate coq/Gen/StdNumber.v from /repo."""
    write_gen()


def write_gen(ck=None):
    os.makedirs(GEN_DIR, exist_ok=True)
    text, asts = translate()
    p = os.path.join(GEN_DIR, "StdNumber.v")
    old = open(p).read() if os.path.exists(p) else None
    if old != text:
        with core.Lock("coq"):
            open(p, "w").write(text)
    return asts


# ===================================================================== expression ASTs
# ("lit", text) ("bool", b) ("enum", t) ("str", s) ("var", x) ("let", x, e1, e2) ("if", c, a, b)
# ("bin", op, a, b) ("neg", e) ("not", e) ("call", f, [args])
OPSYM = {"OAdd": "+", "OSub": "-", "OMul": "*", "ODiv": "/", "OMod": "%", "OLt": "<", "OLe": "<=", "OGt": ">",
         "OGe": ">=", "OEq": "==", "ONe": "!=", "OAnd": "&&", "OOr": "||"}


def to_nickel(e):
    k = e[0]
    if k == "lit":
        return e[1]
    if k == "bool":
        return "true" if e[1] else "false"
    if k == "enum":
        return "'" + e[1]
    if k == "str":
        return '"%s"' % e[1]
    if k == "var":
        return e[1]
    if k == "let":
        return "(let %s = %s in %s)" % (e[1], to_nickel(e[2]), to_nickel(e[3]))
    if k == "if":
        return "(if %s then %s else %s)" % (to_nickel(e[1]), to_nickel(e[2]), to_nickel(e[3]))
    if k == "bin":
        if e[1] == "OPow":
            return "(%%pow%% %s %s)" % (to_nickel(e[2]), to_nickel(e[3]))
        return "(%s %s %s)" % (to_nickel(e[2]), OPSYM[e[1]], to_nickel(e[3]))
    if k == "neg":
        return "(-%s)" % to_nickel(e[1])
    if k == "not":
        return "(!%s)" % to_nickel(e[1])
    if k == "call":
        return "(std.number.%s %s)" % (e[1], " ".join(to_nickel(a) for a in e[2]))
    raise ValueError(e)


def to_sx(e):
    k = e[0]
    if k == "lit":
        ip, fp, ex = lit_parts(e[1])
        return "(lit %s %s %d)" % (ip or "_", fp or "_", ex)
    if k == "bool":
        return "(b %s)" % ("true" if e[1] else "false")
    if k == "enum":
        return "(enum %s)" % e[1]
    if k == "str":
        return "(str %s)" % e[1]
    if k == "var":
        return "(var %s)" % e[1]
    if k == "let":
        return "(let %s %s %s)" % (e[1], to_sx(e[2]), to_sx(e[3]))
    if k == "if":
        return "(if %s %s %s)" % (to_sx(e[1]), to_sx(e[2]), to_sx(e[3]))
    if k == "bin":
        return "(bin %s %s %s)" % (e[1], to_sx(e[2]), to_sx(e[3]))
    if k in ("neg", "not"):
        return "(%s %s)" % (k, to_sx(e[1]))
    if k == "call":
        return "(call %s %s)" % (e[1], " ".join(to_sx(a) for a in e[2]))
    raise ValueError(e)


# ---- the independent reference (python Fractions; the *documented* meaning of each function)
class RefError(Exception):
    def __init__(self, cls):
        self.cls = cls


class RefUnspec(Exception):
    pass


def lit_value(text):
    ip, fp, ex = lit_parts(text)
    return Fraction(int((ip + fp) or "0")) * Fraction(10) ** (ex - len(fp))


def trunc_frac(x):
    return Fraction(int(x.numerator // x.denominator) if x >= 0 else -int((-x.numerator) // x.denominator))


def ref_std(f, args):
    import math
    for a in args:
        if isinstance(a, bool) or not isinstance(a, Fraction):
            raise RefError("Blame")
    if f == "floor":
        return Fraction(math.floor(args[0]))
    if f == "truncate":
        return Fraction(math.trunc(args[0]))
    if f == "fract":
        return args[0] - math.trunc(args[0])
    if f == "abs":
        return abs(args[0])
    if f == "is_integer":
        return args[0].denominator == 1
    if f == "min":
        return min(args[0], args[1])
    if f == "max":
        return max(args[0], args[1])
    if f == "compare":
        return ("enum", "Lesser" if args[0] < args[1] else "Greater" if args[0] > args[1] else "Equal")
    if f == "pow":
        return ref_pow(args[0], args[1])
    raise RefError("UnboundId")


def ref_pow(a, b):
    if b.denominator == 1 and -2 ** 63 <= b.numerator < 2 ** 63:
        if b < 0 and a == 0:
            raise RefError("DivByZero")
        return a ** int(b.numerator)
    raise RefUnspec()


def ref_eval(e, env=None):
    env = env or {}
    k = e[0]
    if k == "lit":
        return lit_value(e[1])
    if k == "bool":
        return e[1]
    if k == "enum":
        return ("enum", e[1])
    if k == "str":
        return ("str", e[1])
    if k == "var":
        if e[1] not in env:
            raise RefError("UnboundId")
        v = env[e[1]]
        if isinstance(v, Exception):
            raise v
        return v
    if k == "let":
        try:
            v = ref_eval(e[2], env)
        except (RefError, RefUnspec) as ex:
            v = ex
        return ref_eval(e[3], dict(env, **{e[1]: v}))
    if k == "if":
        c = ref_eval(e[1], env)
        if not isinstance(c, bool):
            raise RefError("TypeErr")
        return ref_eval(e[2] if c else e[3], env)
    if k == "neg":
        return ref_eval(("bin", "OSub", ("lit", "0"), e[1]), env)
    if k == "not":
        c = ref_eval(e[1], env)
        if not isinstance(c, bool):
            raise RefError("TypeErr")
        return not c
    if k == "call":
        args = []
        for a in e[2]:
            args.append(ref_eval(a, env))
        return ref_std(e[1], args)
    if k == "bin":
        op = e[1]
        if op in ("OAnd", "OOr"):
            a = ref_eval(e[2], env)
            if not isinstance(a, bool):
                raise RefError("TypeErr")
            if op == "OAnd":
                return ref_eval(e[3], env) if a else False
            return True if a else ref_eval(e[3], env)
        a = ref_eval(e[2], env)
        b = ref_eval(e[3], env)
        if op in ("OEq", "ONe"):
            same = (type(a) == type(b)) and a == b
            return same if op == "OEq" else not same
        if isinstance(a, bool) or isinstance(b, bool) or not isinstance(a, Fraction) or not isinstance(b, Fraction):
            raise RefError("TypeErr")
        if op == "OAdd":
            return a + b
        if op == "OSub":
            return a - b
        if op == "OMul":
            return a * b
        if op == "ODiv":
            if b == 0:
                raise RefError("DivByZero")
            return a / b
        if op == "OMod":
            if b == 0:
                raise RefError("DivByZero")
            return a - trunc_frac(a / b) * b
        if op == "OPow":
            return ref_pow(a, b)
        return {"OLt": a < b, "OLe": a <= b, "OGt": a > b, "OGe": a >= b}[op]
    raise ValueError(e)


def show_ref(v):
    if isinstance(v, bool):
        return "OK true" if v else "OK false"
    if isinstance(v, Fraction):
        return "OK #%d" % v.numerator if v.denominator == 1 else "OK #%d/%d" % (v.numerator, v.denominator)
    if v[0] == "enum":
        return "OK '\"%s\"" % v[1]
    if v[0] == "str":
        return 'OK "%s"' % v[1]
    raise ValueError(v)


def ref_line(e):
    try:
        return show_ref(ref_eval(e))
    except RefError as ex:
        return "ERR " + ex.cls
    except RefUnspec:
        return "UNSPEC"


# ===================================================================== running the interpreter
def split_top(s):
    """Split the inside of a printed array at top-level commas."""
    out, depth, cur, instr, esc = [], 0, [], False, False
    for c in s:
        if instr:
            cur.append(c)
            if esc:
                esc = False
            elif c == "\\":
                esc = True
            elif c == '"':
                instr = False
            continue
        if c == '"':
            instr = True
        elif c in "[{(":
            depth += 1
        elif c in "]})":
            depth -= 1
        elif c == "," and depth == 0:
            out.append("".join(cur))
            cur = []
            continue
        cur.append(c)
    if cur or out:
        out.append("".join(cur))
    return out


class Interp:
    """Evaluates many Nickel expressions with the harness binary `nkeval`, several per program
    (an array), bisecting a batch whenever the program as a whole fails."""

    def __init__(self, ck, flags="", batch=150):
        self.ck, self.flags, self.batch = ck, flags, batch
        self.exe = core.harness_bin("nkeval")
        self.programs = 0

    def run_programs(self, progs):
        self.programs += len(progs)
        rc, out, err = core.run_sharded(self.exe, [], [self.flags + "\t" + p for p in progs], shards=core.NPROC * 2)
        if rc != 0:
            self.ck.obligation("nkeval-run", "internal", False, "rc=%s %s" % (rc, err[-800:]))
        return out

    def eval_many(self, exprs, singles=()):
        """exprs: list of Nickel expression texts.  `singles`: indices to evaluate alone (expected
        errors).  Returns list of result lines (`OK <tree>` / `ERR <class>`)."""
        n = len(exprs)
        res = [None] * n
        singles = set(singles)
        groups = [[i] for i in sorted(singles)]
        rest = [i for i in range(n) if i not in singles]
        groups += [rest[i:i + self.batch] for i in range(0, len(rest), self.batch)]
        while groups:
            progs = [exprs[g[0]] if len(g) == 1 else "[" + ", ".join(exprs[i] for i in g) + "]" for g in groups]
            outs = self.run_programs(progs)
            nxt = []
            for g, o in zip(groups, outs):
                if len(g) == 1:
                    res[g[0]] = o
                    continue
                items = split_top(o[4:-1]) if o.startswith("OK [") and o.endswith("]") else None
                if items is not None and len(items) == len(g):
                    for i, it in zip(g, items):
                        res[i] = "OK " + it
                else:
                    h = len(g) // 2
                    nxt += [g[:h], g[h:]]
            groups = nxt
        return res


# ===================================================================== generators (numbers)
def signed(ast, neg):
    return ("neg", ast) if neg else ast


def dec_text(x):
    """Finite decimal expansion of a non-negative Fraction, or None."""
    d, k = x.denominator, 0
    while d % 2 == 0:
        d //= 2
        k += 1
    j = 0
    while d % 5 == 0:
        d //= 5
        j += 1
    if d != 1:
        return None
    k = max(k, j)
    m = x * 10 ** k
    s = str(m.numerator).rjust(k + 1, "0")
    return (s[:-k] + "." + s[-k:]) if k else s


def forms(p, q):
    """All spellings of p/q used by the grid: [(form name, ast)]."""
    neg, a = p < 0, abs(p)
    out = [("frac", ("bin", "ODiv", signed(("lit", str(a)), neg), ("lit", str(q))))]
    x = Fraction(a, q)
    if x.denominator == 1:
        out.append(("int", signed(("lit", str(x.numerator)), neg)))
    d = dec_text(x)
    if d is not None:
        if "." not in d:
            d += ".0"
        ip, fp = d.split(".")
        out.append(("dec", signed(("lit", d), neg)))
        out.append(("exp-", signed(("lit", "%se-%d" % (int(ip + fp), len(fp))), neg)))
        out.append(("exp+", signed(("lit", "0.%se%d" % ((ip + fp), len(ip))), neg)))
        out.append(("lead0", signed(("lit", "00" + d + "0"), neg)))
        out.append(("Exp", signed(("lit", "%s00E+0" % d), neg)))
        if ip == "0":
            out.append(("dot", signed(("lit", "." + fp), neg)))
    return out


GRID_P, GRID_Q = 12, 6
ARITH_OPS = ["OAdd", "OSub", "OMul", "ODiv", "OMod"]
CMP_OPS = ["OLt", "OLe", "OGt", "OGe", "OEq", "ONe"]
STD1 = ["floor", "truncate", "fract", "abs", "is_integer"]
STD2 = ["min", "max", "compare"]


def grid_values():
    return [(p, q) for p in range(-GRID_P, GRID_P + 1) for q in range(1, GRID_Q + 1)]


def pick_form(p, q, i):
    fs = forms(p, q)
    return fs[i % len(fs)]


def gen_grid(rng, tier):
    """Cases over the bounded grid.  Thorough: exhaustive (every pair, every operator; every
    spelling for unary functions and literals).  Quick: a fixed seeded sample of the same space."""
    vals = grid_values()
    cases = []
    # literals and unary functions: every spelling
    for (p, q) in vals:
        for name, ast in forms(p, q):
            cases.append(("lit:" + name, ast))
            for f in STD1:
                cases.append(("std:" + f, ("call", f, [ast])))
    pairs = [(a, b) for a in vals for b in vals]
    if tier == "quick":
        pairs = [rng.choice(pairs) for _ in range(700)]
    k = 0
    for (a, b) in pairs:
        k += 1
        ea = pick_form(a[0], a[1], k)[1]
        eb = pick_form(b[0], b[1], k // 7)[1]
        for op in ARITH_OPS + CMP_OPS:
            cases.append(("op:" + op, ("bin", op, ea, eb)))
        for f in STD2:
            cases.append(("std:" + f, ("call", f, [ea, eb])))
        if b[1] == 1 and abs(b[0]) <= 6:
            cases.append(("std:pow", ("call", "pow", [ea, eb])))
        elif k % 47 == 0:
            cases.append(("std:pow-float", ("call", "pow", [ea, eb])))
    return cases


def big_number(rng, digits):
    n = 0
    for _ in range(digits):
        n = n * 10 + rng.below(10)
    return n


def gen_big_value(rng):
    """A spelling of a random value with up to 200-digit numerator/denominator."""
    dn, dd = rng.choice([1, 5, 30, 100, 200]), rng.choice([1, 5, 30, 100, 200])
    style = rng.below(4)
    neg = rng.chance(1, 2)
    if style == 0:
        return signed(("bin", "ODiv", ("lit", str(big_number(rng, dn))), ("lit", str(big_number(rng, dd) + 1))), neg)
    if style == 1:
        return signed(("lit", "%d.%s" % (big_number(rng, dn), str(big_number(rng, dd)).rjust(dd, "0"))), neg)
    if style == 2:
        return signed(("lit", "%d.%de%s%d" % (big_number(rng, dn), big_number(rng, 5), rng.choice(["", "+", "-"]), rng.below(250))), neg)
    return signed(("lit", str(big_number(rng, dn))), neg)


def gen_big(rng, n):
    cases = []
    for _ in range(n):
        a, b = gen_big_value(rng), gen_big_value(rng)
        op = rng.choice(ARITH_OPS + CMP_OPS + ["std1", "std2", "pow"])
        if op == "std1":
            f = rng.choice(STD1)
            cases.append(("big:std:" + f, ("call", f, [a])))
        elif op == "std2":
            f = rng.choice(STD2)
            cases.append(("big:std:" + f, ("call", f, [a, b])))
        elif op == "pow":
            cases.append(("big:std:pow", ("call", "pow", [a, signed(("lit", str(rng.below(8))), rng.chance(1, 2))])))
        else:
            cases.append(("big:op:" + op, ("bin", op, a, b)))
    return cases


def gen_nested(rng, n):
    """Random nested expressions (chains of comparisons, let/if, lazy operators, type errors)."""
    def num(d):
        if d <= 0 or rng.chance(1, 3):
            p, q = rng.range(-GRID_P, GRID_P), rng.range(1, GRID_Q)
            return rng.choice(forms(p, q))[1]
        c = rng.below(10)
        if c < 5:
            return ("bin", rng.choice(ARITH_OPS), num(d - 1), num(d - 1))
        if c < 6:
            return ("call", rng.choice(["floor", "truncate", "fract", "abs"]), [num(d - 1)])
        if c < 7:
            return ("call", rng.choice(["min", "max"]), [num(d - 1), num(d - 1)])
        if c < 8:
            return ("if", boolean(d - 1), num(d - 1), num(d - 1))
        if c < 9:
            x = rng.choice(["x", "y", "r"])
            return ("let", x, num(d - 1), ("bin", rng.choice(ARITH_OPS), ("var", x), num(d - 1)))
        return ("neg", num(d - 1))

    def boolean(d):
        c = rng.below(10)
        if d <= 0 or c < 5:
            return ("bin", rng.choice(CMP_OPS), num(d - 1), num(d - 1))
        if c < 7:
            return ("bin", rng.choice(["OAnd", "OOr"]), boolean(d - 1), boolean(d - 1))
        if c < 8:
            return ("not", boolean(d - 1))
        if c < 9:
            return ("call", "is_integer", [num(d - 1)])
        return ("bin", "OEq", ("call", "compare", [num(d - 1), num(d - 1)]), ("enum", rng.choice(["Lesser", "Equal", "Greater"])))

    cases = []
    for i in range(n):
        if rng.chance(1, 25):   # malformed stream: a type error somewhere
            bad = rng.choice([("bool", True), ("str", "s"), ("enum", "A")])
            e = rng.choice([("bin", rng.choice(ARITH_OPS + CMP_OPS[:4]), num(1), bad), ("if", num(1), num(1), num(1)),
                            ("bin", "OAnd", num(1), boolean(1)), ("call", "floor", [bad]),
                            ("bin", "OEq", num(1), bad), ("bin", "OAnd", ("bool", True), num(1))])
            cases.append(("malformed", e))
        else:
            cases.append(("nested", num(3) if rng.chance(1, 2) else boolean(3)))
    return cases


# special spellings and corner cases that always run (besides corpus/C16/*.case)
SPECIAL = [
    ("lit", "1e-3"), ("lit", "0.5e1"), ("lit", "007"), ("lit", "0"), ("lit", "0.0"), ("lit", "000"), ("lit", ".5"),
    ("lit", "1e0"), ("lit", "1E2"), ("lit", "1e+2"), ("lit", "0e5"), ("lit", "0.000e-7"), ("lit", "1e300"), ("lit", "1e-300"),
    ("lit", "123456789012345678901234567890.123456789012345678901234567890"),
    ("lit", "0.1"), ("lit", "0.10"), ("lit", "1.0e1"), ("lit", "9223372036854775808"),
    ("bin", "OEq", ("bin", "OAdd", ("lit", "0.1"), ("lit", "0.2")), ("lit", "0.3")),
    ("bin", "OEq", ("bin", "OMul", ("bin", "ODiv", ("lit", "1"), ("lit", "3")), ("lit", "3")), ("lit", "1")),
    ("bin", "OMod", ("neg", ("lit", "7")), ("lit", "3")), ("bin", "OMod", ("lit", "7"), ("neg", ("lit", "3"))),
    ("bin", "OMod", ("neg", ("lit", "7")), ("neg", ("lit", "3"))), ("bin", "OMod", ("lit", "5"), ("lit", "0.3")),
    ("bin", "OMod", ("lit", "1"), ("lit", "0")), ("bin", "ODiv", ("lit", "1"), ("lit", "0.0")),
    ("call", "floor", [("neg", ("lit", "2"))]), ("call", "floor", [("neg", ("lit", "2.5"))]),
    ("call", "floor", [("neg", ("lit", "0.5"))]), ("call", "truncate", [("neg", ("lit", "0.5"))]),
    ("call", "pow", [("lit", "0"), ("neg", ("lit", "1"))]), ("call", "pow", [("lit", "0"), ("lit", "0")]),
    ("call", "pow", [("lit", "2"), ("neg", ("lit", "3"))]), ("call", "pow", [("neg", ("lit", "0.5")), ("lit", "3")]),
    ("call", "pow", [("lit", "2"), ("lit", "0.5")]), ("call", "pow", [("lit", "1"), ("lit", "9223372036854775807")]),
    ("call", "pow", [("neg", ("lit", "1")), ("neg", ("lit", "9223372036854775808"))]),
    ("bin", "OPow", ("lit", "3"), ("lit", "4")),
    ("bin", "OAnd", ("bool", False), ("bin", "OEq", ("bin", "ODiv", ("lit", "1"), ("lit", "0")), ("lit", "1"))),
    ("let", "x", ("bin", "ODiv", ("lit", "1"), ("lit", "0")), ("lit", "5")),
    ("bin", "OEq", ("lit", "1"), ("str", "1")), ("bin", "OEq", ("enum", "a"), ("str", "a")),
    ("bin", "OLt", ("bin", "OLt", ("lit", "1"), ("lit", "2")), ("lit", "3")),
]


def corpus_cases():
    p = os.path.join(core.ROOT, "corpus", "C16")
    res = []
    if os.path.isdir(p):
        for f in sorted(os.listdir(p)):
            for l in open(os.path.join(p, f)):
                l = l.strip()
                if l and not l.startswith("#"):
                    res.append(json.loads(l))
    return res


def corr_fail(ck, name, detail):
    """A model-vs-interpreter disagreement that is not a violation of the property: recorded once
    per correspondence (first three details kept), counted always."""
    ck.count("disagreements:" + name)
    seen = ck.stats.setdefault("_corr_seen", {})
    seen[name] = seen.get(name, 0) + 1
    if seen[name] <= 3:
        ck.obligation(name, "correspondence", False, detail)


def norm_impl(line):
    if line.startswith("ERR Blame"):
        return "ERR Blame"
    return line


def head_key(ast):
    if ast[0] == "call":
        return "std." + ast[1]
    if ast[0] == "bin":
        return ast[1]
    return ast[0]


def free_vars(e):
    k = e[0]
    if k == "var":
        return {e[1]}
    if k == "let":
        return free_vars(e[2]) | (free_vars(e[3]) - {e[1]})
    if k == "call":
        return set().union(*[free_vars(a) for a in e[2]]) if e[2] else set()
    if k in ("lit", "bool", "enum", "str"):
        return set()
    out = set()
    for x in e[1:]:
        if isinstance(x, tuple):
            out |= free_vars(x)
    return out


def sub_exprs(e):
    yield e
    if e[0] == "call":
        for a in e[2]:
            yield from sub_exprs(a)
    else:
        for x in e[1:]:
            if isinstance(x, tuple):
                yield from sub_exprs(x)


def shrink_numeric(it, ast, im, ref):
    """Smallest closed sub-expression on which interpreter and exact reference still differ."""
    cands = sorted({c for c in sub_exprs(ast) if not free_vars(c) and c != ast}, key=lambda c: len(to_sx(c)))
    if not cands:
        return ast, im, ref
    refs = [ref_line(c) for c in cands]
    outs = it.eval_many([to_nickel(c) for c in cands], singles=[i for i, r in enumerate(refs) if not r.startswith("OK")])
    for c, o, r in zip(cands, outs, refs):
        o = norm_impl(o or "<none>")
        if r != "UNSPEC" and o != r:
            return c, o, r
    return ast, im, ref


def run_numeric(ck, it, exe_model, cases, label):
    """cases: [(tag, ast)].  Three-way comparison implementation / extracted model / python reference."""
    if not cases:
        return
    sx = ["N " + to_sx(a) for _, a in cases]
    rc, model_out, err = core.run_sharded(exe_model, [], sx)
    if rc != 0:
        ck.obligation("model-run:" + label, "internal", False, "rc=%s %s" % (rc, err[-600:]))
    singles = [i for i, m in enumerate(model_out) if not m.startswith("OK")]
    impl_out = it.eval_many([to_nickel(a) for _, a in cases], singles)
    for (tag, ast), m, im in zip(cases, model_out, impl_out):
        im = norm_impl(im or "<none>")
        ref = ref_line(ast)
        ck.case(key=to_sx(ast), nontrivial=(ast[0] != "lit"))
        ck.hist("numeric_cases", tag)
        ck.hist("numeric_outcomes", im.split(" ")[0] + (" " + im.split(" ")[1] if im.startswith("ERR") else ""))
        if im == "ERR Panic" or im == "ERR Budget" or im.startswith("<"):
            ck.violation("num-crash:" + head_key(ast), "interpreter crashed / did not answer on an arithmetic expression",
                         {"kind": "numeric", "ast": ast, "nickel": to_nickel(ast), "impl": im, "model": m, "reference": ref})
            continue
        if m == "UNSPEC" or ref == "UNSPEC":
            ck.count("unspecified_f64_path")
            if m != ref:
                corr_fail(ck, "correspondence:pow-split", "model %s vs reference %s on %s" % (m, ref, to_nickel(ast)))
            continue
        if im != ref:
            small, sim, sref = shrink_numeric(it, ast, im, ref)
            ck.violation("num:" + head_key(small), "the interpreter's result differs from exact rational arithmetic: `%s` gives `%s`, exact value `%s`" % (to_nickel(small)[:120], sim, sref),
                         {"kind": "numeric", "ast": small, "nickel": to_nickel(small), "impl": sim, "model": m, "reference": sref,
                          "found_in": to_nickel(ast), "how_to_replay": "./verif check C16 --replay <this file>"})
        elif m != im:
            corr_fail(ck, "correspondence:arith-model-vs-interpreter", "%s\nimpl  %s\nmodel %s\nref   %s" % (to_nickel(ast), im, m, ref))
    for (tag, ast), m, im in list(zip(cases, model_out, impl_out))[:2]:
        ck.sample({"stream": label, "nickel": to_nickel(ast)[:200], "impl": (im or "")[:200], "model": m[:200]})


# ===================================================================== data values and ==
# ("null",) ("b", bool) ("n", p, q, spelling index) ("s", text) ("e", tag) ("v", tag, dv) ("a", [dv]) ("r", [(key, dv)])
KEYS = ["a", "b", "c", "d", "e", "foo", "Bar", "a1", "x_y", "z"]
STRS = ["", "a", "b", "foo", "Foo", "1", "true", "null"]
TAGS = ["A", "B", "Foo", "a", "foo", "None"]


def enum_tag(t):
    return t if re.fullmatch(r"_*[a-zA-Z][_a-zA-Z0-9'-]*", t) else '"%s"' % t


def dv_nickel(d, annotate=None):
    k = d[0]
    if k == "null":
        return "null"
    if k == "b":
        return "true" if d[1] else "false"
    if k == "n":
        fs = forms(d[1], d[2])
        return to_nickel(fs[d[3] % len(fs)][1])
    if k == "s":
        return '"%s"' % d[1]
    if k == "e":
        return "'" + enum_tag(d[1])
    if k == "v":
        return "('%s %s)" % (enum_tag(d[1]), dv_nickel(d[2], annotate))
    if k == "a":
        txt = "[" + ", ".join(dv_nickel(x, annotate) for x in d[1]) + "]"
        if annotate and annotate.chance(1, 2):
            elt = "Number" if d[1] and all(x[0] == "n" for x in d[1]) and annotate.chance(2, 3) else "Dyn"
            txt = "(%s | Array %s)" % (txt, elt)
        return txt
    if k == "r":
        parts = []
        for key, v in d[1]:
            ann = ""
            if annotate and annotate.chance(1, 2):
                ann = " | " + ({"n": "Number", "s": "String", "b": "Bool"}.get(v[0], "Dyn") if annotate.chance(2, 3) else "Dyn")
            parts.append('"%s"%s = %s' % (key, ann, dv_nickel(v, annotate)))
        return "{" + ", ".join(parts) + "}"
    raise ValueError(d)


def dv_sx(d):
    k = d[0]
    if k == "null":
        return "null"
    if k == "b":
        return "(b %s)" % ("true" if d[1] else "false")
    if k == "n":
        return "(n %d %d)" % (d[1], d[2])
    if k == "s":
        return "(s %s)" % d[1] if d[1] else "(s)"
    if k == "e":
        return "(e %s)" % d[1]
    if k == "v":
        return "(v %s %s)" % (d[1], dv_sx(d[2]))
    if k == "a":
        return "(a %s)" % " ".join(dv_sx(x) for x in d[1])
    if k == "r":
        return "(r %s)" % " ".join("(%s %s)" % (key, dv_sx(v)) for key, v in d[1])
    raise ValueError(d)


def dv_canon(d):
    """Independent reference: canonical python value (numbers reduced, fields sorted)."""
    k = d[0]
    if k == "n":
        return ("n", Fraction(d[1], d[2]))
    if k == "v":
        return ("v", d[1], dv_canon(d[2]))
    if k == "a":
        return ("a", tuple(dv_canon(x) for x in d[1]))
    if k == "r":
        return ("r", tuple(sorted((key, dv_canon(v)) for key, v in d[1])))
    return d


def dv_tree(d):
    """The canonical tree text nkeval prints in `full` mode."""
    k = d[0]
    if k == "null":
        return "null"
    if k == "b":
        return "true" if d[1] else "false"
    if k == "n":
        x = Fraction(d[1], d[2])
        return "#%d" % x.numerator if x.denominator == 1 else "#%d/%d" % (x.numerator, x.denominator)
    if k == "s":
        return json.dumps(d[1])
    if k == "e":
        return "'" + json.dumps(d[1])
    if k == "v":
        return "('%s %s)" % (json.dumps(d[1]), dv_tree(d[2]))
    if k == "a":
        return "[" + ",".join(dv_tree(x) for x in d[1]) + "]"
    if k == "r":
        return "{" + ",".join("%s:%s" % (json.dumps(key), dv_tree(v)) for key, v in sorted(d[1])) + "}"
    raise ValueError(d)


def gen_dv(rng, depth):
    c = rng.below(12)
    if depth <= 0 or c < 5:
        c = rng.below(6)
        if c == 0:
            return ("null",)
        if c == 1:
            return ("b", rng.chance(1, 2))
        if c in (2, 3):
            return ("n", rng.range(-GRID_P, GRID_P), rng.range(1, GRID_Q), rng.below(8))
        if c == 4:
            return ("s", rng.choice(STRS))
        return ("e", rng.choice(TAGS))
    if c < 6:
        return ("v", rng.choice(TAGS), gen_dv(rng, depth - 1))
    if c < 9:
        return ("a", [gen_dv(rng, depth - 1) for _ in range(rng.below(4))])
    keys = rng.shuffle(KEYS)[:rng.below(5)]
    return ("r", [(key, gen_dv(rng, depth - 1)) for key in keys])


def dv_permute(rng, d):
    """Same data: record fields shuffled at every depth, numbers respelled (and un-reduced)."""
    k = d[0]
    if k == "n":
        m = rng.choice([1, 1, 2, 3])
        if abs(d[1] * m) <= 3 * GRID_P and d[2] * m <= GRID_Q:
            return ("n", d[1] * m, d[2] * m, rng.below(8))
        return ("n", d[1], d[2], rng.below(8))
    if k == "v":
        return ("v", d[1], dv_permute(rng, d[2]))
    if k == "a":
        return ("a", [dv_permute(rng, x) for x in d[1]])
    if k == "r":
        return ("r", rng.shuffle([(key, dv_permute(rng, v)) for key, v in d[1]]))
    return d


def dv_mutate(rng, d):
    """A value that differs from d in (usually) one place."""
    k = d[0]
    if k == "v" and rng.chance(2, 3):
        return ("v", d[1], dv_mutate(rng, d[2]))
    if k == "a" and d[1] and rng.chance(3, 4):
        i = rng.below(len(d[1]))
        c = rng.below(4)
        if c == 0:
            return ("a", d[1][:i] + d[1][i + 1:])
        if c == 1:
            return ("a", d[1] + [gen_dv(rng, 0)])
        return ("a", d[1][:i] + [dv_mutate(rng, d[1][i])] + d[1][i + 1:])
    if k == "r" and rng.chance(3, 4):
        fs = list(d[1])
        c = rng.below(4)
        if c == 0 and fs:
            i = rng.below(len(fs))
            return ("r", fs[:i] + fs[i + 1:])
        free = [x for x in KEYS if x not in [f[0] for f in fs]]
        if c == 1 and free:
            return ("r", fs + [(rng.choice(free), gen_dv(rng, 0))])
        if c == 2 and fs and free:
            i = rng.below(len(fs))
            return ("r", fs[:i] + [(rng.choice(free), fs[i][1])] + fs[i + 1:])
        if fs:
            i = rng.below(len(fs))
            return ("r", fs[:i] + [(fs[i][0], dv_mutate(rng, fs[i][1]))] + fs[i + 1:])
    if k == "n":
        return rng.choice([("n", d[1] + 1, d[2], d[3]), ("n", -d[1], d[2], d[3]), ("s", str(d[1])), ("n", d[1], d[2] + 1, 0)])
    if k == "s":
        return rng.choice([("s", d[1] + "x"), ("e", d[1] or "A"), ("null",)])
    if k == "e":
        return rng.choice([("s", d[1]), ("e", d[1] + "x"), ("v", d[1], ("null",))])
    if k == "b":
        return ("b", not d[1])
    return gen_dv(rng, 1)


def gen_triples(rng, n):
    out = []
    for _ in range(n):
        a = gen_dv(rng, rng.range(1, 3))
        c = rng.below(10)
        if c < 3:
            t = (a, dv_permute(rng, a), dv_permute(rng, a))
        elif c < 6:
            t = (a, dv_permute(rng, a), dv_mutate(rng, a))
        elif c < 8:
            m = dv_mutate(rng, a)
            t = (a, m, dv_permute(rng, m))
        elif c < 9:
            t = (a, dv_mutate(rng, a), dv_mutate(rng, a))
        else:
            t = (a, gen_dv(rng, 2), gen_dv(rng, 2))
        out.append(t)
    return out


def small_universe():
    """A small closed universe of data values for exhaustive pair/triple checks (thorough)."""
    leaves = [("null",), ("b", True), ("n", 1, 1, 0), ("n", 2, 2, 0), ("n", 1, 2, 2), ("s", "a"), ("e", "a"), ("s", "1")]
    u = list(leaves)
    u += [("a", []), ("a", [leaves[2]]), ("a", [leaves[3], leaves[0]]), ("a", [leaves[0], leaves[2]]),
          ("r", []), ("r", [("a", leaves[2])]), ("r", [("a", leaves[3]), ("b", leaves[0])]), ("r", [("b", leaves[0]), ("a", leaves[2])]),
          ("r", [("a", leaves[0]), ("b", leaves[2])]), ("v", "a", leaves[2]), ("v", "a", leaves[3]), ("v", "b", leaves[2]),
          ("a", [("r", [("a", leaves[2])])]), ("r", [("a", ("a", [leaves[2]]))]), ("r", [("a", ("r", []))]), ("a", [("a", [])])]
    return u


def run_equality(ck, it, exe_model, triples, label, annotate_rng=None):
    """For each triple (a, b, c): the interpreter evaluates
         [a==b, b==a, b==c, a==c, a==a]   (+ the same with pending contracts attached when annotate_rng)
       and prints the canonical trees of a, b.  Direct oracles on the interpreter alone: reflexivity,
       symmetry, transitivity, == agrees with equality of the printed trees, == is unchanged by
       validating contracts.  Then implementation vs extracted model vs python reference."""
    if not triples:
        return
    lines = []
    for a, b, c in triples:
        lines += ["E %s %s" % (dv_sx(a), dv_sx(b)), "E %s %s" % (dv_sx(b), dv_sx(c)), "E %s %s" % (dv_sx(a), dv_sx(c)),
                  "C " + dv_sx(a), "C " + dv_sx(b)]
    rc, mo, err = core.run_sharded(exe_model, [], lines)
    if rc != 0:
        ck.obligation("model-run:" + label, "internal", False, "rc=%s %s" % (rc, err[-600:]))
    progs, trees = [], []
    for a, b, c in triples:
        A, B, C = dv_nickel(a), dv_nickel(b), dv_nickel(c)
        items = ["A == B", "B == A", "B == C", "A == C", "A == A"]
        pre = "let A = %s in let B = %s in let C = %s in " % (A, B, C)
        if annotate_rng is not None:
            pre += "let A' = %s in let B' = %s in " % (dv_nickel(a, annotate_rng), dv_nickel(b, annotate_rng))
            items += ["A' == B", "A == B'", "A' == B'", "A' == A"]
        progs.append("(" + pre + "[" + ", ".join(items) + "])")
        trees.append("[%s, %s]" % (A, B))
    impl = it.eval_many(progs)
    itf = Interp(ck, flags="full", batch=it.batch)
    impl_trees = itf.eval_many(trees)
    it.programs += itf.programs
    for idx, (t, im, tr) in enumerate(zip(triples, impl, impl_trees)):
        a, b, c = t
        m_ab, m_bc, m_ac, c_a, c_b = mo[5 * idx:5 * idx + 5]
        rep = {"kind": "equality", "a": dv_nickel(a), "b": dv_nickel(b), "c": dv_nickel(c), "impl": im, "impl_trees": tr,
               "model": [m_ab, m_bc, m_ac], "how_to_replay": "./verif check C16 --replay <this file>"}
        ck.case(key=dv_sx(a) + dv_sx(b) + dv_sx(c), nontrivial=(a[0] in "arv" or b[0] in "arv"))
        ck.hist("equality_cases", label)
        ck.hist("equality_shapes", a[0] + b[0])
        for fl in ("!STACK", "!CANON", "!FUEL"):
            if fl in m_ab or fl in m_bc or fl in m_ac:
                corr_fail(ck, "model-internal:" + fl, "extracted model: stack algorithm / canonical tree / structural equality disagree on %s" % rep)
        if not (im and im.startswith("OK [")):
            ck.violation("eq-error:" + (im or "none").replace(" ", "_"), "== on data values raised an error / crashed", rep)
            continue
        vals = split_top(im[4:-1])
        ab, ba, bc, ac, aa = [v == "true" for v in vals[:5]]
        ck.hist("equality_answers", "a==b:%s" % ab)
        if not aa:
            ck.violation("eq-refl", "a == a is false on data", rep)
        if ab != ba:
            ck.violation("eq-sym", "a == b differs from b == a", rep)
        if ab and bc and not ac:
            ck.violation("eq-trans", "a == b and b == c but not a == c", rep)
        ta = tb = None
        if tr and tr.startswith("OK ["):
            ts = split_top(tr[4:-1])
            if len(ts) == 2:
                ta, tb = ts
        if ta is None:
            ck.violation("eq-tree-error", "a data value could not be evaluated to a tree", rep)
        else:
            if (ta == tb) != ab:
                ck.violation("eq-vs-export", "a == b disagrees with equality of the canonical exported trees", rep)
            if "OK " + ta != c_a or "OK " + tb != c_b or ta != dv_tree(a):
                corr_fail(ck, "correspondence:canonical-tree", "tree of %s\nimpl  %s\nmodel %s\npy    %s" % (dv_nickel(a), ta, c_a, dv_tree(a)))
        if annotate_rng is not None and len(vals) >= 9:
            if [v == "true" for v in vals[5:8]] != [ab, ab, ab] or vals[8] != "true":
                ck.violation("eq-pending-contracts", "== changes when validating contracts are pending on the operands", rep)
        ref = [dv_canon(a) == dv_canon(b), dv_canon(b) == dv_canon(c), dv_canon(a) == dv_canon(c)]
        mod = [m_ab.startswith("OK true"), m_bc.startswith("OK true"), m_ac.startswith("OK true")]
        if [ab, bc, ac] != ref:
            ck.violation("eq-vs-reference", "== differs from structural equality of the data", rep)
        elif mod != [ab, bc, ac]:
            corr_fail(ck, "correspondence:eq-model-vs-interpreter", json.dumps(rep)[:1200])
            if ck.stats.get("disagreements:correspondence:eq-model-vs-interpreter", 0) <= 3:
                law_battery(ck, it, [("a", dv_nickel(a)), ("b", dv_nickel(b)), ("c", dv_nickel(c))], "search around a model/interpreter disagreement in stream " + label)
    a, b, c = triples[0]
    ck.sample({"stream": label, "a": dv_nickel(a)[:150], "b": dv_nickel(b)[:150], "impl": (impl[0] or "")[:120], "model": mo[0]})


# ===================================================================== extended values (EqX.v)
# ("bot",) | scalars/variants as above | ("a", [ctr], [xv]) | ("r", [(key, optional?, [ctr], xv or None)])
# ctr: "num" "str" "bool" "dyn" ("arr", ctr)
def ctr_nickel(c):
    if isinstance(c, tuple):
        return "Array (%s)" % ctr_nickel(c[1])
    return {"num": "Number", "str": "String", "bool": "Bool", "dyn": "Dyn"}[c]


def ctr_sx(c):
    return "(arr %s)" % ctr_sx(c[1]) if isinstance(c, tuple) else c


def xv_nickel(x):
    k = x[0]
    if k == "bot":
        return "(1/0)"
    if k == "v":
        return "('%s %s)" % (enum_tag(x[1]), xv_nickel(x[2]))
    if k == "a":
        txt = "[" + ", ".join(xv_nickel(y) for y in x[2]) + "]"
        for c in x[1]:
            txt = "(%s | Array (%s))" % (txt, ctr_nickel(c))
        return txt
    if k == "r":
        parts = []
        for key, opt, cs, v in x[1]:
            f = '"%s"' % key
            if opt:
                f += " | optional"
            for c in cs:
                f += " | " + ctr_nickel(c)
            if v is not None:
                f += " = " + xv_nickel(v)
            parts.append(f)
        return "{" + ", ".join(parts) + "}"
    return dv_nickel(x)


def xv_sx(x):
    k = x[0]
    if k == "bot":
        return "bot"
    if k == "v":
        return "(v %s %s)" % (x[1], xv_sx(x[2]))
    if k == "a":
        return "(a (c %s) %s)" % (" ".join(ctr_sx(c) for c in x[1]), " ".join(xv_sx(y) for y in x[2]))
    if k == "r":
        return "(r %s)" % " ".join("(%s %s (c %s) %s)" % (key, "opt" if opt else "req", " ".join(ctr_sx(c) for c in cs),
                                                        "nodef" if v is None else xv_sx(v)) for key, opt, cs, v in x[1])
    return dv_sx(x)


def ctr_accepts(c, x):
    if c == "dyn":
        return True
    if isinstance(c, tuple):
        return x[0] == "a"
    return {"num": "n", "str": "s", "bool": "b"}[c] == x[0]


def xv_norm(cs, x):
    """The data a closure (contracts cs, value x) stands for, or None (mirrors EqX.norm; used as the
    stripped operand of the direct oracle, evaluated by the interpreter itself)."""
    k = x[0]
    if k == "bot" or not all(ctr_accepts(c, x) for c in cs):
        return None
    if k == "v":
        a = xv_norm([], x[2])
        return None if a is None else ("v", x[1], a)
    if k == "a":
        ecs = list(x[1]) + [c[1] for c in cs if isinstance(c, tuple)]
        items = [xv_norm(ecs, y) for y in x[2]]
        return None if any(i is None for i in items) else ("a", items)
    if k == "r":
        out = []
        for key, opt, fcs, v in x[1]:
            if v is None:
                if not opt:
                    return None
                continue
            d = xv_norm(fcs, v)
            if d is None:
                return None
            out.append((key, d))
        return ("r", out)
    return x


def fitting_ctr(rng, x, wild):
    """A contract for value x: one that accepts it (always when not wild)."""
    if wild and rng.chance(1, 6):
        return rng.choice(["num", "str", "bool", ("arr", "dyn")])
    c = rng.below(3)
    if c == 0 or x[0] in ("null", "e", "v", "r", "bot"):
        return "dyn"
    if x[0] == "a":
        if x[2] and all(y[0] == "n" for y in x[2]) and rng.chance(1, 2):
            return ("arr", "num")
        return ("arr", "dyn")
    return {"n": "num", "s": "str", "b": "bool"}[x[0]]


def gen_xv(rng, depth, wild):
    c = rng.below(14)
    if wild and rng.chance(1, 12):
        return ("bot",)
    if depth <= 0 or c < 5:
        return gen_dv(rng, 0)
    if c < 6:
        return ("v", rng.choice(TAGS), gen_xv(rng, depth - 1, wild))
    if c < 9:
        items = [gen_xv(rng, depth - 1, wild) for _ in range(rng.below(4))]
        x = ("a", [], items)
        cs = []
        for _ in range(rng.below(3)):
            cc = fitting_ctr(rng, x, wild)
            if isinstance(cc, tuple):
                cs.append(cc[1])
        return ("a", cs, items)
    fields = []
    for key in rng.shuffle(KEYS)[:rng.below(5)]:
        c2 = rng.below(10)
        if c2 < 2:
            fields.append((key, True, [rng.choice(["num", "dyn", ("arr", "dyn")])] if rng.chance(1, 3) else [], None))
        elif c2 < 3 and wild:
            fields.append((key, False, [], None))
        else:
            v = gen_xv(rng, depth - 1, wild)
            cs = [fitting_ctr(rng, v, wild) for _ in range(rng.below(3))]
            fields.append((key, rng.chance(1, 5), cs, v))
    return ("r", fields)


def xv_of_dv(d, rng):
    """d as an extended value decorated with passing contracts, empty optional fields, shuffled."""
    k = d[0]
    if k == "v":
        return ("v", d[1], xv_of_dv(d[2], rng))
    if k == "a":
        items = [xv_of_dv(y, rng) for y in d[1]]
        cs = [rng.choice(["dyn", "num"] if d[1] and all(y[0] == "n" for y in d[1]) else ["dyn"]) for _ in range(rng.below(3))]
        return ("a", cs, items)
    if k == "r":
        fields = []
        for key, v in d[1]:
            xvv = xv_of_dv(v, rng)
            fields.append((key, rng.chance(1, 4), [fitting_ctr(rng, xvv, False) for _ in range(rng.below(3))], xvv))
        free = [x for x in KEYS if x not in [f[0] for f in fields]]
        for key in rng.shuffle(free)[:rng.below(3)]:
            fields.append((key, True, [], None))
        return ("r", rng.shuffle(fields))
    return d


def xv_wild_mutate(rng, x):
    """Turn one place of x into something that is not data: an undefined field, a failing contract,
    an erroring element."""
    k = x[0]
    if k == "v" and rng.chance(2, 3):
        return ("v", x[1], xv_wild_mutate(rng, x[2]))
    if k == "a" and x[2]:
        i = rng.below(len(x[2]))
        c = rng.below(4)
        if c == 0:
            return ("a", x[1] + [rng.choice(["num", "str", "bool"])], x[2])
        if c == 1:
            return ("a", x[1], x[2][:i] + [("bot",)] + x[2][i + 1:])
        return ("a", x[1], x[2][:i] + [xv_wild_mutate(rng, x[2][i])] + x[2][i + 1:])
    if k == "r" and x[1]:
        i = rng.below(len(x[1]))
        key, opt, cs, v = x[1][i]
        c = rng.below(6)
        if c == 0:
            f = (key, False, cs, None)
        elif c == 1:
            f = (key, True, cs, None)
        elif c == 2:
            f = (key, opt, cs + [rng.choice(["num", "str", "bool", ("arr", "dyn")])], v)
        elif c == 3 or v is None:
            f = (key, opt, cs, ("bot",))
        else:
            f = (key, opt, cs, xv_wild_mutate(rng, v))
        return ("r", x[1][:i] + [f] + x[1][i + 1:])
    return ("bot",) if rng.chance(1, 2) else x


def gen_xpairs(rng, n):
    out = []
    for _ in range(n):
        c = rng.below(10)
        if c < 4:       # same data, different decoration
            d = gen_dv(rng, rng.range(1, 3))
            out.append((xv_of_dv(d, rng), xv_of_dv(dv_permute(rng, d), rng)))
        elif c < 6:     # slightly different data
            d = gen_dv(rng, rng.range(1, 3))
            out.append((xv_of_dv(d, rng), xv_of_dv(dv_mutate(rng, d), rng)))
        elif c < 8:     # wild: errors, failing contracts, missing definitions; related operands
            d = gen_dv(rng, rng.range(1, 3))
            a, b = xv_of_dv(d, rng), xv_of_dv(dv_permute(rng, d) if rng.chance(2, 3) else dv_mutate(rng, d), rng)
            if rng.chance(1, 2):
                a = xv_wild_mutate(rng, a)
            else:
                b = xv_wild_mutate(rng, b)
            if rng.chance(1, 4):
                a = xv_wild_mutate(rng, a)
            out.append((a, b))
        else:
            out.append((gen_xv(rng, 2, rng.chance(1, 2)), gen_xv(rng, 2, rng.chance(1, 2))))
    return out


def run_xequality(ck, it, exe_model, pairs, label):
    """Extended values: interpreter vs extracted EqX model; and, when both operands stand for data,
    the direct oracle `(a == b) == (strip a == strip b)` on the interpreter's own answers."""
    if not pairs:
        return
    rc, mo, err = core.run_sharded(exe_model, [], ["X %s %s" % (xv_sx(a), xv_sx(b)) for a, b in pairs])
    if rc != 0:
        ck.obligation("model-run:" + label, "internal", False, "rc=%s %s" % (rc, err[-600:]))
    exprs, singles = [], []
    for i, (a, b) in enumerate(pairs):
        na, nb = xv_norm([], a), xv_norm([], b)
        if na is not None and nb is not None:
            exprs.append("(let A = %s in let B = %s in [A == B, B == A, %s == %s])" % (xv_nickel(a), xv_nickel(b), dv_nickel(na), dv_nickel(nb)))
        else:
            exprs.append("(%s == %s)" % (xv_nickel(a), xv_nickel(b)))
            if not mo[i].startswith("OK"):
                singles.append(i)
    impl = it.eval_many(exprs, singles)
    disagreements = []
    for (a, b), m, im in zip(pairs, mo, impl):
        im = norm_impl(im or "<none>")
        na, nb = xv_norm([], a), xv_norm([], b)
        rep = {"kind": "xequality", "a": xv_nickel(a), "b": xv_nickel(b), "impl": im, "model": m,
               "sx": [xv_sx(a), xv_sx(b)], "how_to_replay": "./verif check C16 --replay <this file>"}
        ck.case(key=xv_sx(a) + xv_sx(b), nontrivial=True)
        ck.hist("xequality_cases", label + (":data" if na is not None and nb is not None else ":wild"))
        ck.hist("xequality_outcomes", m.split(" !")[0].replace(" norm", ""))
        if "!NORM" in m or "!WF" in m:
            corr_fail(ck, "model-internal:xeq-vs-norm", "extracted model: xeq_machine differs from == of the normalised data on %s" % rep)
        if im in ("ERR Panic", "ERR Budget") or im.startswith("<"):
            ck.violation("xeq-crash", "== crashed / did not answer", rep)
            continue
        mres = m.split(" ")[0] + " " + m.split(" ")[1]
        if na is not None and nb is not None:
            if not im.startswith("OK ["):
                ck.violation("xeq-data-error", "== raised an error on operands that stand for data (validating contracts, empty optional fields)", rep)
                continue
            ab, ba, stripped = [v == "true" for v in split_top(im[4:-1])]
            if ab != stripped:
                ck.violation("eq-pending-contracts", "== is changed by validating pending contracts / empty optional fields", rep)
            elif ab != ba:
                ck.violation("eq-sym", "a == b differs from b == a", rep)
            elif mres != ("OK true" if ab else "OK false"):
                corr_fail(ck, "correspondence:xeq-model-vs-interpreter", json.dumps(rep)[:1500])
                disagreements.append((a, b))
        elif mres != im:
            corr_fail(ck, "correspondence:xeq-model-vs-interpreter", json.dumps(rep)[:1500])
            disagreements.append((a, b))
    search_equality(ck, it, core.SplitMix64(ck.seed * 7919 + len(pairs)), disagreements, label)
    a, b = pairs[0]
    ck.sample({"stream": label, "a": xv_nickel(a)[:160], "b": xv_nickel(b)[:160], "impl": (impl[0] or "")[:80], "model": mo[0]})


# ===================================================================== search for a failing law (DESIGN §1.4)
REBUILD = ("let rec rebuild = fun v => if std.is_array v then std.array.map rebuild v "
           "else if std.is_record v then std.record.map (fun _k x => rebuild x) v else v in ")


def derived_values(named):
    """named: [(name, closed nickel text)].  Each value, a copy re-built element by element (which
    forces pending contracts), and the value after a JSON export/import round trip.
    Returns [(label, closed text)]."""
    out = []
    for name, txt in named:
        out.append((name, "(%s)" % txt))
        out.append((name + "~rebuilt", "(%s rebuild (%s))" % (REBUILD, txt)))
        out.append((name + "~json", "(std.deserialize 'Json (std.serialize 'Json (%s)))" % txt))
    return out


def law_battery(ck, it, named, context, max_report=1, prefix=""):
    """Direct oracles on the interpreter alone, around the given values: reflexivity, symmetry,
    transitivity over all derived values, and agreement of == with equality of the canonical trees
    the interpreter itself prints.  Reports the first failing law as a violation whose replay holds
    the concrete (closed) values.  Returns the number of violations reported."""
    vals = derived_values(named)
    n = len(vals)
    # `prefix`: let-bindings shared by all the values (contract aliases must be the SAME binding on
    # both operands for the evaluator to recognise them as equal contracts)
    exprs = ["(%s(%s == %s))" % (prefix, vals[i][1], vals[j][1]) for i in range(n) for j in range(n)]
    outs = [norm_impl(o or "<none>") for o in it.eval_many(exprs)]
    itf = Interp(ck, flags="full", batch=it.batch)
    trees = [norm_impl(o or "<none>") for o in itf.eval_many(["(%s%s)" % (prefix, v[1]) for v in vals])]
    it.programs += itf.programs
    ck.count("law_battery_equalities", len(exprs))
    M = [[outs[i * n + j] for j in range(n)] for i in range(n)]
    val = lambda i, j: {"OK true": True, "OK false": False}.get(M[i][j])
    found = []

    def report(key, text, i, j, k=None):
        k = j if k is None else k
        rep = {"kind": "equality", "prefix": prefix, "a": vals[i][1], "b": vals[j][1], "c": vals[k][1], "law": key,
               "labels": [vals[i][0], vals[j][0], vals[k][0]], "context": context,
               "answers": {"a==b": M[i][j], "b==a": M[j][i], "b==c": M[j][k], "a==c": M[i][k], "a==a": M[i][i]},
               "trees": {"a": trees[i], "b": trees[j], "c": trees[k]}, "key": key,
               "how_to_replay": "./verif check C16 --replay <this file>"}
        found.append(key)
        ck.violation(key, text + " --%s a = %s ; b = %s%s" % ((" with " + prefix[:200]) if prefix else "", vals[i][1][:160], vals[j][1][:160], (" ; c = " + vals[k][1][:160]) if k != j else ""), rep)

    for i in range(n):
        if len(found) >= max_report:
            return len(found)
        if trees[i].startswith("OK") and val(i, i) is not True:
            report("eq-refl", "a == a is `%s` on a value that evaluates to data" % M[i][i], i, i)
    for i in range(n):
        for j in range(i + 1, n):
            if len(found) >= max_report:
                return len(found)
            if val(i, j) is not None and val(j, i) is not None and val(i, j) != val(j, i):
                report("eq-sym", "a == b is %s but b == a is %s" % (val(i, j), val(j, i)), i, j)
    for i in range(n):
        for j in range(n):
            if len(found) >= max_report:
                return len(found)
            if i != j and trees[i].startswith("OK") and trees[j].startswith("OK") and val(i, j) is not None \
                    and (trees[i] == trees[j]) != val(i, j):
                report("eq-vs-export", "a == b is %s but the canonical trees of a and b are %s" % (
                    val(i, j), "equal" if trees[i] == trees[j] else "different"), i, j)
    for i in range(n):
        for j in range(n):
            for k in range(n):
                if len(found) >= max_report:
                    return len(found)
                if val(i, j) is True and val(j, k) is True and val(i, k) is False:
                    report("eq-trans", "a == b and b == c but not a == c", i, j, k)
    return len(found)


# ---- values whose pending contracts CHANGE them (defaults): the family the validating-contract
# model does not cover; direct oracles only
def gen_changing_pair(rng):
    """(plain text, lazy text, should be equal?): the same array of records, once written out, once
    with a field left to the default value of a pending `Array {k | default = v, ..}` contract."""
    k = rng.choice(["a", "b"])
    v = rng.range(0, 3)
    n = rng.range(1, 4)
    elems = []
    for _ in range(n):
        e = {}
        for key in ["a", "b", "c"]:
            if rng.chance(2, 3):
                e[key] = rng.range(0, 3)
        if rng.chance(1, 2):
            e[k] = v
        elems.append(e)

    def rec(e):
        return "{" + ", ".join("%s = %d" % kv for kv in sorted(e.items())) + "}"
    plain_elems = [dict(e) for e in elems]
    for e in plain_elems:
        e.setdefault(k, v)
    lazy_elems = [dict(e) for e in elems]
    for e in lazy_elems:
        if e.get(k) == v and rng.chance(2, 3):
            del e[k]
    same = True
    if rng.chance(1, 4):           # a genuinely different pair
        i = rng.below(n)
        key = rng.choice(["a", "b", "c"])
        plain_elems[i][key] = plain_elems[i].get(key, 0) + 5
        same = False
    plain = "[" + ", ".join(rec(e) for e in plain_elems) + "]"
    lazy = "([" + ", ".join(rec(e) for e in lazy_elems) + "] | Array {%s | default = %d, ..})" % (k, v)
    shape = rng.below(5)
    wrap = [lambda t: t, lambda t: "{x = %s, y = 1}" % t, lambda t: "('T %s)" % t, lambda t: "[%s, []]" % t,
            lambda t: "{p = {q = %s}}" % t][shape]
    if shape == 3 and rng.chance(1, 2):
        return "[%s, []]" % plain, "([%s, []] | Array (Array Dyn))" % lazy, same
    return wrap(plain), wrap(lazy), same


def run_changing_contracts(ck, it, n, label="value-changing-contracts"):
    def go(rng):
        pairs = [gen_changing_pair(rng) for _ in range(n)]
        exprs = ["(let P = %s in let L = %s in [P == L, L == P, P == P, L == L])" % (p, l) for p, l, _ in pairs]
        outs = it.eval_many(exprs)
        itf = Interp(ck, flags="full", batch=it.batch)
        trees = itf.eval_many(["[%s, %s]" % (p, l) for p, l, _ in pairs])
        it.programs += itf.programs
        bad = 0
        for (p, l, same), o, t in zip(pairs, outs, trees):
            ck.case(key=p + l, nontrivial=True)
            ck.hist("equality_cases", label)
            o = norm_impl(o or "<none>")
            ts = split_top(t[4:-1]) if t and t.startswith("OK [") else None
            ok = o.startswith("OK [") and ts is not None and len(ts) == 2
            if ok:
                pl, lp, pp, ll = [x == "true" for x in split_top(o[4:-1])]
                ok = pp and ll and pl == lp and pl == (ts[0] == ts[1]) and pl == same
            if not ok:
                bad += 1
                if bad <= 2:        # the battery names the law and writes the replay
                    if not law_battery(ck, it, [("plain", p), ("lazy", l)], label):
                        ck.violation("eq-pending-contracts", "== on an array whose pending contract supplies default values: [P==L, L==P, P==P, L==L] = %s, trees %s, expected %s -- P = %s ; L = %s" % (o, t, same, p, l),
                                     {"kind": "equality", "a": p, "b": l, "c": l, "key": "eq-pending-contracts"})
        return bad
    return go


# ---- both operands under the SAME (or an equal) pending contract
ABS_CTR = "(std.contract.custom (fun _l v => if std.is_number v then 'Ok (std.number.abs v) else 'Error { message = \"not a number\" }))"


def gen_shared_case(rng):
    """x and y are containers that both carry a pending contract recognised as the same one (same
    let-bound alias, field of a record of contracts, factory instance, alias of the whole container
    contract, or an equal separately bound / inline one); z is the same data written out.
    Returns {prefix, x, y, z, expect} with expect in {"same", "diff", "blame"}."""
    kind = rng.weighted([("default", 5), ("abs", 3), ("number", 2)])
    k, v = rng.choice(["a", "b"]), rng.range(0, 3)
    inner = rng.chance(1, 4)                 # elements are themselves arrays, contract Array C
    blame = rng.chance(1, 6)
    differ = (not blame) and rng.chance(1, 4)
    n = rng.range(1, 4)

    def rec(e):
        return "{" + ", ".join("%s = %d" % kv for kv in sorted(e.items())) + "}"

    def elem(mode):
        """(x raw, y raw, z written out) for one element"""
        if mode == "b":
            bad = {"default": "5", "abs": "\"s\"", "number": "\"s\""}[kind]
            return bad, bad, bad
        if kind == "default":
            e = {key: rng.range(0, 3) for key in ["a", "b", "c"] if rng.chance(1, 2)}
            e.pop(k, None)
            full = dict(e, **{k: v})
            if mode == "a":
                l, r = (e, full) if rng.chance(1, 2) else (full, e)
                return rec(l), rec(r), rec(full)
            if mode == "c":
                other = dict(full, c=full.get("c", 0) + 4)
                return rec(e), rec(other), rec(full)
            same = e if rng.chance(1, 2) else full
            return rec(same), rec(same), rec(full)
        m = rng.range(1, 5)
        if kind == "abs" and mode == "a":
            l, r = ("(-%d)" % m, "%d" % m) if rng.chance(1, 2) else ("%d" % m, "(-%d)" % m)
            return l, r, "%d" % m
        if mode == "c":
            return "%d" % m, "%d" % (m + 1), "%d" % m
        if kind == "abs" and rng.chance(1, 2):
            return "(-%d)" % m, "(-%d)" % m, "%d" % m
        return "%d" % m, "%d" % m, "%d" % m

    modes = [rng.choice(["a", "a", "d"]) if kind != "number" else "d" for _ in range(n)]
    if blame:
        modes[rng.below(n)] = "b"
    if differ:
        modes[rng.below(n)] = "c"
    elems = [elem(m) for m in modes]
    if inner:                                  # one more array level around every element
        elems = [("[%s]" % a, "[%s]" % b, "[%s]" % c) for a, b, c in elems]
    cdef = {"default": "{%s | default = %d, ..}" % (k, v), "abs": ABS_CTR, "number": "Number"}[kind]
    if inner:
        cdef = "(Array %s)" % cdef
    alias = rng.below(6)
    prefix, lc, rc = "", "C", "C"
    if alias == 0:
        prefix = "let C = %s in " % cdef
    elif alias == 1:
        prefix, lc, rc = "let M = { C = %s, other = Number } in " % cdef, "M.C", "M.C"
    elif alias == 2:
        if kind == "default" and not inner:
            prefix = "let mk = fun d => {%s | default = d, ..} in let C = mk %d in " % (k, v)
        else:
            prefix = "let mk = fun _u => %s in let C = mk null in " % cdef
    elif alias == 3:
        prefix, rc = "let C = %s in let C2 = %s in " % (cdef, cdef), "C2"
    elif alias == 4:
        prefix = "let C = %s in " % cdef       # + an alias of the whole container contract below
    else:
        lc = rc = cdef
    container = rng.weighted([("array", 4), ("field", 3), ("dict|", 2), ("dict:", 1)])
    keys = ["p", "q", "r", "s"][:n]
    xs, ys, zs = [e[0] for e in elems], [e[1] for e in elems], [e[2] for e in elems]
    arr = lambda l: "[" + ", ".join(l) + "]"
    dic = lambda l: "{" + ", ".join("%s = %s" % kv for kv in zip(keys, l)) + "}"
    if container == "array":
        if alias == 4:
            prefix += "let K = Array C in "
            x, y = "(%s | K)" % arr(xs), "(%s | K)" % arr(ys)
        else:
            x, y = "(%s | Array %s)" % (arr(xs), lc), "(%s | Array %s)" % (arr(ys), rc)
        z = arr(zs)
    elif container == "field":
        if alias == 4 or rng.chance(1, 2):
            prefix += "let Schema = {k | Array %s, ..} in " % lc
            x, y = "({k = %s} | Schema)" % arr(xs), "({k = %s} | Schema)" % arr(ys)
        else:
            x, y = "({k = %s} | {k | Array %s, ..})" % (arr(xs), lc), "({k = %s} | {k | Array %s, ..})" % (arr(ys), rc)
        z = "{k = %s}" % arr(zs)
    else:
        sep = "|" if container == "dict|" else ":"
        if alias == 4:
            prefix += "let K = {_ %s C} in " % sep
            x, y = "(%s | K)" % dic(xs), "(%s | K)" % dic(ys)
        else:
            x, y = "(%s | {_ %s %s})" % (dic(xs), sep, lc), "(%s | {_ %s %s})" % (dic(ys), sep, rc)
        z = dic(zs)
    shape = rng.below(5)
    wrap = [lambda t: t, lambda t: "{u = %s, w = 1}" % t, lambda t: "('T %s)" % t, lambda t: "[%s, 0]" % t, lambda t: "{g = {h = %s}}" % t][shape]
    return {"prefix": prefix, "x": wrap(x), "y": wrap(y), "z": wrap(z),
            "expect": "blame" if blame else "diff" if differ else "same",
            "tag": "%s/%s/alias%d%s" % (kind, container, alias, "/inner" if inner else "")}


def run_shared_contracts(ck, it, rng, n, label="shared-contracts"):
    """Laws and canonical-tree agreement on the interpreter alone, for operands under equal pending
    contracts (validating, default-filling, normalising)."""
    cases = [gen_shared_case(rng) for _ in range(n)]
    law = [c for c in cases if c["expect"] != "blame"]
    bl = [c for c in cases if c["expect"] == "blame"]
    body = "let x = %s in let y = %s in let z = %s in "
    outs = it.eval_many(["(%s%s[x == y, y == x, x == z, z == x, z == y, y == z, x == x, y == y])" % (c["prefix"], body % (c["x"], c["y"], c["z"])) for c in law])
    itf = Interp(ck, flags="full", batch=it.batch)
    trees = itf.eval_many(["(%s[%s, %s, %s])" % (c["prefix"], c["x"], c["y"], c["z"]) for c in law])
    bouts = it.eval_many(["(%s(%s == %s))" % (c["prefix"], c["x"], c["y"]) for c in bl], singles=range(len(bl)))
    it.programs += itf.programs
    bad = 0
    for c, o, t in zip(law, outs, trees):
        ck.case(key=c["prefix"] + c["x"] + c["y"], nontrivial=True)
        ck.hist("equality_cases", label)
        ck.hist("shared_contract_shapes", c["tag"])
        o = norm_impl(o or "<none>")
        same = c["expect"] == "same"
        ts = split_top(t[4:-1]) if t and t.startswith("OK [") else None
        ok = o.startswith("OK [") and ts is not None and len(ts) == 3
        if ok:
            xy, yx, xz, zx, zy, yz, xx, yy = [b == "true" for b in split_top(o[4:-1])]
            ok = (xx and yy and xz and zx and xy == same and yx == same and zy == same and yz == same
                  and ts[0] == ts[2] and (ts[0] == ts[1]) == same)
        if not ok:
            bad += 1
            if bad <= 2:
                if not law_battery(ck, it, [("x", c["x"]), ("y", c["y"]), ("z", c["z"])], label + " " + c["tag"], prefix=c["prefix"]):
                    ck.violation("eq-pending-contracts", "== under equal pending contracts: [x==y, y==x, x==z, z==x, z==y, y==z, x==x, y==y] = %s, trees %s, expected %s -- with %s x = %s ; y = %s ; z = %s" % (
                        o, t, c["expect"], c["prefix"], c["x"], c["y"], c["z"]),
                        {"kind": "equality", "prefix": c["prefix"], "a": c["x"], "b": c["y"], "c": c["z"], "key": "eq-pending-contracts"})
    for c, o in zip(bl, bouts):
        ck.case(key=c["prefix"] + c["x"] + c["y"], nontrivial=True)
        ck.hist("equality_cases", label + ":blame")
        ck.hist("shared_contract_shapes", c["tag"])
        o = norm_impl(o or "<none>")
        if o != "ERR Blame":
            ck.violation("eq-contract-not-applied", "== answered `%s` although the pending contract of both operands fails on an element: with %s a = %s ; b = %s" % (
                o, c["prefix"], c["x"][:200], c["y"][:200]),
                {"kind": "equality", "prefix": c["prefix"], "a": c["x"], "b": c["y"], "c": c["y"], "expected": "ERR Blame", "key": "eq-contract-not-applied"})
    return bad


# ---- both operands DERIVED FROM ONE SHARED VALUE (the same let-bound base on both sides) under
# different pending contracts: the operands share thunks / inline values, their contracts differ
def sv_paths(d, path=()):
    """Paths (tuples of ("f", key) / ("e",) steps) to every sub-value reachable through record
    fields and array elements (an ("e",) step addresses ALL elements of an array)."""
    yield path, d
    if d[0] == "r":
        for key, v in d[1]:
            yield from sv_paths(v, path + (("f", key),))
    elif d[0] == "a" and d[1] and all(x[0] == d[1][0][0] for x in d[1]):
        # uniform arrays only: the element contract must fit every element
        yield path + (("e",),), d[1][0]


def sv_apply(d, path, fn):
    """The data after the function is applied at the path (to every element for an ("e",) step)."""
    if not path:
        return fn(d)
    step = path[0]
    if step[0] == "f":
        return ("r", [(k, sv_apply(v, path[1:], fn) if k == step[1] else v) for k, v in d[1]])
    return ("a", [sv_apply(x, path[1:], fn) for x in d[1]])


def sv_contract(rng, target):
    """(nickel text of a contract, function on data) fitting a sub-value of the target's kind;
    mostly value-changing, with a parameter so that the two sides can differ."""
    k = target[0]
    if k == "n":
        m = rng.choice([1, 2, 3, -1])
        if m == 1 and rng.chance(1, 2):
            return "Number", lambda d: d
        return "(std.contract.custom (fun _l v => 'Ok (v * %s)))" % ("(%d)" % m), lambda d: ("n", d[1] * m, d[2], d[3])
    if k == "s":
        suf = rng.choice(["", "x", "yy"])
        if not suf:
            return "String", lambda d: d
        return "(std.contract.custom (fun _l v => 'Ok (v ++ \"%s\")))" % suf, lambda d: ("s", d[1] + suf)
    if k == "r":
        dflt = rng.range(1, 3)
        if any(key == "zz" for key, _ in target[1]):
            return "Dyn", lambda d: d
        return "{zz | default = %d, ..}" % dflt, lambda d: ("r", d[1] + [("zz", ("n", dflt, 1, 0))])
    return "Dyn", lambda d: d


def sv_wrap(path, inner):
    """The contract to apply to the base so that `inner` lands at the path."""
    txt = inner
    for step in reversed(path):
        txt = "{\"%s\" | %s, ..}" % (step[1], txt) if step[0] == "f" else "(Array %s)" % txt
    return txt


def sv_side(rng, base, targets):
    """One operand derived from `base` (bound to the identifier base): (text, denoted data)."""
    den, txt = base, "base"
    if base[0] == "r" and rng.chance(1, 5) and not any(k == "zq" for k, _ in base[1]):
        txt, den = "(base & {zq = 7})", ("r", base[1] + [("zq", ("n", 7, 1, 0))])
    c = rng.below(10)
    if c == 0 or not targets:
        return txt, den                                  # the base itself / only extended
    path, target = rng.choice(targets)
    ctr, fn = sv_contract(rng, target)
    den = sv_apply(den, path, fn)
    if path and path[0][0] == "f" and len(path) == 1 and c < 4:
        return "(%s & {\"%s\" | %s})" % (txt, path[0][1], ctr), den          # merge with a contract-only field
    if path and path[0][0] == "f" and base[0] == "r" and len(base[1]) == 1 and txt == "base" and c < 6:
        return "(%s | {_ | %s})" % (txt, sv_wrap(path[1:], ctr)), den          # dictionary contract
    return "(%s | %s)" % (txt, sv_wrap(path, ctr)), den


def gen_shared_value_case(rng, base=None):
    if base is None:
        for _ in range(20):
            base = gen_dv(rng, rng.range(1, 3))
            if base[0] in ("r", "a") and len(list(sv_paths(base))) > 1:
                break
        else:
            base = ("r", [("a", ("r", [("y", ("n", 0, 1, 0))])), ("b", ("n", 1, 1, 0))])
    targets = [(p, t) for p, t in sv_paths(base) if p and t[0] in ("n", "s", "r")]
    if rng.chance(1, 2) and targets:          # both sides act on the same place (the sharpest case)
        targets = [rng.choice(targets)]
    s1, d1 = sv_side(rng, base, targets)
    s2, d2 = sv_side(rng, base, targets)
    shape = rng.below(4)
    wrap = [lambda t: t, lambda t: "[%s]" % t, lambda t: "{w = %s}" % t, lambda t: "('T %s)" % t][shape]
    return {"prefix": "let base = %s in " % dv_nickel(base), "s1": wrap(s1), "s2": wrap(s2),
            "z1": wrap(dv_nickel(d1)), "z2": wrap(dv_nickel(d2)), "same": dv_canon(d1) == dv_canon(d2)}


def run_shared_values(ck, it, rng, n, label="shared-values", bases=None):
    """Laws, agreement with the interpreter's canonical trees and transitivity through written-out
    literals, for two operands derived from one shared value under different pending contracts."""
    cases = [gen_shared_value_case(rng, rng.choice(bases) if bases else None) for _ in range(n)]
    body = "let s1 = %s in let s2 = %s in let z1 = %s in let z2 = %s in "
    outs = it.eval_many(["(%s%s[s1 == s2, s2 == s1, s1 == z1, z1 == s1, s2 == z2, z2 == s2, z1 == z2, s1 == s1, s2 == s2, z1 == s2, s1 == z2])" % (
        c["prefix"], body % (c["s1"], c["s2"], c["z1"], c["z2"])) for c in cases])
    itf = Interp(ck, flags="full", batch=it.batch)
    trees = itf.eval_many(["(%s[%s, %s, %s, %s])" % (c["prefix"], c["s1"], c["s2"], c["z1"], c["z2"]) for c in cases])
    it.programs += itf.programs
    bad = 0
    for c, o, t in zip(cases, outs, trees):
        ck.case(key=c["prefix"] + c["s1"] + c["s2"], nontrivial=True)
        ck.hist("equality_cases", label)
        ck.hist("shared_value_expected", "equal" if c["same"] else "different")
        o = norm_impl(o or "<none>")
        ts = split_top(t[4:-1]) if t and t.startswith("OK [") else None
        ok = o.startswith("OK [") and ts is not None and len(ts) == 4
        if ok:
            v = [b == "true" for b in split_top(o[4:-1])]
            same = c["same"]
            ok = (v[0] == same and v[1] == same and v[2] and v[3] and v[4] and v[5] and v[6] == same and v[7] and v[8]
                  and v[9] == same and v[10] == same and ts[0] == ts[2] and ts[1] == ts[3] and (ts[0] == ts[1]) == same)
        if not ok:
            bad += 1
            if bad <= 2:
                named = [("s1", c["s1"]), ("s2", c["s2"]), ("z1", c["z1"]), ("z2", c["z2"])]
                if not law_battery(ck, it, named, label, prefix=c["prefix"]):
                    ck.violation("eq-pending-contracts", "== on two values derived from one base under different pending contracts: [s1==s2, s2==s1, s1==z1, z1==s1, s2==z2, z2==s2, z1==z2, s1==s1, s2==s2, z1==s2, s1==z2] = %s, trees %s, denote the same data: %s -- with %s s1 = %s ; s2 = %s ; z1 = %s ; z2 = %s" % (
                        o, t, c["same"], c["prefix"], c["s1"], c["s2"], c["z1"], c["z2"]),
                        {"kind": "equality", "prefix": c["prefix"], "a": c["s1"], "b": c["s2"], "c": c["z2"], "key": "eq-pending-contracts"})
    return bad


def xv_strip(x):
    """The raw data under an extended value (contracts dropped, undefined fields dropped, erroring
    elements replaced): the shape used to derive shared-base cases around a disagreement."""
    k = x[0]
    if k == "bot":
        return ("n", 0, 1, 0)
    if k == "v":
        return ("v", x[1], xv_strip(x[2]))
    if k == "a":
        return ("a", [xv_strip(y) for y in x[2]])
    if k == "r":
        return ("r", [(key, xv_strip(v)) for key, opt, cs, v in x[1] if v is not None])
    return x


def xv_permute(rng, x):
    k = x[0]
    if k == "v":
        return ("v", x[1], xv_permute(rng, x[2]))
    if k == "a":
        return ("a", x[1], [xv_permute(rng, y) for y in x[2]])
    if k == "r":
        return ("r", rng.shuffle([(key, opt, cs, None if v is None else xv_permute(rng, v)) for key, opt, cs, v in x[1]]))
    return x


def search_equality(ck, it, rng, disagreements, label):
    """Model and interpreter disagree on some `a == b`: look for a concrete failure of the property on
    the interpreter.  (a) the law battery around each disagreeing pair (the operands, permuted
    copies, re-built copies, export/import copies); (b) a focused generator around the subject
    (arrays/records whose pending contracts matter), with a larger budget."""
    if not disagreements:
        return
    hits = 0
    for a, b in disagreements[:4]:
        named = [("a", xv_nickel(a)), ("b", xv_nickel(b)), ("a~permuted", xv_nickel(xv_permute(rng, a))), ("b~permuted", xv_nickel(xv_permute(rng, b)))]
        hits += law_battery(ck, it, named, "search around a model/interpreter disagreement in stream " + label)
    if not hits:
        hits += run_changing_contracts(ck, it, 1200, "search:value-changing-contracts")(rng.fork())
    if not hits:
        hits += run_shared_contracts(ck, it, rng.fork(), 1200, "search:shared-contracts")
    if not hits:      # both operands derived from one shared base with the shapes of the disagreeing pairs
        bases = [d for d in [xv_strip(v) for pr in disagreements[:8] for v in pr] if d[0] in ("r", "a") and len(list(sv_paths(d))) > 1]
        if bases:
            hits += run_shared_values(ck, it, rng.fork(), 600, "search:shared-values-around-disagreement", bases=bases)
    if not hits:
        hits += run_shared_values(ck, it, rng.fork(), 1200, "search:shared-values")
    ck.coverage["search"] = "ran after %d model/interpreter disagreement(s) on ==: %s" % (
        len(disagreements), "a law fails on the interpreter" if hits else "no law failure found on the interpreter")


# ---- pinned corner cases of == and pow, evaluated by the interpreter only.
# (nickel expression, expected line per the property, violation key, note)
PINNED = [
    # empty optional fields: eq() says it ignores them ...
    ("{a | optional} == {}", "OK true", "eq-optional", "empty optional field vs absent field"),
    ("{a | optional} == {a | optional}", "OK true", "eq-optional", ""),
    # ... so an empty optional field against a defined one should compare like {} == {a = 1}
    ("{a | optional} == {a = 1}", "OK false", "eq-empty-optional-vs-defined", "raises MissingFieldDef instead of answering false"),
    ("{a = 1} == {a | optional}", "OK false", "eq-empty-optional-vs-defined", ""),
    ("{a | optional, b = 1} == {b = 1}", "OK true", "eq-optional", ""),
    ("[1, 2] == ([1, 2] | Array Number)", "OK true", "eq-pending-contracts", ""),
    ("({a = 1} | {a | Number}) == {a = 1}", "OK true", "eq-pending-contracts", ""),
    ("({a = 1} | {a | Number, b | optional}) == {a = 1}", "OK true", "eq-pending-contracts", ""),
    ("({} | {a | default = 1}) == {a = 1}", "OK true", "eq-pending-contracts", "contract with a default value"),
    ("'Foo == \"Foo\"", "OK false", "eq-enum-string", "an enum tag is not a string although both export as \"Foo\""),
    ("'Foo 1 == 'Foo 1", "OK true", "eq-variant", ""), ("'Foo 1 == 'Foo 2", "OK false", "eq-variant", ""),
    ("'Foo 1 == 'Foo", "OK false", "eq-variant", ""), ("'Foo 1 == 'Bar 1", "OK false", "eq-variant", ""),
    ("1 == \"1\"", "OK false", "eq-num-string", ""), ("1 == true", "OK false", "eq-num-bool", ""), ("null == {}", "OK false", "eq-null", ""),
    ("{a = 1, b | not_exported = 2} == {a = 1}", "OK false", "eq-not-exported", "== does not look at not_exported: finer than the exported form (documented, outside data)"),
    ("{a = 1, b | not_exported = 2} == {a = 1, b = 2}", "OK true", "eq-not-exported", ""),
    ("{a} == {a = 1}", "ERR MissingDef", "eq-required-undefined", "a required field without definition is an error, not data"),
    ("[1/0, 1] == [1, 2]", "OK false", "eq-order", "arrays are compared from the last element: the error is never forced"),
    ("[1, 1/0] == [2, 2]", "ERR DivByZero", "eq-order", ""),
    ("[] == {}", "OK false", "eq-empty", ""), ("[] == []", "OK true", "eq-empty", ""), ("{} == {}", "OK true", "eq-empty", ""),
    ("[[]] == [[]]", "OK true", "eq-empty", ""), ("[1] == [1, 2]", "OK false", "eq-length", ""), ("[] == [1]", "OK false", "eq-length", ""),
    ("0x1F == 31 && 0xff == 255 && 0o17 == 15 && 0b101 == 5 && 0x0 == 0", "OK true", "lit:base", "hexadecimal / octal / binary integer literals"),
    ("0x10 / 0b100 == 4 && 0o10 % 3 == 2", "OK true", "lit:base", ""),
    ("std.string.to_number \"1e-3\" == 0.001 && std.string.to_number \"0.5e1\" == 5 && std.string.to_number \"007\" == 7", "OK true", "lit:from-string", "number/from_string uses the same reader"),
    ("0.1 + 0.2 == 0.3", "OK true", "num:OAdd", "no floating-point drift"),
    ("1e-3 * 1000 == 1", "OK true", "num:OMul", ""),
    ("(1 < 2) == (2 > 1)", "OK true", "num:OLt", ""),
]
# the documentation of std.number.pow promises an exact result for every integer exponent between
# -2^63 and 2^64-1; the code only takes the exact path when the exponent fits i64
POW_DOC = [
    ("std.number.pow (-1) 9223372036854775809", "OK #-1", "pow-u64-exponent-inexact"),
    ("std.number.pow (-1) 18446744073709551615", "OK #-1", "pow-u64-exponent-inexact"),
    ("std.number.pow 1 18446744073709551615", "OK #1", "pow-u64-exponent-inexact"),
    ("std.number.pow 0 9223372036854775808", "OK #0", "pow-u64-exponent-inexact"),
]


def pow_doc_cases():
    """Exponent range for which the documentation of std.number.pow promises an exact result."""
    src = open(STD_NCL).read()
    block, line0 = number_block(src)
    fields = split_fields(tokenize(block, line0))
    doc = " ".join(t for k, t, l in fields.get("pow", ([], []))[0] if k == "mstr")
    m = re.search(r"between\s+`[−-]2\^63`\s+and\s+`2\^(6[34])-1`", doc)
    if m and m.group(1) == "64":
        return POW_DOC
    return []


def doc_examples():
    """`expr  # => result` pairs of the doc comments of the exact std.number functions."""
    src = open(STD_NCL).read()
    block, line0 = number_block(src)
    fields = split_fields(tokenize(block, line0))
    out = []
    for name in ["Integer", "Nat", "PosNat", "NonZero"] + WANTED:
        for k, t, l in fields.get(name, ([], []))[0]:
            if k != "mstr":
                continue
            for code in re.findall(r"```nickel[^\n]*\n(.*?)```", t, flags=re.S):
                cur = []
                for line in code.split("\n"):
                    line = line.strip()
                    m = re.match(r"#\s*=>\s*(.*)$", line)
                    if m and cur:
                        e = re.sub(r"\|\s*(Integer|Nat|PosNat|NonZero)\b", r"| std.number.\1", " ".join(cur))
                        out.append((name, e, m.group(1).strip()))
                        cur = []
                    elif line and not line.startswith("#"):
                        cur.append(line)
    return out


def run_doc_examples(ck, it):
    ex = doc_examples()
    exprs = ["(%s)" % e if r == "error" else "((%s) == (%s))" % (e, r) for _, e, r in ex]
    outs = it.eval_many(exprs, singles=range(len(exprs)))
    for (name, e, r), got in zip(ex, outs):
        ck.case(key="doc:" + e, nontrivial=True)
        ck.hist("doc_examples", name)
        good = got.startswith("ERR Blame") if r == "error" else got == "OK true"
        if not good:
            ck.violation("doc-example:" + name, "documentation example of std.number.%s: `%s` should give `%s`; interpreter: %s" % (name, e, r, got),
                         {"kind": "pinned", "nickel": exprs[ex.index((name, e, r))], "impl": got, "expected": "OK true" if r != "error" else "ERR"})
    ck.coverage["doc_examples_checked"] = len(ex)


CONTRACTS = {"Integer": lambda x: x.denominator == 1, "Nat": lambda x: x.denominator == 1 and x >= 0,
             "PosNat": lambda x: x.denominator == 1 and x > 0, "NonZero": lambda x: x != 0}


def run_contracts(ck, it, rng, tier):
    """std.number.{Integer,Nat,PosNat,NonZero} against their documentation, over the grid (every
    spelling in thorough tier).  Direct oracle only (python), the contracts are not modelled."""
    exprs, want = [], []
    for (p, q) in grid_values():
        fs = forms(p, q)
        if tier == "quick":
            fs = [rng.choice(fs)]
        for name, ast in fs:
            for c, pred in CONTRACTS.items():
                x = Fraction(p, q)
                exprs.append("(%s | std.number.%s)" % (to_nickel(ast), c))
                want.append(show_ref(x) if pred(x) else "ERR Blame")
    outs = it.eval_many(exprs, singles=[i for i, w in enumerate(want) if w.startswith("ERR")])
    for e, w, o in zip(exprs, want, outs):
        o = norm_impl(o or "<none>")
        ck.case(key=e, nontrivial=True)
        ck.hist("contract_cases", w.split(" ")[0])
        if o != w:
            ck.violation("std-contract:" + e.split("std.number.")[1].rstrip(")"), "`%s` gives `%s`, documentation says `%s`" % (e, o, w),
                         {"kind": "pinned", "nickel": e, "impl": o, "expected": w})


def run_pinned(ck, it):
    pd = pow_doc_cases()
    exprs = [p[0] for p in PINNED + pd]
    outs = it.eval_many(exprs, singles=range(len(exprs)))
    for (expr, want, key, *_), got in zip(PINNED + pd, outs):
        ck.case(key=expr, nontrivial=True)
        ck.hist("pinned", key)
        if got != want:
            ck.violation(key, "`%s` gives `%s`, the property demands `%s`" % (expr, got, want),
                         {"kind": "pinned", "nickel": expr, "impl": got, "expected": want})


def build(ck):
    try:
        write_gen(ck)
        ck.obligation("translator: std.number.{%s} of std.ncl -> Gen/StdNumber.v" % ",".join(WANTED), "translator", True,
                      "every body is inside the translated fragment")
    except TranslateError as ex:
        ck.obligation("translator: std.ncl -> Gen/StdNumber.v", "translator", False, str(ex))
    ck.coq("Props.C16", clean=False)
    ok = ck.harness(["nkeval"])
    exe_model = ck.model("C16.v")
    return ok, exe_model


def run(ck):
    ok, exe_model = build(ck)
    if not ok or not exe_model:
        return
    it = Interp(ck)
    rng = core.SplitMix64(ck.seed * 1000003 + 16)
    quick = ck.tier == "quick"
    # 1. corpus and pinned cases first
    for c in corpus_cases():
        replay_case(ck, it, exe_model, c)
    run_pinned(ck, it)
    run_doc_examples(ck, it)
    run_contracts(ck, it, rng.fork(), ck.tier)
    run_numeric(ck, it, exe_model, [("special", a) for a in SPECIAL], "special")
    # 2. the grid
    run_numeric(ck, it, exe_model, gen_grid(rng.fork(), ck.tier), "grid")
    # 3. big values, nested expressions
    run_numeric(ck, it, exe_model, gen_big(rng.fork(), 400 if quick else 6000), "big")
    run_numeric(ck, it, exe_model, gen_nested(rng.fork(), 1500 if quick else 30000), "nested")
    # 4. equality on data
    r2 = rng.fork()
    run_equality(ck, it, exe_model, gen_triples(r2, 1200 if quick else 20000), "random-triples")
    run_equality(ck, it, exe_model, gen_triples(r2, 400 if quick else 6000), "pending-contracts", annotate_rng=r2.fork())
    u = small_universe()
    if quick:
        tri = [(r2.choice(u), r2.choice(u), r2.choice(u)) for _ in range(600)]
    else:
        tri = [(a, b, c) for a in u for b in u for c in u]
        ck.coverage["exhaustive_small_universe_triples"] = len(tri)
    run_equality(ck, it, exe_model, tri, "small-universe")
    # 5. extended values: pending contracts, optional / undefined fields, erroring elements (evaluation order)
    run_xequality(ck, it, exe_model, gen_xpairs(rng.fork(), 1500 if quick else 30000), "extended")
    # 6. pending contracts that change the value (defaults): laws and canonical-tree agreement on the interpreter alone
    run_changing_contracts(ck, it, 400 if quick else 8000)(rng.fork())
    run_shared_contracts(ck, it, rng.fork(), 500 if quick else 10000)
    run_shared_values(ck, it, rng.fork(), 500 if quick else 10000)
    ck.coverage["interpreter_programs"] = it.programs
    ck.coverage["rule"] = ("numeric: every p/q with |p|<=%d, q<=%d in every spelling (fraction, integer, decimal, exponent-, exponent+, leading zeros, E+0, leading dot) "
                           "x unary std functions; pairs x {+,-,*,/,%%,<,<=,>,>=,==,!=,min,max,compare,pow} (thorough: all pairs; quick: seeded sample); "
                           "random values with up to 200-digit numerators/denominators/exponents; random nested expressions incl. let/if/&&/|| and a malformed stream; "
                           "equality: random triples (permuted / mutated / unrelated), the same with validating contracts attached, and a small closed universe "
                           "(thorough: all triples); non-trivial = not a bare literal / at least one composite operand; distinct by exact text") % (GRID_P, GRID_Q)
    ck.coverage["partial"] = "results that pass through f64 (pow with an exponent outside i64 or non-integer, log, trigonometry, sqrt) are outside the theorems and only checked not to crash"
    ck.trusted += ["extraction: ExtrOcamlBasic + ExtrOcamlNativeString only", "harness bin nkeval (harness/src/eval.rs)",
                   "translator + generators + python reference in checks/c16.py (SplitMix64, VERIF_SEED)", "ocaml/c16/driver.ml (parsing/printing only)"]
    ck.assumptions += ["malachite Rational arithmetic and from_sci_string are exact (validated by the differential runs, not proved)",
                       "the tokenizer of checks/c16.py reads the std.number bodies as the Nickel parser does (checked indirectly: generated bodies vs interpreter on the grid)"]


def replay_case(ck, it, exe_model, obj):
    kind = obj.get("kind")
    if kind == "numeric":
        run_numeric(ck, it, exe_model, [("replay", tupleize(obj["ast"]))], "replay")
    elif kind == "pinned":
        outs = [norm_impl(o or "<none>") for o in it.eval_many([obj["nickel"]], singles=[0])]
        ck.case(key=obj["nickel"])
        if outs[0] != obj["expected"] and not (obj["expected"] == "ERR" and outs[0].startswith("ERR Blame")):
            ck.violation(obj.get("key", "pinned"), "`%s` gives `%s`, the property demands `%s`" % (obj["nickel"], outs[0], obj["expected"]), obj)
    elif kind == "xequality":
        outs = it.eval_many(["(%s == %s)" % (obj["a"], obj["b"])], singles=[0])
        rc, mo, err = core.run_sharded(exe_model, [], ["X %s %s" % tuple(obj["sx"])])
        ck.case(key=obj["a"] + obj["b"])
        if norm_impl(outs[0]) != " ".join(mo[0].split(" ")[:2]):
            corr_fail(ck, "correspondence:xeq-model-vs-interpreter", "%s == %s: impl %s model %s" % (obj["a"], obj["b"], outs[0], mo[0]))
    elif kind == "equality-dv":
        t = tuple(tupleize(x) for x in obj["triple"])
        run_equality(ck, it, exe_model, [t], "replay", annotate_rng=core.SplitMix64(obj.get("annotate_seed", 1)) if obj.get("annotate") else None)
    elif kind == "equality":
        pre = obj.get("prefix", "")
        if obj.get("expected") == "ERR Blame":
            o = norm_impl(it.eval_many(["(%s(%s == %s))" % (pre, obj["a"], obj["b"])], singles=[0])[0] or "<none>")
            ck.case(key=obj["a"] + obj["b"])
            if o != "ERR Blame":
                ck.violation(obj.get("key", "eq-contract-not-applied"), "== answered `%s` although a pending contract fails on the operands" % o, obj)
            return
        outs = it.eval_many(["%slet A' = %s in let B' = %s in let C' = %s in [A' == B', B' == A', B' == C', A' == C', A' == A']" % (pre, obj["a"], obj["b"], obj["c"])], singles=[0])
        ck.case(key=obj["a"] + obj["b"])
        o = outs[0]
        if not o.startswith("OK ["):
            ck.violation(obj.get("key", "eq-error"), "== raised " + o, obj)
        else:
            ab, ba, bc, ac, aa = [v == "true" for v in split_top(o[4:-1])]
            t = Interp(ck, flags="full").eval_many(["(%s[%s, %s])" % (pre, obj["a"], obj["b"])], singles=[0])[0]
            ts = split_top(t[4:-1]) if t and t.startswith("OK [") else None
            if not aa or ab != ba or (ab and bc and not ac) or (ts is not None and len(ts) == 2 and (ts[0] == ts[1]) != ab):
                ck.violation(obj.get("key", "eq-laws"), "equality laws fail: [a==b, b==a, b==c, a==c, a==a] = %s, trees of a, b: %s" % (o, t), obj)


def tupleize(x):
    if isinstance(x, list):
        if x and x[0] == "call":
            return ("call", x[1], [tupleize(a) for a in x[2]])
        if x and x[0] == "a":
            return ("a", [tupleize(a) for a in x[1]])
        if x and x[0] == "r":
            return ("r", [(k, tupleize(v)) for k, v in x[1]])
        return tuple(tupleize(a) for a in x)
    return x


def replay(ck, path):
    obj = json.load(open(path))
    ok, exe_model = build(ck)
    if ok and exe_model:
        replay_case(ck, Interp(ck), exe_model, obj)
