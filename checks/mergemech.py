"""Mechanism-level strengthening of C05 / C15 (helper called by checks/c05.py and checks/c15.py).

Proof side: coq/Props/C05_mech.v, coq/Props/C15_mech.v (model coq/MergeMech/Model.v mirrors
core/src/eval/merge.rs with insertion-ordered maps, refinement to the algebra in coq/MergeMech/*).

Tie: the extracted mechanism model (ocaml/c05mech) runs the same s-expression programs as the algebra
model and prints what nkeval prints -- the export (sorted), the export in MAP ORDER (nkeval flag
`order`), the fully forced record in map order (`full,order`), %record/fields%,
%record/fields_with_opts%, %record/values%, std.record.to_array -- plus the algebra's own export.
Map order pins split_ref / swap_remove / left-right-center exactly; a harmless refactoring of those
may break that correspondence, so an order disagreement is classified by a direct oracle on the
interpreter (do the sorted outputs and the field listings of the program, of its operand-swapped
variant and of its field-permuted variant still coincide?).
"""
from vlib import core
from checks import mergegen as g
from checks import mergelib as m

COLS = ["export", "export-map-order", "full-map-order", "fields", "fields_with_opts", "values", "to_array", "algebra"]

MECH_TEXT_C05 = ("MECHANISM LEVEL (coq/Props/C05_mech.v): a model shaped like merge.rs (insertion-ordered maps, split_ref with "
                 "swap_remove and the clone-the-smaller-map branch, result built as left ++ right ++ center, merge_fields' seven-arm "
                 "match with the unreachable!() arm as Panic, MergePriority with Neutral distinct from Numeral 0, combine_dedup, the "
                 "Container::Empty fast path, lazily suspended merges of field values, Force + sorting serializer) is proved to REFINE the "
                 "algebra: abs(whnf v) = abs v, abs(mech_merge a b) = merge (abs a) (abs b), export_json v = export (abs v) (same tree / same "
                 "error-kind set), for every well-formed value (distinct keys per record, plain data inside arrays), and a record literal built by "
                 "inserting its fields in written order abstracts to the algebra's elaboration (melab_refines); hence the mechanism model's exports are commutative, "
                 "associative, idempotent and have {} as unit; the unreachable!() arm is proved unreachable for all priorities.")
MECH_TEXT_C15 = ("MECHANISM LEVEL (coq/Props/C15_mech.v): on the insertion-ordered model of merge.rs, %record/fields%, "
                 "%record/fields_with_opts%, %record/values%, std.record.to_array and the exported tree are proved to be functions of the "
                 "key-sorted abstraction of the value only (no_order_leak): independent of insertion order, of the written order of a "
                 "literal's fields, of operand order, and of which map split_ref chooses to clone (the theorems hold for every choice "
                 "function); refuted variants: field_names without its sort, and a swap_remove that loses the moved entry. Tie: the model's "
                 "MAP ORDER is compared with the interpreter's (nkeval flags order / full,order) on merges of 2-3 literals.")


def build(ck, props):
    """proof obligations of the mechanism level + the extracted model; returns the model executable or None"""
    for p in props:
        cmd0, files0 = ck.coverage.get("checker_cmd"), ck.coverage.get("coq_files", [])
        ck.coq(p)
        if cmd0:        # keep the property's own proof command / file list next to the mechanism level's
            ck.coverage["checker_cmd"] = cmd0 + " ; " + ck.coverage.get("checker_cmd", "")
        ck.coverage["coq_files"] = sorted(set(files0) | set(ck.coverage.get("coq_files", [])))
    rc, out, exe = core.ocaml_build("c05mech", "C05mech.v", "driver.ml")
    if rc != 0:
        ck.obligation("model-extraction:C05mech.v", "build", False, out[-3000:])
        return None
    return exe


# ------------------------------------------------------------------ generation (map-order cases)

def gen_wide_record(rng, nkeys, depth, wild):
    """a literal with up to 6 distinct fields in random written order; values mostly agree between
    operands (canon_atom), sometimes nested wide records"""
    n = rng.weighted([(0, 1), (1, 2), (2, 4), (3, 5), (4, 5), (5, 3), (6, 2)])
    ks = rng.shuffle(list(range(nkeys)))[:n]
    fs = []
    for k in ks:
        # the KIND of value a field holds is a function of its name (so that operands mostly agree):
        # names 1, 4 hold records, name 5 an array, name 6 a variant, the others atoms
        c = rng.below(40)
        kind = "r" if k % 3 == 1 else ("a" if k == 5 else ("v" if k == 6 and rng.chance(1, 8) else "n"))
        if c < wild:
            kind = rng.choice(["n", "r", "a", "v"])
        if c == 39 and rng.chance(1, 2):
            v = None
        elif kind == "r" and depth > 0:
            v = gen_wide_record(rng, nkeys, depth - 1, wild)
        elif kind == "a":
            v = ("a", [g.canon_atom(k + i, depth) for i in range(2)])
        elif kind == "v":
            v = ("v", 1, g.canon_atom(k, depth))
        else:
            v = g.gen_atom(rng) if rng.below(40) < wild else g.canon_atom(k, depth)
        cs = []
        if v is not None and v[0] in "nsb" and rng.chance(1, 5):
            good = [c for c in range(len(g.CONTRACTS)) if g.sat(c, v)]
            cs = [rng.choice(good)] if good else []
        prio = g.gen_prio(rng) if rng.chance(1, 4) else "x"
        fs.append((k, prio, int(rng.chance(1, 9)), int(rng.chance(1, 9)), cs, v))
    return ("r", fs)


def gen_order_case(rng, wild=2):
    nkeys = rng.choice([4, 6, 7])
    a = gen_wide_record(rng, nkeys, 1, wild)
    b = gen_wide_record(rng, nkeys, 1, wild)
    c = rng.below(10)
    if c < 6:
        return ("m", a, b)
    cc = gen_wide_record(rng, nkeys, 1, wild)
    return ("m", ("m", a, b), cc) if c < 8 else ("m", a, ("m", b, cc))


def swap_merges(e):
    t = e[0]
    if t == "m":
        return ("m", swap_merges(e[2]), swap_merges(e[1]))
    if t == "r":
        return ("r", [(k, p, o, h, cs, swap_merges(v) if v is not None else None) for (k, p, o, h, cs, v) in e[1]])
    if t == "v":
        return ("v", e[1], swap_merges(e[2]))
    if t == "a":
        return ("a", [swap_merges(x) for x in e[1]])
    return e


# ------------------------------------------------------------------ running

def impl_lines(e):
    src = g.nickel(e)
    P = g.PRELUDE
    return ["\t" + m.esc(P + src),
            "order\t" + m.esc(P + src),
            "full,order\t" + m.esc(P + src),
            "\t" + m.esc(P + "%record/fields% (" + src + ")"),
            "\t" + m.esc(P + "%record/fields_with_opts% (" + src + ")"),
            "\t" + m.esc(P + "%record/values% (" + src + ")"),
            "\t" + m.esc(P + "std.record.to_array (" + src + ")")]


def cls_of(impl):
    return impl.split()[1].rstrip("+-") if impl.startswith("ERR") and len(impl.split()) > 1 else impl


def col_agree(col, impl, model):
    """(agree?, comparable?)"""
    if model.startswith("BAD"):
        return False, True
    if col == 2:
        impl = impl.replace(":~", ":")
        if impl.startswith("OK") and "('" in impl:
            # eval_full prints a variant with an argument; the model's tree type has no such node
            return model.startswith("ERR") and "NotExportable" in model, False
    if impl.startswith("OK"):
        return impl == model, True
    if not model.startswith("ERR"):
        return False, True
    return cls_of(impl) in model.split()[1].split("|"), True


def direct_oracle(ck, e):
    """C05/C15 on the interpreter alone, around one program: the program, its operand-swapped variant,
    its field-permuted variant: sorted export and field listing must coincide (when they succeed)."""
    rng = core.SplitMix64(ck.seed * 31 + len(g.sexp(e)))
    vs = [e, swap_merges(e), g.permute_fields(rng, e), g.permute_fields(rng, swap_merges(e))]
    lines = []
    for v in vs:
        lines.append("\t" + m.esc(g.program(v)))
        lines.append("\t" + m.esc(g.PRELUDE + "%record/fields% (" + g.nickel(v) + ")"))
        lines.append("\t" + m.esc(g.PRELUDE + "%record/values% (" + g.nickel(v) + ")"))
        lines.append("fmt=json\t" + m.esc(g.program(v)))
    rc, out, err = core.run_lines(core.harness_bin("nkeval"), [], lines)
    bad = []
    for obs in range(4):
        rs = out[obs::4]
        ok = [r for r in rs if r.startswith("OK")]
        if ok and (len(ok) != len(rs) or len(set(rs)) != 1):
            bad.append((["export", "fields", "values", "json-text"][obs], rs))
    names = ["as written", "operands swapped", "fields permuted", "both"]
    return bad, {"variants": {nm: g.nickel(v) for nm, v in zip(names, vs)}, "outputs": out, "mech": True}


def tie(ck, exe, exprs, label, detect_order=True):
    """run model and interpreter on every expression, compare all columns"""
    nk = core.harness_bin("nkeval")
    lines = []
    for e in exprs:
        lines += impl_lines(e)
    rc, impl, err = core.run_sharded(nk, [], lines)
    rc2, mod, err2 = core.run_sharded(exe, [], [g.sexp(e) for e in exprs])
    if rc or rc2:
        ck.obligation("mech-correspondence-run", "internal", False, "rc=%s/%s %s %s" % (rc, rc2, err[-500:], err2[-500:]))
    ndis = {c: 0 for c in COLS}
    reported = 0
    for i, e in enumerate(exprs):
        I = impl[7 * i:7 * i + 7]
        M = mod[i].split("\t")
        ck.case(key="mech:" + g.sexp(e), nontrivial=(g.size(e) >= 6))
        if len(M) != 9 or M[8] != "WF":
            ck.obligation("generator-in-domain(mech)", "internal", False, "%s -> %s" % (g.nickel(e), mod[i]))
            continue
        ck.hist(label + " outcome", m.outcome_class(I[0]))
        if I[2].startswith("OK"):
            ck.hist(label + " top-level fields (full,order)", min(I[2].count('":'), 12))
        if M[7] != M[0] and not ("!WF" in M[7]):
            # the refinement theorem, executed: mechanism export vs algebra export inside the model
            ck.obligation("refinement-executed:export_json-vs-algebra", "correspondence", False,
                          "program %s\nmech    %s\nalgebra %s" % (g.nickel(e), M[0], M[7]))
        for c in range(7):
            ok, comparable = col_agree(c, I[c], M[c])
            if not comparable:
                ck.hist(label + " not-comparable", COLS[c])
            if ok:
                continue
            ndis[COLS[c]] += 1
            if reported >= 4:
                continue
            reported += 1
            bad, rep = direct_oracle(ck, e)
            rep.update({"program": g.nickel(e), "sexp": g.sexp(e), "observable": COLS[c], "impl": I[c], "model": M[c],
                        "prelude": g.PRELUDE,
                        "how_to_replay": "feed `<flags><TAB><prelude + program>` to .build/target/debug/nkeval; flags: '' | order | full,order"})
            if m.crashed(I[c]):
                ck.violation("crash", "interpreter crashed: %s on %s" % (I[c], g.nickel(e)[:200]), rep)
            elif bad:
                ck.violation("order:" + bad[0][0], "%s of a merge depends on operand/definition order: %s" % (
                    bad[0][0], " | ".join(r[:60] for r in bad[0][1])), rep)
            else:
                name = "correspondence:mech-map-order-vs-merge.rs" if c in (1, 2) else "correspondence:mech-%s-vs-interpreter" % COLS[c]
                ck.obligation(name, "correspondence", False,
                              "program %s\nobservable %s\nimpl  %s\nmodel %s\n(direct oracle on the interpreter: sorted export, field listing, values and JSON text "
                              "are unchanged under operand swap / field permutation, so this is a broken correspondence, not a violation of the property)" % (
                                  g.nickel(e), COLS[c], I[c], M[c]))
        if i < 2:
            ck.sample({"program": g.nickel(e), "impl full,order": I[2][:200], "model full,order": M[2][:200], "fields": I[3][:120]})
    ck.coverage["mech_programs_" + label] = len(exprs)
    ck.coverage["mech_disagreements_" + label] = {k: v for k, v in ndis.items() if v}
    return ndis


def gen_cases(ck, n_order, n_law, salt):
    rng = core.SplitMix64(ck.seed * 104729 + salt)
    exprs = []
    for i in range(n_order):
        exprs.append(gen_order_case(rng.fork(), wild=(10 if i % 10 == 9 else 1)))
    for i in range(n_law):
        r = rng.fork()
        a, b = g.gen_expr(r, 2, 3, 2), g.gen_expr(r, 2, 3, 2)
        exprs.append(("m", a, b) if i % 2 == 0 else ("m", b, a))
    return exprs


def corpus():
    import os
    p = os.path.join(core.ROOT, "corpus", "C05mech", "order.case")
    out = []
    if os.path.exists(p):
        for line in open(p):
            line = line.strip()
            if line and not line.startswith("#"):
                out.append(parse_sexp(line))
    return out


def parse_sexp(s):
    toks = s.replace("(", " ( ").replace(")", " ) ").split()
    pos = [0]

    def item():
        t = toks[pos[0]]
        pos[0] += 1
        if t != "(":
            return t
        xs = []
        while toks[pos[0]] != ")":
            xs.append(item())
        pos[0] += 1
        return xs

    def conv(x):
        h = x[0]
        if h == "n":
            return ("n", int(x[1]), int(x[2]))
        if h in ("s", "b", "t"):
            return (h, int(x[1]))
        if h == "z":
            return ("z",)
        if h == "v":
            return ("v", int(x[1]), conv(x[2]))
        if h == "a":
            return ("a", [conv(y) for y in x[1:]])
        if h == "m":
            return ("m", conv(x[1]), conv(x[2]))
        if h == "r":
            fs = []
            for f in x[1:]:
                p = f[2] if isinstance(f[2], str) else ("p", int(f[2][1]), int(f[2][2]))
                fs.append((int(f[1]), p, int(f[3]), int(f[4]), [int(c) for c in f[5]], None if f[6] == "_" else conv(f[6])))
            return ("r", fs)
        raise ValueError(x)

    return conv(item())


def setup():
    """./verif setup: the mechanism-level Coq targets and the extracted mechanism model"""
    rc, out = core.coq_make(["Props/C05_mech.vo", "Props/C05_mech_pins.vo", "Props/C15_mech.vo", "Props/C15_mech_pins.vo"], timeout=3400)
    if rc:
        print("setup: mechanism-level Coq targets do not build (C05/C15 will report it):\n" + out[-1500:])
    rc2, out2, exe = core.ocaml_build("c05mech", "C05mech.v", "driver.ml")
    if rc2:
        print(out2[-2000:])
    return 1 if (rc or rc2) else 0


def replay(ck, obj):
    """replay of a violation reported by tie(): the direct oracle around the recorded program"""
    if not ck.harness(["nkeval"]):
        return
    e = parse_sexp(obj["sexp"])
    ck.case(key="mech-replay:" + obj["sexp"])
    bad, rep = direct_oracle(ck, e)
    rep.update({"program": g.nickel(e), "sexp": obj["sexp"], "prelude": g.PRELUDE})
    if any(m.crashed(x) for x in rep["outputs"]):
        ck.violation("crash", "interpreter crashed on " + g.nickel(e)[:200], rep)
    for what, rs in bad:
        ck.violation("order:" + what, "%s of a merge depends on operand/definition order: %s" % (what, " | ".join(r[:60] for r in rs)), rep)


def run(ck, pid):
    """called at the end of run(ck) of c05.py (pid='C05') and c15.py (pid='C15')"""
    props = ["Props.C05_mech"] if pid == "C05" else ["Props.C15_mech"]
    exe = build(ck, props)
    if not exe:
        return
    quick = ck.tier == "quick"
    if pid == "C05":
        exprs = corpus() + gen_cases(ck, 60 if quick else 1500, 120 if quick else 3000, 5)
    else:
        exprs = corpus() + gen_cases(ck, 160 if quick else 5000, 40 if quick else 1000, 15)
    tie(ck, exe, exprs, "mech")
    ck.coverage["mech_rule"] = ("mechanism tie: corpus/C05mech/order.case, then merges of 2-3 wide literals (0-6 distinct fields out of 4-7 names in random "
                                "written order, mostly agreeing values, nested wide records, priorities, optional, not_exported, satisfied contracts; every "
                                "10th fully random) and law pairs a&b / b&a from the merge generator; 7 interpreter evaluations per program "
                                "(export, export in map order, eval_full in map order, %record/fields%, %record/fields_with_opts%, %record/values%, "
                                "std.record.to_array) against the extracted mechanism model, plus mechanism-vs-algebra export inside the model")
    ck.trusted += ["extraction of coq/MergeMech/Model.v (ExtrOcamlBasic only), ocaml/c05mech/driver.ml (parsing/printing, forcing of lazily returned values)"]
    ck.assumptions += ["std.contract.Equal (array merge) is modelled by its verdict on fully forced data, not by its internal laziness"]
