"""C01 — statically typed blocks never cause dynamic type errors."""
import json
import os
import re
import time
from vlib import core
from checks import c01_sig as S

META = {
    "claimed": False,
    "harness_bins": ["c01"],
    "technique": "Coq: (T0) generated primop tables theorem, (T1) type safety of a declarative type system by a fuel-indexed logical relation; tie: typed program generator + direct oracle on the real interpreter",
    "level_text": "in progress",
    "level_note": "in progress",
}


def gen_tables(tier="quick", log=print):
    """Regenerate coq/Gen/PrimopSig.v and coq/Gen/PrimopDyn.v from the running code of /repo."""
    exe = core.harness_bin("c01")
    t0 = time.time()
    table, unspelled, unread, prims, tokens = S.static_table(exe)
    dyn, nprog = S.dynamic_table(exe, table, tokens, tier)
    changed = S.write_gen(table, dyn)
    log("primop tables: %d Display arms, %d static rows, %d interpreter runs, %.1fs%s" % (
        len(prims), len(table), nprog, time.time() - t0, " (Gen/*.v rewritten)" if changed else ""))
    return {"table": table, "dyn": dyn, "unspelled": unspelled, "unread": unread, "prims": prims,
            "tokens": tokens, "programs": nprog}


def setup_gen():
    rc, out = core.cargo_build(["c01"])
    if rc != 0:
        raise RuntimeError("cargo build c01 failed:\n" + out[-2000:])
    gen_tables("quick")


def t0_tables(ck):
    """Translators + bookkeeping of unexplained primops.  Returns the table info or None."""
    try:
        info = gen_tables(ck.tier, ck.log)
    except S.TranslatorError as ex:
        ck.obligation("translator:primop-tables", "translator", False, str(ex))
        return None
    ck.coverage["primop_display_arms"] = len(info["prims"])
    ck.coverage["primop_static_rows"] = len(info["table"])
    ck.coverage["primop_interpreter_runs"] = info["programs"]
    # every arm of Display for PrimOp must be in both tables, or be explained
    names = {r["name"] for r in info["table"]}
    explained = dict(S.UNSPELLABLE)
    for n in info["unspelled"]:
        if n not in info["tokens"]:
            explained[n] = "no %%%s%% token in the lexer and no operator syntax: not writable in source" % n
    open_ = [n for (n, _, _) in info["prims"] if n not in names and n not in explained]
    ck.coverage["primops_not_writable_in_source"] = explained
    ck.obligation("every primop is in both generated tables or explained", "translator", not open_ and not info["unread"],
                  "unexplained: %s; typechecker rejected the probe: %s" % (open_, info["unread"]))
    missing_dyn = [r["name"] for r in info["table"] if r["name"] not in info["dyn"]]
    ck.obligation("dynamic table covers every static row", "translator", not missing_dyn, str(missing_dyn))
    # informational: exempt operations that no longer fail, crashes and panics seen
    fails = S.failing_vectors(info["table"], info["dyn"])
    ex = S.exempt_ops()
    failing_ops = {r["name"] for (r, _, _, _) in fails}
    ck.coverage["exempt_ops_without_failing_vector"] = sorted(e for e in ex if e in names and e not in failing_ops)
    crashes = []
    for op, rows in info["dyn"].items():
        for ks, d in rows.items():
            for c in ("Panic", "Crash"):
                if c in d["errs"]:
                    crashes.append("%s %s %s: %s" % (op, list(ks), c, [p[0] for p in d["progs"] if ("ERR " + c) in p[1]][:1]))
    ck.coverage["primop_runs_that_panicked_or_crashed (C10 territory, not type errors)"] = crashes[:20]
    for (r, ks, why, progs) in fails:
        ck.hist("t0_failing_vectors", "exempt" if r["name"] in ex else "NOT-EXEMPT:" + r["name"])
    info["fails"] = [(r, ks, why, progs) for (r, ks, why, progs) in fails if r["name"] not in ex]
    return info


def t0_search(ck, info):
    """The table theorem does not hold: look for a typed-block program on which the real
    interpreter raises a dynamic type error."""
    exe = core.harness_bin("c01")
    cands = []
    for (row, ks, why, progs) in info["fails"]:
        for (prog, line, args, lazies) in progs[:4]:
            cands.append((row, ks, why, S.witness_program(row, args, lazies, info["tokens"])))
    if not cands:
        return
    out = S.run_robust(exe, ["ev,full\t" + S.esc(c[3]) for c in cands])
    for (row, ks, why, prog), line in zip(cands, out):
        m = re.match(r"ERR (\S+)", line)
        cls = m.group(1) if m else "OK"
        if m and S.bad_class(row["name"], cls):
            ck.violation("primop:%s:%s" % (row["name"], ",".join(ks)),
                         "typed block applying %%%s%% to operands inhabiting its static type %s raises %s" % (
                             row["name"], [S.ty_src(t) for t in row["args"]], cls),
                         {"program": prog, "impl_outcome": line, "expected": "no dynamic type error (or rejection by the typechecker)",
                          "how_to_replay": "./verif check C01 --replay <this file>"})
            return
    ck.log("T0 search: %d candidate witness programs, none typechecks-and-fails (%s)" % (len(cands), [o[:60] for o in out[:3]]))


def run(ck):
    ok = ck.harness(["c01"])
    info = t0_tables(ck) if ok else None
    coq_ok = ck.coq("Props.C01", clean=False)
    if info is not None and (info["fails"] or not coq_ok):
        t0_search(ck, info)
    ck.coverage["rule"] = "T0: every primop x every inhabiting kind vector (type-directed representatives)"
    ck.trusted += ["harness bin c01 (typecheck_visit visitor, eval with positions)", "checks/c01_sig.py translators",
                   "representatives stand for their run-time kind"]


def replay(ck, path):
    obj = json.load(open(path))
    if not ck.harness(["c01"]):
        return
    if "program" in obj:
        out = S.run_robust(core.harness_bin("c01"), ["ev,full\t" + S.esc(obj["program"])])
        ck.log("replay:", out[0])
        m = re.match(r"ERR (\S+)", out[0])
        if m and m.group(1) in S.TYPE_ERR | {"FieldMissing"}:
            ck.violation(obj.get("key", "replay"), obj.get("what", "replayed witness still fails") + " :: " + out[0][:200], obj)
