"""C01 — statically typed blocks never cause dynamic type errors."""
import json
import os
import re
import time
from vlib import core
from checks import c01_sig as S
from checks import c01_frag as F

META = {
    "claimed": False,
    "harness_bins": ["c01"],
    "extract": "C01.v",
    "technique": "Coq: (T0) generated primop tables theorem, (T1) type safety of a declarative type system by a fuel-indexed logical relation; tie: typed program generator + direct oracle on the real interpreter",
    "level_text": "in progress",
    "level_note": "in progress",
}


def gen_tables(tier="quick", log=print):
    """Regenerate coq/Gen/PrimopSig.v and coq/Gen/PrimopDyn.v from the running code of /repo."""
    exe = core.harness_bin("c01")
    t0 = time.time()
    table, unspelled, unread, prims, tokens = S.static_table(exe)
    dyn, nprog = S.dynamic_table(exe, table, tokens, tier)
    changed = S.write_gen(table, dyn)
    S.write_model_sig(exe, table)
    log("primop tables: %d Display arms, %d static rows, %d interpreter runs, %.1fs%s" % (
        len(prims), len(table), nprog, time.time() - t0, " (Gen/*.v rewritten)" if changed else ""))
    return {"table": table, "dyn": dyn, "unspelled": unspelled, "unread": unread, "prims": prims,
            "tokens": tokens, "programs": nprog}


def setup_gen():
    rc, out = core.cargo_build(["c01"])
    if rc != 0:
        raise RuntimeError("cargo build c01 failed:\n" + out[-2000:])
    gen_tables("quick")


def t0_tables(ck):
    """Translators + bookkeeping of unexplained primops.  Returns the table info or None."""
    try:
        info = gen_tables(ck.tier, ck.log)
    except S.TranslatorError as ex:
        ck.obligation("translator:primop-tables", "translator", False, str(ex))
        return None
    ck.coverage["primop_display_arms"] = len(info["prims"])
    ck.coverage["primop_static_rows"] = len(info["table"])
    ck.coverage["primop_interpreter_runs"] = info["programs"]
    # every arm of Display for PrimOp must be in both tables, or be explained
    names = {r["name"] for r in info["table"]}
    explained = dict(S.UNSPELLABLE)
    for n in info["unspelled"]:
        if n not in info["tokens"]:
            explained[n] = "no %%%s%% token in the lexer and no operator syntax: not writable in source" % n
    open_ = [n for (n, _, _) in info["prims"] if n not in names and n not in explained]
    ck.coverage["primops_not_writable_in_source"] = explained
    ck.obligation("every primop is in both generated tables or explained", "translator", not open_ and not info["unread"],
                  "unexplained: %s; typechecker rejected the probe: %s" % (open_, info["unread"]))
    missing_dyn = [r["name"] for r in info["table"] if r["name"] not in info["dyn"]]
    ck.obligation("dynamic table covers every static row", "translator", not missing_dyn, str(missing_dyn))
    # informational: exempt operations that no longer fail, crashes and panics seen
    fails = S.failing_vectors(info["table"], info["dyn"])
    ex = S.exempt_ops()
    failing_ops = {r["name"] for (r, _, _, _) in fails}
    ck.coverage["exempt_ops_without_failing_vector"] = sorted(e for e in ex if e in names and e not in failing_ops)
    crashes = []
    for op, rows in info["dyn"].items():
        for ks, d in rows.items():
            for c in ("Panic", "Crash"):
                if c in d["errs"]:
                    crashes.append("%s %s %s: %s" % (op, list(ks), c, [p[0] for p in d["progs"] if ("ERR " + c) in p[1]][:1]))
    ck.coverage["primop_runs_that_panicked_or_crashed (C10 territory, not type errors)"] = crashes[:20]
    for (r, ks, why, progs) in fails:
        ck.hist("t0_failing_vectors", "exempt" if r["name"] in ex else "NOT-EXEMPT:" + r["name"])
    info["fails"] = [(r, ks, why, progs) for (r, ks, why, progs) in fails if r["name"] not in ex]
    return info


def t0_search(ck, info):
    """The table theorem does not hold: look for a typed-block program on which the real
    interpreter raises a dynamic type error."""
    exe = core.harness_bin("c01")
    cands = []
    for (row, ks, why, progs) in info["fails"]:
        for (prog, line, args, lazies) in progs[:4]:
            cands.append((row, ks, why, S.witness_program(row, args, lazies, info["tokens"])))
    if not cands:
        return
    out = S.run_robust(exe, ["ev,full\t" + S.esc(c[3]) for c in cands])
    for (row, ks, why, prog), line in zip(cands, out):
        m = re.match(r"ERR (\S+)", line)
        cls = m.group(1) if m else "OK"
        if m and S.bad_class(row["name"], cls):
            ck.violation("primop:%s:%s" % (row["name"], ",".join(ks)),
                         "typed block applying %%%s%% to operands inhabiting its static type %s raises %s" % (
                             row["name"], [S.ty_src(t) for t in row["args"]], cls),
                         {"program": prog, "impl_outcome": line, "expected": "no dynamic type error (or rejection by the typechecker)",
                          "how_to_replay": "./verif check C01 --replay <this file>"})
            return
    ck.log("T0 search: %d candidate witness programs, none typechecks-and-fails (%s)" % (len(cands), [o[:60] for o in out[:3]]))


def fragment_stream(ck, exe_model, n, max_size):
    """Programs inside the theorem's fragment: real interpreter vs extracted evaluator, certificates
    through the extracted check_deriv, real typechecker's resolved types vs certificate types, and
    the direct oracle on the implementation."""
    exe = core.harness_bin("c01")
    rng = core.SplitMix64(ck.seed * 1000003 + 101)
    progs = [F.gen_program(rng.fork(), rng.range(3, max_size)) for _ in range(n)]
    t0 = time.time()
    impl = S.run_robust(exe, ["ev,full\t" + S.esc(p["src"]) for p in progs])
    tcs = S.run_robust(exe, ["tc\t" + S.esc(p["src"]) for p in progs], shards=max(1, core.NPROC // 4))
    ck.coverage["fragment_impl_s"] = round(time.time() - t0, 1)
    rc, model, err = core.run_sharded(exe_model, [], [p["sexp"] for p in progs])
    rc2, certs, err2 = core.run_sharded(exe_model, ["cert"], ["%s\t%s\t%s" % (p["cert"], F.ty_sexp(p["type"]), p["sexp"]) for p in progs])
    if rc or rc2:
        ck.obligation("fragment:model-run", "internal", False, "rc=%s/%s %s %s" % (rc, rc2, err[-300:], err2[-300:]))
        return
    compared = 0
    for p, a, b, ce, tc in zip(progs, impl, model, certs, tcs):
        ic = F.canon_impl(a)[0]
        mc, _, mo = F.canon_model(b)
        ck.case(key=p["src"], nontrivial=len(p["features"]) >= 3)
        ck.hist("fragment_impl_outcome", ic)
        ck.hist("fragment_size_features", min(len(p["features"]), 12))
        for f in p["features"]:
            ck.hist("fragment_constructs", f)
        ck.hist("fragment_certificate", ce)
        rep = {"program": p["src"], "model_term": p["sexp"], "certificate": p["cert"], "impl_outcome": a[:400],
               "model_outcome": b[:200], "how_to_replay": "./verif check C01 --replay <this file>"}
        # 1. direct oracle on the implementation
        verdict, detail = F.direct_oracle(p, a)
        ck.hist("fragment_direct_oracle", verdict)
        if verdict == "violation":
            ck.violation("fragment:%s" % ic, "accepted typed program of the fragment: " + detail, rep)
            continue
        if verdict == "crash":
            ck.hist("crash_or_panic", a[:80])
        # 2. certificate: the program is declaratively typable (extracted check_deriv, erasure = the term run)
        if ce != "CERT ok":
            ck.obligation("correspondence:certificate", "correspondence", False,
                          "%s for\n%s\n%s" % (ce, p["src"], p["cert"][:600]))
        # 3. the real typechecker: accepts, and its resolved types agree with the certificate's
        if verdict == "rejected":
            ck.hist("fragment_rejected_by_typechecker", a[:60])
            ck.count("fragment_rejected")
            continue
        ok, terms, idents = S.parse_tc(tc)
        if ok:
            k, mism = F.compare_with_tc(p, terms)
            compared += k
            if mism:
                ck.obligation("correspondence:typechecker-types", "correspondence", False,
                              "%s\n%s" % (p["src"], "\n".join(mism[:3])))
        else:
            ck.obligation("correspondence:typechecker-visit", "correspondence", False, "ev accepted but tc said %s for %s" % (tc[:100], p["src"]))
        # 4. outcomes: model vs implementation
        if not F.agree(a, b):
            if ic != "OK" and mc != "OK" and p["err_sources"] > 1:
                ck.count("fragment_two_error_sources_different_order")
            else:
                ck.obligation("correspondence:evaluator-vs-interpreter", "correspondence", False,
                              "%s\nimpl  %s\nmodel %s" % (p["src"], a[:300], b[:200]))
        elif ic in F.DYN_TYPE_ERRS and mo != "untyped":
            ck.obligation("correspondence:error-origin", "correspondence", False,
                          "%s\nimpl  %s\nmodel %s" % (p["src"], a[:300], b[:200]))
    ck.coverage["fragment_programs"] = n
    ck.coverage["fragment_typechecker_node_types_compared"] = compared
    rej = ck.stats.get("fragment_rejected", 0)
    ck.coverage["fragment_acceptance_rate"] = round(1 - rej / max(1, n), 3)
    ck.obligation("fragment generator: the typechecker accepts >= 90% of the certified programs", "generator",
                  rej <= n // 10, "rejected %d of %d" % (rej, n))
    for p, a, b in list(zip(progs, impl, model))[:4]:
        ck.sample({"program": p["src"][:400], "impl": a[:120], "model": b[:120]})


def run(ck):
    ok = ck.harness(["c01"])
    info = t0_tables(ck) if ok else None
    coq_ok = ck.coq("Props.C01", clean=(ck.tier == "thorough"))
    if info is not None and (info["fails"] or not coq_ok):
        t0_search(ck, info)
    exe_model = ck.model("C01.v")
    if ok and exe_model:
        if ck.tier == "quick":
            fragment_stream(ck, exe_model, 500, 30)
        else:
            fragment_stream(ck, exe_model, 20000, 60)
    ck.coverage["rule"] = ("T0: every primop x every inhabiting kind vector (type-directed representatives); "
                           "fragment stream: seeded type-directed programs of the theorem's fragment (see checks/c01_frag.py)")
    ck.trusted += ["harness bin c01 (typecheck_visit visitor, eval with positions)", "checks/c01_sig.py translators",
                   "representatives stand for their run-time kind", "extraction: ExtrOcamlBasic + ExtrOcamlNativeString",
                   "ocaml/c01/driver.ml (s-expression reader, printer)", "checks/c01_frag.py (generator, Nickel printer, span bookkeeping)"]


def replay(ck, path):
    obj = json.load(open(path))
    if not ck.harness(["c01"]):
        return
    if "program" in obj:
        out = S.run_robust(core.harness_bin("c01"), ["ev,full\t" + S.esc(obj["program"])])
        ck.log("replay:", out[0])
        m = re.match(r"ERR (\S+)", out[0])
        if m and m.group(1) in S.TYPE_ERR | {"FieldMissing"}:
            ck.violation(obj.get("key", "replay"), obj.get("what", "replayed witness still fails") + " :: " + out[0][:200], obj)
