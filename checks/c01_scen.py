"""C01 — scenario families of statically typed code OUTSIDE the Coq fragment (direct oracle only).

The fragment model has non-recursive records, no destructuring patterns, no guards and no types in
term position.  The real typechecker handles all of these with special-purpose code (apparent types
of recursive record fields, piecewise field definitions, pattern annotations, the exhaustiveness
computation of `match`, contracts as values).  This stream builds programs of those shapes by
construction, *knows the run-time type of every binding it creates*, and plants at most one use of
a binding at a type that differs from its run-time type.  The oracle does not depend on what was
planted: whenever the typechecker accepts a program, a dynamic type error (TypeErr NotAFunc
FieldMissing NonExhaustive UnboundId TailAccess) positioned inside a statically typed region (or
inside the typed standard library, which is only ever called from typed regions here), and blame
for a *static* type that the typechecker itself verified, are violations of C01.

Families
  R  typed record literals with recursive sibling references
       targets   ({..} : _)   ({..} : {f : T, ..})   let r : {..} = {..}   ({..} : {_ : T})
                 ({..} : {_ : Dyn})   untyped record with typed blocks in its fields (walk mode)
       fields    unannotated literal of every kind (number string bool array record function tag),
                 `f : T = ..`, `f | T = ..`, a variable (outer / sibling / sibling that shadows an
                 outer variable of another type), an expression over siblings, repeated and
                 piecewise definitions (`f = x, f = x`   `f.x = .., f.y = ..`), a Dyn-typed variable
       uses      a sibling field consumes the field at some type through primitive operators,
                 std.array.first / map / fold_left, projection, application, match
  P  destructuring patterns with annotated fields  `{foo : T}`  `{foo | T}`  nested, with defaults
       in  let / fun / match,  walk mode (typed block in the body) and enforce mode (all typed),
       the matched value a literal, an outer variable, or the result of untyped code
  G  `match` in typed code over closed and open enum types: unguarded / guarded tag arms (with and
       without payload), nested tag patterns, unguarded / guarded wildcard and variable arms; the
       scrutinee is chosen among the cases that no unguarded arm covers when there is one
  T  a type written in term position (`Number`, `Array Number`, `Number -> Number`, ..) where typed
       code expects a value

Keys.  A violation's key names the scenario and the kind of the binding that was misused -- not the
witness -- so that a known finding only masks its own class.  The `TypeErr:`/`NonExhaustive:`
prefix of the keys listed in KNOWN_CLASS is the error class of the first witness of that class.
"""
import re
from vlib import core
from checks import c01_sig as S

NUM, STR, BOOL = ("num",), ("str",), ("bool",)
DYN_TYPE_ERRS = {"TypeErr", "NotAFunc", "FieldMissing", "NonExhaustive", "UnboundId", "TailAccess"}
TS, TE = "\x01", "\x02"       # markers of a statically typed region, removed by finish()

# scenario kind -> stable key of a class that is a known finding on the unchanged tree (known_findings.txt)
KNOWN_CLASS = {
    "record:enforce:var-shadowed": "TypeErr:enforce-record-field-shadowed-variable",
    "record:dict": "TypeErr:record-against-dictionary-sibling-reference",
    "record:piecewise": "TypeErr:piecewise-field-definition-typed-record",
    "pattern:walk": "TypeErr:annotated-pattern-not-enforced",
    "match:guarded": "NonExhaustive:match-guard-no-default",
    "match:all-arms-guarded": "NonExhaustive:match-all-arms-guarded",
    "match:nested-missing:other-variant-binds-its-payload": "NonExhaustive:nested-enum-pattern-left-open-by-other-variant",
    "type-as-term": "TypeErr:type-in-term-position",
}


def ty_src(t):
    k = t[0]
    if k == "num":
        return "Number"
    if k == "str":
        return "String"
    if k == "bool":
        return "Bool"
    if k == "dyn":
        return "Dyn"
    if k == "arr":
        return "Array (%s)" % ty_src(t[1])
    if k == "fun":
        return "(%s) -> (%s)" % (ty_src(t[1]), ty_src(t[2]))
    if k == "rec":
        return "{%s}" % ", ".join("%s : %s" % (f, ty_src(u)) for f, u in t[1])
    if k == "enum":
        return "[| %s |]" % ", ".join("'" + g for g in t[1])
    raise ValueError(t)


def shape(t):
    return t[0]


FUNS = [(NUM, NUM), (STR, STR), (BOOL, BOOL), (NUM, STR), (STR, NUM), (BOOL, NUM), (NUM, BOOL)]
FUN_BODY = {
    (NUM, NUM): "%s + 1", (STR, STR): '%s ++ "z"', (BOOL, BOOL): "!%s",
    (NUM, STR): 'if %s > 0 then "p" else "n"', (STR, NUM): 'if %s == "" then 0 else 1',
    (BOOL, NUM): "if %s then 1 else 0", (NUM, BOOL): "%s > 0",
}


class Gen:
    def __init__(self, rng):
        self.rng = rng
        self.n = 0
        self.features = set()
        self.plain = True       # no construct for which the typechecker is known to be (safely) incomplete

    def fresh(self, p="v"):
        self.n += 1
        return "%s%d" % (p, self.n)

    def pick(self, xs):
        return xs[self.rng.below(len(xs))]

    def chance(self, num, den):
        return self.rng.below(den) < num

    # ---- types, literals, uses
    def base(self):
        return self.pick([NUM, STR, BOOL])

    def gen_type(self, depth=1):
        r = self.rng.below(10)
        if depth <= 0 or r < 4:
            return self.base()
        if r < 6:
            return ("arr", self.gen_type(depth - 1) if self.chance(1, 4) else self.base())
        if r < 7:
            fs = ["x", "y"][: 1 + self.rng.below(2)]
            return ("rec", tuple((f, self.base()) for f in fs))
        if r < 9:
            a, b = self.pick(FUNS)
            return ("fun", a, b)
        return ("enum", tuple(sorted(set(self.pick(["A", "B", "C"]) for _ in range(1 + self.rng.below(2))))))

    def other(self, t):
        """a type whose values misbehave when used as `t` is used"""
        k = t[0]
        if k in ("num", "str", "bool"):
            return self.pick([u for u in (NUM, STR, BOOL) if u != t])
        if k == "arr":
            if self.chance(1, 5):
                return self.base()
            return ("arr", self.other(t[1]))
        if k == "rec":
            fs = list(t[1])
            i = self.rng.below(len(fs))
            fs[i] = (fs[i][0], self.other(fs[i][1]))
            return ("rec", tuple(fs))
        if k == "fun":
            return ("fun",) + self.pick([f for f in FUNS if f[0] != t[1]])
        if k == "enum":
            return ("enum", tuple(g for g in ("A", "B", "C") if g not in t[1])[:1] or ("D",))
        raise ValueError(t)

    def lit(self, t):
        k = t[0]
        if k == "num":
            return str(1 + self.rng.below(9))
        if k == "str":
            return '"s%d"' % self.rng.below(9)
        if k == "bool":
            return self.pick(["true", "false"])
        if k == "arr":
            return "[%s]" % ", ".join(self.lit(t[1]) for _ in range(1 + self.rng.below(3)))
        if k == "rec":
            return "{%s}" % ", ".join("%s = %s" % (f, self.lit(u)) for f, u in t[1])
        if k == "fun":
            v = self.fresh("p")
            return "(fun %s => %s)" % (v, FUN_BODY[(t[1], t[2])] % v)
        if k == "enum":
            return "'" + self.pick(list(t[1]))
        raise ValueError(t)

    def use(self, e, t):
        """-> (expression that consumes `e` as a `t` through primitive operations, its type)"""
        k = t[0]
        r = self.rng.below(3)
        if k == "num":
            return [("%s + 1" % e, NUM), ("%s * 2 > 3" % e, BOOL), ("1 - %s" % e, NUM)][r]
        if k == "str":
            return [('%s ++ "x"' % e, STR), ('"a" ++ %s' % e, STR), ('%s ++ "x"' % e, STR)][r]
        if k == "bool":
            return [("!%s" % e, BOOL), ("if %s then 1 else 0" % e, NUM), ("%s && true" % e, BOOL)][r]
        if k == "arr":
            if r == 0 or t[1][0] not in ("num", "str", "bool"):
                return self.use("(std.array.first %s)" % e, t[1])
            if r == 1:
                el = self.fresh("el")
                b, bt = self.use(el, t[1])
                return "std.array.map (fun %s => %s) %s" % (el, b, e), ("arr", bt)
            acc, el = self.fresh("acc"), self.fresh("el")
            if t[1] == NUM:
                return "std.array.fold_left (fun %s %s => %s + %s) 0 %s" % (acc, el, acc, el, e), NUM
            if t[1] == STR:
                return 'std.array.fold_left (fun %s %s => %s ++ %s) "" %s' % (acc, el, acc, el, e), STR
            return "std.array.fold_left (fun %s %s => %s && %s) true %s" % (acc, el, acc, el, e), BOOL
        if k == "rec":
            f, u = self.pick(list(t[1]))
            return self.use("%s.%s" % (e, f), u)
        if k == "fun":
            return self.use("(%s %s)" % (e, self.lit(t[1])), t[2])
        if k == "enum":
            return "(%s |> match { %s })" % (e, ", ".join("'%s => %d" % (g, i) for i, g in enumerate(t[1]))), NUM
        raise ValueError(t)

    # ---- family R: typed record literals with recursive sibling references
    def family_record(self):
        r = self.rng
        target = self.pick(["infer", "infer", "explicit", "let-annot", "dict", "dict-dyn", "walk", "walk"])
        dict_target = target in ("dict", "dict-dyn")
        names = ["a", "b", "c", "d", "e"]
        nf = 2 + r.below(3)
        outers = []          # (binder, name, type, source)
        fields = []          # dict(name, ty, defs=[source, ..] | None, kind)
        uniform = self.base() if target == "dict" else None
        FOCUS = ["lit", "lit", "annot", "contract", "var-outer", "var-sibling", "var-shadowed", "piecewise-dyn",
                 "piecewise-lit", "piecewise-path", "dyn-var"]
        focus_i = r.below(nf)
        focus_kind = self.pick(FOCUS)
        if focus_kind in ("var-sibling", "var-shadowed") and nf < 2:
            focus_kind = "lit"
        # the field a variable-defined focus refers to
        ref_i = self.pick([i for i in range(nf) if i != focus_i]) if focus_kind in ("var-sibling", "var-shadowed") else None
        plain = focus_kind in ("lit", "annot", "contract", "var-outer", "var-sibling") and not dict_target
        for i in range(nf):
            fields.append({"name": names[i], "ty": uniform or self.gen_type(), "defs": None, "kind": "lit"})
        for i, f in enumerate(fields):
            name, t = f["name"], f["ty"]
            kind = focus_kind if i == focus_i else self.pick(["lit", "lit", "lit", "annot", "contract", "var-outer"])
            if i == focus_i and ref_i is not None:
                t = f["ty"] = fields[ref_i]["ty"]
            if kind == "lit":
                f["defs"] = [self.lit(t)]
                kind = "lit-" + shape(t)
            elif kind == "annot":
                f["defs"] = [": %s = %s" % (ty_src(t), self.lit(t))]
            elif kind == "contract":
                f["defs"] = ["| %s = %s" % (ty_src(t), self.lit(t))]
            elif kind == "var-outer":
                o = self.fresh("o")
                outers.append((o if t[0] in ("num", "str", "bool") and self.chance(1, 2) else "%s : %s" % (o, ty_src(t)), o, t,
                               self.lit(t)))
                f["defs"] = [o]
            elif kind == "var-sibling":
                f["defs"] = [fields[ref_i]["name"]]
            elif kind == "var-shadowed":
                # `name = g` where g is a sibling AND an outer variable of another type: the record is
                # recursive, so g is the sibling
                g = fields[ref_i]["name"]
                ot = self.other(t)
                outers.append((g, g, ot, self.lit(ot)))
                f["defs"] = [g]
            elif kind in ("piecewise-dyn", "dyn-var"):
                w = self.fresh("w")
                outers.append((w + " | Dyn", w, t, self.lit(t)))
                f["defs"] = [w] * (2 if kind == "piecewise-dyn" else 1)
            elif kind == "piecewise-lit":
                l = self.lit(t)
                f["defs"] = [l, l]
            else:  # piecewise-path: name.x = .., name.y = ..
                if uniform:
                    f["defs"] = [self.lit(t)]
                    kind = "lit-" + shape(t)
                else:
                    f["ty"] = ("rec", (("x", self.base()), ("y", self.base())))
                    f["defs"] = None
            f["kind"] = kind
        focus = fields[focus_i]
        # an outer variable named like a field.  A dictionary-typed record does not bind its fields for
        # its siblings in the typechecker (every reference then needs an outer variable to be accepted)
        if dict_target or self.chance(1, 3):
            f = focus if self.chance(3, 4) else self.pick(fields)
            if not any(o[1] == f["name"] for o in outers):
                ot = self.other(f["ty"]) if self.chance(3, 4) else f["ty"]
                outers.append((f["name"], f["name"], ot, self.lit(ot)))
                self.features.add("record:outer-variable-named-like-a-field")
                plain = False
        for f in fields:
            # a field defined as a sibling that an outer variable of the same name hides from a non-recursive reading
            if f["kind"] == "var-sibling" and any(o[1] == f["defs"][0] for o in outers):
                f["kind"] = "var-shadowed"
        # uses: sibling fields that consume other fields; at most one at a type that is not the run-time type
        planted = None
        uses = []
        nuse = 1 + r.below(2)
        want_mutant = self.chance(1, 2)
        for j in range(nuse):
            f = focus if j == 0 or self.chance(1, 2) else self.pick(fields)
            t = f["ty"]
            wrong = False
            if want_mutant and planted is None and f is focus:
                # prefer the type of the outer variable of the same name / of the variable it is defined by
                cands = [o[2] for o in outers if o[1] == f["name"] or (f["defs"] and o[1] == f["defs"][0])]
                cands = [c for c in cands if c != t]
                t = self.pick(cands) if cands and self.chance(3, 4) else self.other(t)
                wrong = True
                planted = f
            e, rt = self.use(f["name"], t)
            uses.append({"name": "u%d" % j, "expr": e, "ty": rt, "wrong": wrong})
        # print
        walk = target == "walk"
        dyn = target == "dict-dyn"
        parts = []
        for f in fields:
            if f["defs"] is None:
                parts.append("%s.x = %s" % (f["name"], self.lit(f["ty"][1][0][1])))
                parts.append("%s.y = %s" % (f["name"], self.lit(f["ty"][1][1][1])))
                continue
            for d in f["defs"]:
                if d.startswith(":") or d.startswith("|"):
                    if dyn:
                        d = "= (%s | Dyn)" % d.split("=", 1)[1].strip()
                    elif walk and d.startswith(":"):
                        hd, _, val = d.partition("=")
                        d = "%s= %s%s%s" % (hd, TS, val.strip(), TE)
                    parts.append("%s %s" % (f["name"], d))
                else:
                    parts.append("%s = %s" % (f["name"], ("(%s | Dyn)" % d) if dyn else d))
        for u in uses:
            if walk:
                parts.append("%s = %s((%s) : %s)%s" % (u["name"], TS, u["expr"], ty_src(u["ty"]), TE))
            elif dyn:
                parts.append("%s = (((%s) : %s) | Dyn)" % (u["name"], u["expr"], ty_src(u["ty"])))
            elif target == "dict" and u["ty"] != uniform:
                if u["ty"][0] not in ("num", "str", "bool"):
                    continue
                e2 = {NUM: "if (%s) == (%s) then 1 else 0", STR: 'if (%s) == (%s) then "e" else "n"',
                      BOOL: "(%s) == (%s)"}[uniform[0:1]] % (u["expr"], u["expr"])
                parts.append("%s = %s" % (u["name"], e2))
            else:
                parts.append("%s = %s" % (u["name"], u["expr"]))
        if self.chance(1, 3):
            # the order of fields must not matter
            k = r.below(len(parts))
            parts = parts[k:] + parts[:k]
            self.features.add("record:use-before-definition")
        body = "{ %s }" % ", ".join(parts)
        allty = ("rec", tuple([(f["name"], f["ty"]) for f in fields] + [(u["name"], u["ty"]) for u in uses]))
        if target == "infer":
            src = "%s(%s : _)%s" % (TS, body, TE)
        elif target == "explicit":
            src = "%s(%s : %s)%s" % (TS, body, ty_src(allty), TE)
        elif target == "let-annot":
            src = "let r : %s = %s%s%s in r" % (ty_src(allty), TS, body, TE)
        elif target == "dict":
            src = "%s(%s : {_ : %s})%s" % (TS, body, ty_src(uniform), TE)
        elif target == "dict-dyn":
            src = "%s(%s : {_ : Dyn})%s" % (TS, body, TE)
        else:
            src = body
        for b_, n, t, s_ in reversed(outers):
            src = "let %s = %s in %s" % (b_, s_, src)
        self.features.add("record:target:" + target)
        for f in fields:
            self.features.add("record:field:" + f["kind"])
        self.features.add("record:focus:" + focus["kind"])
        if planted is None:
            kind = "record:%s:unplanted" % target
        elif dict_target:
            kind = "record:dict"
        elif planted["kind"].startswith("piecewise"):
            kind = "record:piecewise"
        elif walk:
            kind = "record:walk:" + planted["kind"]
        else:
            kind = "record:enforce:" + planted["kind"]
        self.plain = plain and not walk
        return src, kind, planted is not None, not walk

    # ---- family P: annotated destructuring patterns
    def family_pattern(self):
        t = self.gen_type()
        mutant = self.chance(1, 2)
        vt = self.other(t) if mutant else t
        fld = self.pick(["foo", "bar"])
        ann = self.pick([":", ":", ":", "|"])
        nested = self.chance(1, 4)
        default = self.chance(1, 6) and not nested
        pat = "%s %s %s" % (fld, ann, ty_src(t))
        if default:
            pat += " ? %s" % self.lit(t)
        extra = self.chance(1, 3)
        val = "%s = %s" % (fld, self.lit(vt))
        if nested:
            pat = "inner = {%s}" % pat
            val = "inner = {%s}" % val
        if extra:
            pat += ", other"
            val += ", other = 0"
        pat = "{%s}" % pat
        val = "{%s}" % val
        pre = ""
        enforce = self.chance(1, 3)
        src_kind = self.pick([0, 2]) if enforce else self.rng.below(3)
        if src_kind == 1:
            pre = "let idf = fun z => z in "
            val = "(idf %s)" % val
            self.features.add("pattern:value-from-untyped-code")
        elif src_kind == 2:
            pre = "let ov = %s in " % val
            val = "ov"
        e, rt = self.use(fld, t)
        blk = e if enforce else "%s((%s) : %s)%s" % (TS, e, ty_src(rt), TE)
        form = self.pick(["let", "fun", "fun-let", "match", "match2"])
        if form == "let":
            core_ = "let %s = %s in %s" % (pat, val, blk)
        elif form == "fun":
            core_ = "(fun %s => %s) %s" % (pat, blk, val)
        elif form == "fun-let":
            core_ = "let fp = fun %s => %s in fp %s" % (pat, blk, val)
        elif form == "match":
            core_ = "%s |> match { %s => %s }" % (val, pat, blk)
        else:
            core_ = "%s |> match { %s => %s, _ => %s }" % (val, pat, blk, self.lit(rt))
        if enforce:
            src = "%s((%s%s) : %s)%s" % (TS, pre, core_, ty_src(rt), TE)
        else:
            src = pre + core_
        self.plain = ann == ":" and (enforce or src_kind == 0)
        self.features.add("pattern:%s:%s:%s" % (form, "enforce" if enforce else "walk", "type" if ann == ":" else "contract"))
        kind = "pattern:%s" % ("enforce" if enforce else "walk")
        if ann == "|":
            kind += ":contract-annotation"
        return src, kind, mutant, enforce

    # ---- family G: guards and exhaustiveness of match in typed code
    def family_match(self):
        r = self.rng
        tags = ["A", "B", "C"][: 1 + r.below(3)]
        payload = {g: (self.chance(1, 2)) for g in tags}
        nested = {g: payload[g] and self.chance(1, 3) for g in tags}      # payload is [| 'X, 'Y |] instead of Number
        open_row = self.chance(1, 3)
        arms = []
        covered = {}          # tag -> "unguarded" | "guarded" | "missing" | "nested-missing"
        guards_false = ["false", "1 == 2", "1 > 2"]
        n = 0
        for g in tags:
            c = r.below(10)
            n += 1
            if nested[g]:
                if c < 6:
                    arms += ["'%s 'X => %d" % (g, n), "'%s 'Y => %d" % (g, n + 10)]
                    covered[g] = "unguarded"
                elif c < 8:
                    arms += ["'%s 'X => %d" % (g, n), "'%s 'Y if %s => %d" % (g, self.pick(guards_false), n + 10)]
                    covered[g] = "guarded"
                else:
                    arms += ["'%s 'X => %d" % (g, n)]
                    covered[g] = "nested-missing"
                continue
            p = "'%s x" % g if payload[g] else "'%s" % g
            gd = self.pick(guards_false + (["x > 100"] if payload[g] else []))
            if c < 4:
                arms.append("%s => %d" % (p, n))
                covered[g] = "unguarded"
            elif c < 6:
                arms += ["%s if %s => %d" % (p, gd, n), "%s => %d" % (p, n + 10)]
                covered[g] = "unguarded"
            elif c < 8:
                arms.append("%s if %s => %d" % (p, gd, n))
                covered[g] = "guarded"
            elif c < 9:
                arms += ["%s if %s => %d" % (p, gd, n), "%s if %s => %d" % (p, self.pick(guards_false), n + 10)]
                covered[g] = "guarded"
            else:
                covered[g] = "missing"
        w = r.below(6)
        wild = None
        if open_row or w < 3:
            wp = self.pick(["_", "other"])
            if w in (0, 3, 4) or (open_row and w == 5 and self.chance(1, 2)):
                arms.append("%s => 99" % wp)
                wild = "unguarded"
            else:
                arms.append("%s if %s => 99" % (wp, self.pick(guards_false)))
                wild = "guarded"
        if not arms:
            g = tags[0]
            arms.append("'%s%s => 1" % (g, " x" if payload[g] and not nested[g] else " _" if payload[g] else ""))
            covered[g] = "unguarded"
        def tag_ty(g):
            if nested[g]:
                return "'%s [| 'X, 'Y |]" % g
            return "'%s Number" % g if payload[g] else "'%s" % g
        rows = ", ".join(tag_ty(g) for g in tags)
        ety = "[| %s%s |]" % (rows, "; r" if open_row else "")
        fty = "%s%s -> Number" % ("forall r. " if open_row else "", ety)
        # the scrutinee: a case without unguarded coverage when there is one
        cases = [(g, covered[g]) for g in tags] + ([("Z", "open")] if open_row else [])
        bad = []
        for g, c in cases:
            if c == "unguarded":
                continue
            if wild == "unguarded":
                continue
            bad.append((g, c))
        if bad and self.chance(5, 6):
            g, c = self.pick(bad)
        else:
            g, c = self.pick(cases)
            if c != "unguarded" and wild == "unguarded":
                c = "unguarded"
        if g == "Z":
            v = "'Z"
        elif nested[g]:
            v = "('%s 'Y)" % g
        elif payload[g]:
            v = "('%s %d)" % (g, r.below(50))
        else:
            v = "'" + g
        m = "match { %s }" % ", ".join(arms)
        form = r.below(3)
        if form == 0 or open_row:
            src = "%s(%s : %s)%s %s" % (TS, m, fty, TE, v)
            all_typed = False
        elif form == 1:
            src = "%s((let sc : %s = %s in sc |> %s) : Number)%s" % (TS, ety, v, m, TE)
            all_typed = True
        else:
            src = "%s((let fm : %s = %s in fm %s) : Number)%s" % (TS, fty, m, v, TE)
            all_typed = True
        mutant = bool(bad)
        # a wildcard at the top does not open the enum type of a payload: nested cases that only the wildcard
        # (or a guarded arm) handles are safely rejected by the typechecker
        self.plain = all(covered[h] == "unguarded" for h in tags if nested[h])
        # which defect of coverage does the chosen scrutinee hit
        if c in ("guarded",) or (c in ("missing", "open", "nested-missing") and wild == "guarded"):
            # no arm is unguarded: the match is partial whatever its argument (nothing to be exhaustive about)
            kind = "match:guarded" if wild == "unguarded" or "unguarded" in covered.values() else "match:all-arms-guarded"
        elif c == "unguarded":
            kind = "match:covered-case"
        else:
            kind = "match:" + c
            if c == "nested-missing" and any(payload[h] and not nested[h] and covered[h] != "missing" for h in tags):
                kind += ":other-variant-binds-its-payload"
        self.features.add("match:%s:%s" % ("open" if open_row else "closed", kind.split(":")[1]))
        if wild:
            self.features.add("match:wildcard-" + wild)
        return src, kind, mutant, all_typed

    # ---- family T: a type in term position
    def family_type_as_term(self):
        t = self.gen_type()
        ty = self.pick(["Number", "String", "Bool", "Dyn", "(Array Number)", "(Number -> Number)", "[| 'A |]",
                        "(forall a. a -> a)", "{_ : Number}", "{x : Number, y : String}", "(Array (Array String))"])
        form = self.rng.below(4)
        if form == 0:
            e, rt = self.use(ty, t)
            src = "%s((%s) : %s)%s" % (TS, e, ty_src(rt), TE)
        elif form == 1:
            e, rt = self.use("ty", t)
            src = "%s((let ty = %s in %s) : %s)%s" % (TS, ty, e, ty_src(rt), TE)
        elif form == 2:
            e, rt = self.use("arg", t)
            src = "%s((let fn : %s -> %s = fun arg => %s in fn %s) : %s)%s" % (TS, ty_src(t), ty_src(rt), e, ty, ty_src(rt), TE)
        else:
            e, rt = self.use("r.fld", t)
            src = "%s((let r = {fld = %s} in %s) : %s)%s" % (TS, ty, e, ty_src(rt), TE)
        self.features.add("type-as-term:form%d" % form)
        return src, "type-as-term", True, True

    def program(self):
        r = self.rng.below(10)
        if r < 5:
            fam, (src, kind, mutant, all_typed) = "record", self.family_record()
        elif r < 7:
            fam, (src, kind, mutant, all_typed) = "pattern", self.family_pattern()
        elif r < 9:
            fam, (src, kind, mutant, all_typed) = "match", self.family_match()
        else:
            fam, (src, kind, mutant, all_typed) = "type-as-term", self.family_type_as_term()
        text, spans = finish(src)
        return {"src": text, "typed_spans": spans, "family": fam, "kind": kind, "mutant": mutant, "all_typed": all_typed,
                "plain": self.plain, "features": sorted(self.features)}


def finish(src):
    """remove the region markers; -> (text, [(start, end) byte offsets of the typed regions])"""
    out = bytearray()
    spans, stack = [], []
    for ch in src:
        if ch == TS:
            stack.append(len(out))
        elif ch == TE:
            s = stack.pop()
            if not stack:
                spans.append((s, len(out)))
        else:
            out += ch.encode()
    return out.decode(), spans


POS_RE = re.compile(r" pos=(\S+)")
LABEL_RE = re.compile(r" label=(\w+):(\d+)-(\d+) pol=([+-])")
LABEL_TYPE_RE = re.compile(r" type=(.*?) diag=")
STATIC_TYPE_WORDS = {"Number", "String", "Bool", "Dyn", "Array", "forall"}


def static_type_text(s):
    """the label's type is a plain static type (no custom contract such as NonEmpty)"""
    return all(w in STATIC_TYPE_WORDS or w[0].islower() or w[0] == "_" for w in re.findall(r"[A-Za-z_][A-Za-z_0-9.]*", s))


def classify(prog, line):
    """-> (verdict, detail): ok | rejected | blame | untyped-origin | allowed-error | violation | crash"""
    if line.startswith("OK"):
        return "ok", ""
    m = re.match(r"ERR (\S+)", line)
    cls = m.group(1) if m else "?"
    if cls in ("Typecheck", "Parse"):
        return "rejected", cls
    if cls in ("Panic", "Crash"):
        return "crash", cls
    if cls in DYN_TYPE_ERRS:
        pm = POS_RE.search(line)
        spans = []
        if pm and pm.group(1) != "none":
            for p in pm.group(1).split(","):
                f, _, se = p.partition(":")
                s, _, e = se.partition("-")
                spans.append((f, int(s), int(e)))
        if not spans:
            return "violation", cls + " without a position"
        f, s, e = spans[0]
        if f != "main":
            return "violation", "%s inside %s (called from typed code only)" % (cls, f)
        if any(a <= s and e <= b for a, b in prog["typed_spans"]):
            return "violation", cls + " inside a typed region"
        return "untyped-origin", cls
    if cls.startswith("Blame"):
        lm = LABEL_RE.search(line)
        tm = LABEL_TYPE_RE.search(line)
        if lm and lm.group(1) == "main" and prog["all_typed"]:
            return "violation", "%s on an annotation of a program that is typed throughout" % cls
        if lm and lm.group(1) == "std" and lm.group(4) == "-" and tm and static_type_text(tm.group(1)):
            return "violation", "typed code calls a std function against its static type %s" % tm.group(1)
        return "blame", cls + (":" + lm.group(1) if lm else "")
    return "allowed-error", cls


def key_of(prog):
    return KNOWN_CLASS.get(prog["kind"], "scenario:" + prog["kind"])


def run_stream(ck, exe, n):
    rng = core.SplitMix64(ck.seed * 1000003 + 977)
    progs = [Gen(rng.fork()).program() for _ in range(n)]
    out = S.run_robust(exe, ["ev,full\t" + S.esc(p["src"]) for p in progs])
    acc = {}
    for p, line in zip(progs, out):
        verdict, detail = classify(p, line)
        ck.case(key=p["src"], nontrivial=(verdict != "rejected"))
        cat = "%s %s" % (p["family"], "mutant" if p["mutant"] else ("valid plain" if p["plain"] else "valid"))
        ck.hist("scenario_verdict", "%s: %s" % (cat, verdict))
        a = acc.setdefault(cat, [0, 0])
        a[0] += 1
        a[1] += verdict == "ok"
        for f in p["features"]:
            ck.hist("scenario_constructs", f)
        if verdict == "rejected" and not p["mutant"]:
            ck.sample({"scenario_valid_rejected": p["src"][:400], "answer": line[:160]}, limit=14)
        if verdict == "crash":
            ck.hist("crash_or_panic", line[:80])
            ck.sample({"crash_or_panic": line[:120], "program": p["src"][:400]}, limit=14)
        if verdict == "violation":
            ck.hist("scenario_violation_kind", p["kind"])
            ck.violation(key_of(p),
                         "the typechecker accepts a program of scenario %s and it fails at run time: %s: %s => %s"
                         % (p["kind"], detail, p["src"][:400], line[:160]),
                         {"program": p["src"], "impl_outcome": line, "typed_spans": p["typed_spans"], "scenario": p["kind"],
                          "all_typed": p["all_typed"], "planted_misuse": p["mutant"],
                          "expected": "rejected by the typechecker, or no dynamic type error inside typed code",
                          "how_to_replay": "./verif check C01 --replay <this file>"})
    ck.coverage["scenario_programs"] = n
    for fam, lo in (("record", 0.9), ("pattern", 0.9), ("match", 0.9)):
        a = acc.get(fam + " valid plain", [0, 0])
        ck.obligation("scenario generator: >= %d%% of the plain %s programs without a planted misuse are accepted and run" % (lo * 100, fam),
                      "generator", a[0] == 0 or a[1] >= lo * a[0], "%d of %d" % (a[1], a[0]))
    for p, line in list(zip(progs, out))[:4]:
        ck.sample({"scenario_program": p["src"][:400], "answer": line[:140]}, limit=14)
    return acc


if __name__ == "__main__":
    import sys
    args = [a for a in sys.argv[1:] if not a.startswith("-")]
    seed = int(args[0]) if len(args) > 0 else 1
    n = int(args[1]) if len(args) > 1 else 300
    exe = args[2] if len(args) > 2 else core.harness_bin("c01")
    rng = core.SplitMix64(seed * 1000003 + 977)
    progs = [Gen(rng.fork()).program() for _ in range(n)]
    out = S.run_robust(exe, ["ev,full\t" + S.esc(p["src"]) for p in progs])
    hist = {}
    for p, line in zip(progs, out):
        v, d = classify(p, line)
        k = "%s %s %s" % (p["family"], "mutant" if p["mutant"] else ("valid plain" if p["plain"] else "valid"), v)
        hist[k] = hist.get(k, 0) + 1
        if (v in ("violation", "crash") and "-q" not in sys.argv) or (v != "ok" and not p["mutant"] and p["plain"] and "-v" in sys.argv) or (
                v not in ("rejected", "violation") and p["mutant"] and "-m" in sys.argv):
            print(v, key_of(p), "|", d, "\n    ", p["src"], "\n     =>", line[:200])
    for k in sorted(hist):
        print("%5d %s" % (hist[k], k))
    keys = {}
    for p, line in zip(progs, out):
        if classify(p, line)[0] == "violation":
            keys[key_of(p)] = keys.get(key_of(p), 0) + 1
    for k in sorted(keys):
        print("%5d KEY %s" % (keys[k], k))
