"""Shared run/compare code of the merge-family checks (C05, C06, C15)."""
from vlib import core
from checks import mergegen as g


def esc(s):
    return s.replace("\\", "\\\\").replace("\n", "\\n")


def builds(ck, extra_bins=()):
    ok = ck.harness(["nkeval"] + list(extra_bins))
    exe = ck.model_as("c05", "C05.v") if hasattr(ck, "model_as") else None
    return ok, exe


def model_exe(ck):
    t_pid = ck.pid
    # the algebra model is shared: always built under ocaml/c05
    rc, out, exe = core.ocaml_build("c05", "C05.v", "driver.ml")
    if rc != 0:
        ck.obligation("model-extraction:C05.v", "build", False, out[-3000:])
        return None
    return exe


def run_both(ck, exe_model, exprs, flags=""):
    """Evaluate each expression with the implementation (nkeval) and with the model."""
    rc, impl, err = core.run_sharded(core.harness_bin("nkeval"), [], [flags + "\t" + esc(g.program(e)) for e in exprs])
    rc2, mod, err2 = core.run_sharded(exe_model, [], [g.sexp(e) for e in exprs])
    if rc or rc2:
        ck.obligation("correspondence-run", "internal", False, "rc=%s/%s %s %s" % (rc, rc2, err[-500:], err2[-500:]))
    return impl, mod


def agree(impl, model):
    """model-vs-implementation agreement on one program"""
    if model.startswith("BAD") or "!WF" in model:
        return False
    if impl.startswith("OK"):
        return impl == model
    if not model.startswith("ERR"):
        return False
    cls = impl.split()[1].rstrip("+-")
    return cls in model.split()[1].split("|")


def same_config(a, b):
    """the law-level equivalence of the property: both fail, or both export the same"""
    if a.startswith("OK") or b.startswith("OK"):
        return a == b
    return True


def crashed(a):
    return a.startswith("ERR Panic") or a.startswith("ERR Internal") or a == "<missing>"


def outcome_class(a):
    return "OK" if a.startswith("OK") else a.split()[1].rstrip("+-")
