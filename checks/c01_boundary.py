"""C01 — the typed/untyped boundary, OUTSIDE direction.

A statically typed block `(e : T)` (or `let v : T = e`) whose type T has functions in *positive*
position -- nested under enums (several variants, any payload order), records (closed or `; Dyn`),
arrays, dictionaries, foralls, results of functions -- hands a higher-order value to UNTYPED code.
The untyped context extracts a function by the matching eliminator (match arm, projection, index,
dynamic field access, application) and misuses it: argument of the wrong kind, ill-behaved
callback, one argument too many.  The run-time guard generated for the static annotation
(`Type::contract_static` + `simplify`) must turn every such misuse into blame of the untyped side;
a dynamic type error whose position lies inside the typed block is a violation of C01.

The typed bodies *use* their arguments at their types through primitive operators only (`+ ++ !
@ . if`, application of callbacks), so that an unguarded ill-kinded argument fails inside the block.
Direct oracle only (function contracts are outside the Coq fragment).

Types: ("num",) ("str",) ("bool",) ("tvar", a) ("arr", t) ("dict", t) ("fun", a, r)
       ("rec", ((f, t), ..), tail) with tail None | "dyn"     ("enum", ((tag, t or None), ..))
       ("forall", a, t)
"""
import re
from vlib import core
from checks import c01_sig as S

NUM, STR, BOOL = ("num",), ("str",), ("bool",)
FIELDS = ["fa", "fb", "fc", "fd"]
TAGS = ["Const", "Add", "Pair", "Xs", "Fn", "Key"]
DYN_TYPE_ERRS = {"TypeErr", "NotAFunc", "FieldMissing", "NonExhaustive", "UnboundId", "TailAccess"}


def ty_src(t):
    k = t[0]
    if k == "num":
        return "Number"
    if k == "str":
        return "String"
    if k == "bool":
        return "Bool"
    if k == "tvar":
        return t[1]
    if k == "arr":
        return "Array (%s)" % ty_src(t[1])
    if k == "dict":
        return "{_ : %s}" % ty_src(t[1])
    if k == "fun":
        return "(%s) -> (%s)" % (ty_src(t[1]), ty_src(t[2]))
    if k == "rec":
        fs = ", ".join("%s : %s" % (f, ty_src(u)) for f, u in t[1])
        return "{%s%s}" % (fs, "; Dyn" if t[2] == "dyn" else "")
    if k == "enum":
        return "[| %s |]" % ", ".join(("'" + g) if u is None else "'%s (%s)" % (g, ty_src(u)) for g, u in t[1])
    if k == "forall":
        return "forall %s. %s" % (t[1], ty_src(t[2]))
    raise ValueError(t)


def has_fun(t):
    k = t[0]
    if k == "fun":
        return True
    if k in ("arr", "dict"):
        return has_fun(t[1])
    if k == "rec":
        return any(has_fun(u) for _, u in t[1])
    if k == "enum":
        return any(u is not None and has_fun(u) for _, u in t[1])
    if k == "forall":
        return has_fun(t[2])
    return False


class Gen:
    def __init__(self, rng):
        self.rng = rng
        self.n = 0
        self.features = set()

    def fresh(self, p="x"):
        self.n += 1
        return "%s%d" % (p, self.n)

    # ------------------------------------------------------------------ types
    def fo(self, depth=1, tvars=()):
        """first-order data"""
        r = self.rng
        opts = [(NUM, 4), (STR, 3), (BOOL, 2)]
        if tvars:
            opts.append((("tvar", r.choice(list(tvars))), 2))
        if depth > 0:
            opts += [("arr", 2), ("rec", 2)]
        c = r.weighted(opts)
        if c == "arr":
            return ("arr", self.fo(depth - 1))
        if c == "rec":
            fs = sorted(r.shuffle(FIELDS)[:r.range(1, 2)])
            return ("rec", tuple((f, self.fo(depth - 1)) for f in fs), None)
        return c

    def arg_ty(self, tvars=()):
        """the domain of a function of the typed block: data, or a callback"""
        r = self.rng
        if r.chance(1, 4):
            self.features.add("callback-argument")
            return ("fun", r.choice([NUM, STR, BOOL]), r.choice([NUM, STR, BOOL]))
        return self.fo(1, tvars)

    def pos(self, depth, tvars=()):
        """a type with a function in positive position"""
        r = self.rng
        opts = [("fun", 4)]
        if depth > 0:
            opts += [("enum", 5), ("rec", 3), ("arr", 2), ("dict", 1), ("funres", 2)]
        c = r.weighted(opts)
        if c == "fun":
            res = self.fo(1, tvars) if r.chance(3, 4) or depth == 0 else self.pos(depth - 1, tvars)
            return ("fun", self.arg_ty(tvars), res)
        if c == "funres":
            return ("fun", self.fo(0, tvars), self.pos(depth - 1, tvars))
        if c == "enum":
            n = r.range(2, 4)
            tags = r.shuffle(TAGS)[:n]
            rows = [(tags[0], self.pos(depth - 1, tvars))]
            for g in tags[1:]:
                k = r.below(4)
                rows.append((g, None if k == 0 else (self.pos(depth - 1, tvars) if k == 1 else self.fo(1, tvars))))
            self.features.add("enum")
            return ("enum", tuple(r.shuffle(rows)))          # the order of the rows matters to the simplifier
        if c == "rec":
            fs = r.shuffle(FIELDS)[:r.range(1, 3)]
            rows = [(fs[0], self.pos(depth - 1, tvars))] + [(f, self.fo(1, tvars) if r.chance(2, 3) else self.pos(depth - 1, tvars)) for f in fs[1:]]
            tail = None        # (a record literal cannot be checked against a `; Dyn` type: such values only come from untyped code)
            self.features.add("record" + ("; Dyn" if tail else ""))
            return ("rec", tuple(r.shuffle(rows)), tail)
        if c == "arr":
            self.features.add("array")
            return ("arr", self.pos(depth - 1, tvars))
        self.features.add("dictionary")
        return ("dict", self.pos(depth - 1, tvars))

    def top_type(self):
        r = self.rng
        if r.chance(1, 5):
            self.features.add("forall")
            return ("forall", "a", ("fun", ("tvar", "a"), self.pos(r.range(1, 2), ("a",))))
        return self.pos(r.range(1, 3))

    # ------------------------------------------------------------------ typed terms
    def lit(self, t, env):
        r = self.rng
        k = t[0]
        vs = [x for x, u in env if u == t]
        if vs and r.chance(1, 2):
            return r.choice(vs)
        if k == "num":
            return str(r.range(0, 9))
        if k == "str":
            return '"%s"' % r.choice(["", "a", "bc"])
        if k == "bool":
            return r.choice(["true", "false"])
        if k == "tvar":
            if not vs:
                raise ValueError("no value of the type variable")
            return r.choice(vs)
        if k == "arr":
            return "[%s]" % ", ".join(self.lit(t[1], env) for _ in range(r.range(1, 2)))
        if k == "rec":
            return "{%s}" % ", ".join("%s = %s" % (f, self.lit(u, env)) for f, u in t[1])
        raise ValueError(t)

    def use(self, x, t):
        """a Bool-typed expression that uses x at type t through primitive operators"""
        k = t[0]
        if k == "num":
            return "(%s + 0 == 0)" % x
        if k == "str":
            return '(%s ++ "" == "")' % x
        if k == "bool":
            return "(!%s)" % x
        if k == "tvar":
            return "true"
        if k == "arr":
            # every element, at the element type (array contracts are lazy on the elements)
            y = self.fresh("y")
            return "(std.array.fold_left (fun acc %s => acc && %s) true %s)" % (y, self.use(y, t[1]), x)
        if k == "rec":
            return "(%s)" % " && ".join(self.use("(%s).%s" % (x, f), u) for f, u in t[1])
        if k == "fun":            # a callback: call it with a good argument, use its result at the result type
            return self.use("(%s %s)" % (x, self.lit(t[1], [])), t[2])
        raise ValueError(t)

    def term(self, t, env, path):
        """a typed term of type t.  `path` = True when this value lies on the path the untyped context will
        follow (then enums pick a variant that holds a function)."""
        r = self.rng
        k = t[0]
        if k in ("num", "str", "bool", "tvar"):
            return self.lit(t, env)
        if k == "fun":
            x = self.fresh()
            env2 = env + [(x, t[1])]
            a, b = self.term(t[2], env2, path), self.term(t[2], env2, path)
            return "(fun %s => if %s then %s else %s)" % (x, self.use(x, t[1]), a, b)
        if k == "arr":
            if not has_fun(t):
                return self.lit(t, env)
            return "[%s]" % ", ".join(self.term(t[1], env, path) for _ in range(r.range(1, 2)))
        if k == "dict":
            return "{%s}" % ", ".join("%s = %s" % (f, self.term(t[1], env, path)) for f in ["ka", "kb"][:r.range(1, 2)])
        if k == "rec":
            extra = ", zz = 1" if t[2] == "dyn" and r.chance(1, 2) else ""
            return "{%s%s}" % (", ".join("%s = %s" % (f, self.term(u, env, path)) for f, u in t[1]), extra)
        if k == "enum":
            rows = [(g, u) for g, u in t[1] if u is not None and has_fun(u)] if path else list(t[1])
            g, u = r.choice(rows)
            return ("'" + g) if u is None else "('%s %s)" % (g, self.term(u, env, path))
        if k == "forall":
            return self.term(t[2], env, path)
        raise ValueError(t)

    def chosen_variant(self, text, t):
        """the tag the typed term `text` (generated by term() for enum type t) starts with"""
        m = re.match(r"\(?'(\w+)", text)
        return m.group(1)

    # ------------------------------------------------------------------ the untyped context
    def wrong(self, t):
        """an untyped argument of another kind than t"""
        r = self.rng
        k = t[0]
        cands = [c for c, kk in [('"oops"', "str"), ("7", "num"), ("true", "bool"), ("[1]", "arr"), ("{zq = 1}", "rec"), ("'Zq", "enum"), ("(fun z => z)", "fun")] if kk != k]
        if k == "fun":
            if r.chance(2, 3):
                # a callback that is a function but returns a value of the wrong kind
                self.features.add("misuse:ill-behaved-callback")
                return "(fun z => %s)" % self.wrong(t[2])
            cands = [c for c in cands if not c.startswith("(fun")]
        if k == "arr" and r.chance(1, 2):
            return "[%s]" % self.wrong(t[1])
        if k == "rec" and r.chance(1, 2):
            f, u = t[1][0]
            return "{%s}" % ", ".join("%s = %s" % (g, self.wrong(v) if g == f else self.good(v)) for g, v in t[1])
        return r.choice(cands)

    def good(self, t):
        k = t[0]
        if k == "tvar":
            return "5"
        if k == "fun":
            return "(fun z => %s)" % self.good(t[2])
        return self.lit(t, [])

    def eliminate(self, v, t, text):
        """untyped code that reaches a function inside the value v : t (whose typed source text is `text`) and
        misuses it; returns the expression"""
        r = self.rng
        k = t[0]
        if k == "forall":
            return self.eliminate(v, t[2], text)
        if k == "fun":
            # misuse this function, or call it properly and go on with its result
            if has_fun(t[2]) and r.chance(1, 2):
                return self.eliminate("(%s %s)" % (v, self.good(t[1])), t[2], None)
            if t[1][0] == "tvar":
                # nothing can be wrong with the argument of a polymorphic function: one argument too many
                self.features.add("misuse:extra-argument")
                return "((%s 5) 6)" % v if not has_fun(t[2]) else self.eliminate("(%s 5)" % v, t[2], None)
            c = r.below(8)
            if c == 0 and not has_fun(t[2]):
                self.features.add("misuse:extra-argument")
                return "((%s %s) %s)" % (v, self.good(t[1]), self.good(t[1]))
            self.features.add("misuse:wrong-kind-argument")
            call = "(%s %s)" % (v, self.wrong(t[1]))
            res = t[2]
            # make sure the body runs: apply the remaining arguments properly
            while res[0] == "fun":
                call = "(%s %s)" % (call, self.good(res[1]))
                res = res[2]
            return call
        if k == "arr":
            self.features.add("elim:array")
            return self.eliminate(r.choice(["(std.array.first %s)" % v, "(std.array.at 0 %s)" % v]), t[1], None)
        if k == "dict":
            self.features.add("elim:dictionary")
            return self.eliminate(r.choice(['(%s)."ka"' % v, "(%s).ka" % v, "(std.array.first (std.record.values %s))" % v]), t[1], None)
        if k == "rec":
            self.features.add("elim:record")
            f, u = r.choice([(f, u) for f, u in t[1] if has_fun(u)])
            return self.eliminate("(%s).%s" % (v, f), u, None)
        if k == "enum":
            self.features.add("elim:match")
            p = self.fresh("p")
            rows = [(g, u) for g, u in t[1] if u is not None and has_fun(u)]
            # one arm per function-holding variant (the typed term picked one of them), plus a wildcard
            arms = ["'%s %s => %s" % (g, p, self.eliminate(p, u, None)) for g, u in r.shuffle(rows)]
            return "(%s |> match { %s, _ => \"other\" })" % (v, ", ".join(arms))
        raise ValueError(t)

    def program(self):
        r = self.rng
        for _ in range(20):
            try:
                T = self.top_type()
                e = self.term(T, [], True)
                break
            except ValueError:
                continue
        else:
            T = ("fun", NUM, NUM)
            e = self.term(T, [], True)
        v = self.fresh("v")
        use = self.eliminate(v, T, e)
        shape = r.below(3)
        if shape == 0:
            pre = "let %s = (" % v
            src = pre + e + " : " + ty_src(T) + ") in " + use
            typed = (len(pre.encode()), len((pre + e).encode()))
            self.features.add("shape:(e : T)")
        elif shape == 1:
            pre = "let %s : %s = " % (v, ty_src(T))
            src = pre + e + " in " + use
            typed = (len(pre.encode()), len((pre + e).encode()))
            self.features.add("shape:let v : T = e")
        else:
            # the typed block is a field of an untyped record
            pre = "let r = {%s : %s = " % (v, ty_src(T))
            src = pre + e + "} in " + use.replace(v, "r." + v)
            typed = (len(pre.encode()), len((pre + e).encode()))
            self.features.add("shape:record field v : T")
        return {"src": src, "typed": typed, "type": T, "features": sorted(self.features)}


POS_RE = re.compile(r" pos=(\S+)")
LABEL_RE = re.compile(r" label=(\w+):(\d+)-(\d+) pol=([+-])")


def classify(prog, line):
    """-> (verdict, detail): ok | rejected | blame | untyped-origin | allowed-error | violation | crash"""
    if line.startswith("OK"):
        return "ok", ""
    m = re.match(r"ERR (\S+)", line)
    cls = m.group(1) if m else "?"
    if cls in ("Typecheck", "Parse"):
        return "rejected", cls
    if cls in ("Panic", "Crash"):
        return "crash", cls
    a, b = prog["typed"]
    if cls in DYN_TYPE_ERRS:
        pm = POS_RE.search(line)
        spans = []
        if pm and pm.group(1) != "none":
            for p in pm.group(1).split(","):
                f, _, se = p.partition(":")
                s, _, e = se.partition("-")
                spans.append((f, int(s), int(e)))
        if not spans:
            return "violation", cls + ":no-position"
        f, s, e = spans[0]
        if f == "main" and a <= s and e <= b:
            return "violation", "%s:inside-typed-block-called-from-untyped-code" % cls
        if f != "main":
            return "violation", "%s:in-%s" % (cls, f)
        return "untyped-origin", cls
    if cls.startswith("Blame"):
        lm = LABEL_RE.search(line)
        if lm and lm.group(1) == "main" and lm.group(4) == "+":
            return "violation", "Blame+:typed-block-blamed-for-its-own-annotation"
        return "blame", cls + (":" + lm.group(1) if lm else "")
    return "allowed-error", cls


def run_stream(ck, exe, n):
    rng = core.SplitMix64(ck.seed * 1000003 + 211)
    progs = [Gen(rng.fork()).program() for _ in range(n)]
    out = S.run_robust(exe, ["ev,full\t" + S.esc(p["src"]) for p in progs])
    rejected = 0
    for p, line in zip(progs, out):
        verdict, detail = classify(p, line)
        ck.case(key=p["src"], nontrivial=(verdict != "rejected"))
        ck.hist("boundary_verdict", verdict)
        if detail:
            ck.hist("boundary_detail", "%s %s" % (verdict, detail))
        for f in p["features"]:
            ck.hist("boundary_constructs", f)
        if verdict == "rejected":
            rejected += 1
            ck.sample({"boundary_rejected": p["src"][:400], "answer": line[:160]}, limit=14)
        if verdict == "crash":
            ck.hist("crash_or_panic", line[:80])
            ck.sample({"crash_or_panic": line[:120], "program": p["src"][:400]}, limit=14)
        if verdict == "violation":
            ck.violation("boundary:" + detail,
                         "untyped code misuses a function handed out by a statically typed block and the error is raised inside "
                         "the block instead of blame at the boundary: %s => %s" % (p["src"][:400], line[:160]),
                         {"program": p["src"], "impl_outcome": line, "typed_block_span": p["typed"],
                          "expected": "blame of the untyped side (or an error located in untyped code)",
                          "how_to_replay": "./verif check C01 --replay <this file>"})
    ck.coverage["boundary_programs"] = n
    ck.coverage["boundary_rejected"] = rejected
    ck.obligation("boundary generator: >= 90% of its programs are accepted by the typechecker", "generator",
                  rejected <= n // 10, "rejected %d of %d" % (rejected, n))
    for p, line in list(zip(progs, out))[:3]:
        ck.sample({"boundary_program": p["src"][:400], "answer": line[:140]}, limit=14)
