"""C14 translator: reads the operator tables of the running /repo and writes coq/Gen/OpTable.v.

Sources (all syntactic, fail closed: anything that does not have the expected shape raises
`TranslatorError` with file/line, which the check reports as an open obligation):

* parser/src/grammar.lalrpop
    - the `InfixExpr` nonterminal: every alternative with its `#[precedence(level=..)]` /
      `#[assoc(side=..)]` annotations (LALRPOP semantics: an alternative without annotations inherits
      level and associativity of the previous one; a new level resets associativity to "all")
    - the operator tables `InfixBOp<n>`, `InfixUOp<n>`, `InfixLazyBOp<n>` (terminal -> PrimOp)
    - the macros `InfixBOpApp`, `InfixUOpApp`, `InfixLazyBOpApp` (checked against their expected text)
    - `UOp`, `BOpPre`, `NOpPre` (prefix primops and their number of arguments)
    - the `extern` token block (terminal name -> lexer token variant)
* parser/src/lexer.rs: `#[token("..")] Variant` (token variant -> spelling), `KEYWORDS`
* parser/src/ast/primop.rs: `Display for PrimOp` (variant -> name), `positioning()`
* parser/src/ast/pretty.rs: `impl Pretty for &PrimOp` (variant -> text the printer emits)
"""
import hashlib
import os
import re


class TranslatorError(Exception):
    pass


def _read(repo, rel):
    p = os.path.join(repo, rel)
    try:
        return open(p, encoding="utf-8").read()
    except OSError as ex:
        raise TranslatorError("%s: cannot read (%s)" % (rel, ex))


def _strip_line_comments(src):
    out = []
    for line in src.split("\n"):
        # lalrpop / rust line comments; none of the sources we read has `//` inside a string on
        # the lines we care about except URLs in comments
        i = line.find("//")
        if i >= 0 and line[:i].count('"') % 2 == 0:
            line = line[:i]
        out.append(line)
    return "\n".join(out)


def _block(src, header_re, rel):
    """Text between the braces following the first match of header_re (balanced)."""
    m = re.search(header_re, src)
    if not m:
        raise TranslatorError("%s: cannot find %s" % (rel, header_re))
    i = src.index("{", m.end() - 1)
    depth = 0
    j = i
    in_str = False
    while j < len(src):
        c = src[j]
        if in_str:
            if c == "\\":
                j += 1
            elif c == '"':
                in_str = False
        elif c == '"':
            in_str = True
        elif c == "{":
            depth += 1
        elif c == "}":
            depth -= 1
            if depth == 0:
                return src[i + 1:j], src[:i].count("\n") + 1
        j += 1
    raise TranslatorError("%s: unbalanced braces after %s" % (rel, header_re))


def _split_top(body, sep=","):
    """Split on `sep` at nesting depth 0 of (), {}, [], <> (strings respected)."""
    parts, cur, depth, in_str = [], [], 0, False
    i = 0
    while i < len(body):
        c = body[i]
        if in_str:
            cur.append(c)
            if c == "\\":
                cur.append(body[i + 1])
                i += 1
            elif c == '"':
                in_str = False
        elif c == '"':
            in_str = True
            cur.append(c)
        elif c in "({[":
            depth += 1
            cur.append(c)
        elif c in ")}]":
            depth -= 1
            cur.append(c)
        elif c == "<" and body[i + 1:i + 2] != "=" and (i == 0 or body[i - 1] != "="):
            depth += 1
            cur.append(c)
        elif c == ">" and i > 0 and body[i - 1] not in "=-" :
            depth -= 1
            cur.append(c)
        elif c == sep and depth == 0:
            parts.append("".join(cur))
            cur = []
        else:
            cur.append(c)
        i += 1
    if "".join(cur).strip():
        parts.append("".join(cur))
    return [p.strip() for p in parts if p.strip()]


def _norm(s):
    return re.sub(r"\s+", "", s)


def _debug_key(dbg):
    """`RecordFields(IgnoreEmptyOpt)` / `Force { ignore_not_exported: false }` (Debug of a value)
    -> the key the grammar's constructor expressions are looked up with"""
    return _norm(dbg)


def read_static_display(po, PO):
    """`impl fmt::Display for PrimOp` read from the source text: variant pattern -> name"""
    disp_body, _ = _block(po, r"impl fmt::Display for PrimOp\s*\{", PO)
    display = {}
    if "match self {" not in disp_body:
        raise TranslatorError(PO + ": Display for PrimOp is not a `match self`")
    flat = re.sub(r"\s+", " ", disp_body.split("match self {", 1)[1])
    flat = re.sub(r"=>\s*\{\s*write!\(f, (\"[^\"]*\")\)\s*\}", r"=> write!(f, \1),", flat)
    arms = 0
    for m in re.finditer(r'((?:Self::)?[A-Za-z0-9_]+(?:\([^)]*\))?(?:\s*\{[^}]*\})?)\s*=>\s*([A-Za-z_][A-Za-z0-9_!:]*)\(', flat):
        arms += 1
    for m in re.finditer(r'((?:Self::)?[A-Za-z0-9_]+(?:\([^)]*\))?(?:\s*\{[^}]*\})?)\s*=>\s*write!\(f, "([^"]*)"\)', flat):
        v = m.group(1).replace("Self::", "").strip()
        display[_norm(v)] = m.group(2)
    if len(display) < 80:
        raise TranslatorError("%s: could only read %d Display arms" % (PO, len(display)))
    if arms != len(display):
        raise TranslatorError("%s: %d of the %d Display arms are not a plain `write!(f, \"name\")`" % (PO, arms - len(display), arms))
    return display


def read_tables(repo, dynamic_display=None):
    """`dynamic_display`: {Debug text of a PrimOp value: its Display text}, obtained by running the
    implementation (harness mode `primop`).  The table in the source text is read first; when it
    cannot be read (a refactored `impl Display`) the dynamic one is used instead; when both are
    there they must agree (otherwise the reader of the source text is wrong: fail closed)."""
    G = "parser/src/grammar.lalrpop"
    L = "parser/src/lexer.rs"
    PO = "parser/src/ast/primop.rs"
    PR = "parser/src/ast/pretty.rs"
    raw = {rel: _read(repo, rel) for rel in (G, L, PO, PR)}
    g = _strip_line_comments(raw[G])
    lx = _strip_line_comments(raw[L])
    po = _strip_line_comments(raw[PO])
    pr = _strip_line_comments(raw[PR])

    # ---- lexer: token variant -> spelling
    spelling = {}
    for m in re.finditer(r'#\[token\("((?:[^"\\]|\\.)*)"\)\]\s*([A-Za-z0-9_]+)\s*,', lx):
        sp = m.group(1).replace('\\"', '"').replace("\\\\", "\\")
        spelling.setdefault(m.group(2), sp)
    m = re.search(r"pub const KEYWORDS: &\[&str\] = &\[(.*?)\];", lx, flags=re.S)
    if not m:
        raise TranslatorError(L + ": cannot find KEYWORDS")
    keywords = re.findall(r'"([^"]*)"', m.group(1))
    if not keywords:
        raise TranslatorError(L + ": empty KEYWORDS")

    # ---- grammar: terminal name -> token variant -> spelling
    ext, _ = _block(g, r"enum Token<'input>\s*\{", G)
    terminal = {}
    for m in re.finditer(r'"((?:[^"\\]|\\.)*)"\s*=>\s*Token::Normal\(NormalToken::([A-Za-z0-9_]+)\)', ext):
        name = m.group(1).replace('\\"', '"')
        var = m.group(2)
        if var in spelling:
            terminal[name] = spelling[var]

    def term_spelling(name, where):
        if name not in terminal:
            raise TranslatorError("%s: terminal %r (%s) has no fixed lexer spelling" % (G, name, where))
        return terminal[name]

    # ---- primop.rs: variant -> display name; positioning
    display_source = "static"
    dyn = None
    if dynamic_display is not None:
        dyn = {}
        for dbg, name in dynamic_display.items():
            dyn[re.sub(r"\w+::", "", _debug_key(dbg))] = name
    try:
        display = read_static_display(po, PO)
    except TranslatorError:
        if dyn is None:
            raise
        display = None
        display_source = "dynamic"
    if display is not None and dyn is not None:
        for k, name in display.items():
            k2 = re.sub(r"\w+::", "", k)
            hits = [n for d, n in dyn.items() if d == k2 or re.sub(r"\(.*\)$", "(_)", d) == k2 or re.sub(r"\{.*\}$", "{..}", d) == k2]
            if hits and any(n != name for n in hits):
                raise TranslatorError("%s: the Display arm read for %s is %r but the implementation prints %r" % (PO, k, name, sorted(set(hits))))
    pos_body, _ = _block(po, r"pub fn positioning\(&self\) -> OpPos\s*\{", PO)
    mpost = re.search(r"([^;{}]*?)=>\s*OpPos::Postfix", pos_body, flags=re.S)
    minf = re.search(r"OpPos::Postfix,\s*(.*?)=>\s*OpPos::Infix", pos_body, flags=re.S)
    if not mpost or not minf or "_ => OpPos::Prefix" not in re.sub(r"\s+", " ", pos_body):
        raise TranslatorError(PO + ": positioning() does not have the expected three arms")

    def variants(txt):
        txt = txt.split("match self {")[-1]
        return [_norm(v) for v in txt.split("|") if v.strip()]

    postfix_variants = variants(mpost.group(1))
    infix_variants = variants(minf.group(1))

    def disp_of(variant_expr, where):
        """`PrimOp::Plus` / `PrimOp::Merge(MergeKind::Standard)` -> display name."""
        v = _norm(variant_expr)
        v = re.sub(r"^PrimOp::", "", v)
        if display is None:
            # the names the implementation itself prints, keyed by the Debug text of the value
            k = re.sub(r"\w+::", "", v)
            if k in dyn:
                return dyn[k]
            # a constructor pattern with a payload (`Merge(_)`): all its values must print alike
            head = re.match(r"[A-Za-z0-9_]+", k).group(0)
            names = sorted(set(n for d, n in dyn.items() if re.match(r"[A-Za-z0-9_]+", d).group(0) == head))
            if len(names) == 1 and (k.endswith("(_)") or k.endswith("{..}")):
                return names[0]
            raise TranslatorError("%s: the implementation gives no single Display name for %s (%s): %s" % (PO, variant_expr, where, names))
        cands = [v, re.sub(r"\(.*\)$", "(_)", v), re.sub(r"\{.*\}$", "{..}", v)]
        # RecordFields(RecordOpKind::IgnoreEmptyOpt) is keyed exactly; Merge(_) by wildcard
        for c in cands:
            if c in display:
                return display[c]
        raise TranslatorError("%s: no Display name for %s (%s)" % (PO, variant_expr, where))

    # ---- pretty.rs: what the printer emits for an operator
    pp_body, _ = _block(pr, r"impl<'a> Pretty<'a, Allocator> for &PrimOp\s*\{", PR)
    op_spelling = []
    for m in re.finditer(r'PrimOp::([A-Za-z0-9_]+(?:\([^)]*\))?)\s*=>\s*allocator\.text\("((?:[^"\\]|\\.)*)"\)', pp_body):
        op_spelling.append((disp_of("PrimOp::" + m.group(1), "pretty.rs"), m.group(2)))
    if not re.search(r'op\s*=>\s*allocator\.text\(format!\("%\{op\}%"\)\)', pp_body):
        raise TranslatorError(PR + ": the default arm of `impl Pretty for &PrimOp` is not `%{op}%`")
    if len(op_spelling) < 10:
        raise TranslatorError(PR + ": could only read %d operator spellings" % len(op_spelling))

    # ---- grammar: operator tables
    def op_table(name):
        body, line = _block(g, r"\b%s\s*:\s*PrimOp\s*=\s*\{" % re.escape(name), G)
        res = []
        for alt in _split_top(body):
            m = re.fullmatch(r'"((?:[^"\\]|\\.)*)"\s*=>\s*(PrimOp::[A-Za-z0-9_]+(?:\(.*\))?(?:\s*\{.*\})?)', alt, flags=re.S)
            if not m:
                raise TranslatorError("%s:%d: cannot read alternative %r of %s" % (G, line, alt[:60], name))
            res.append((m.group(1), m.group(2)))
        return res

    # ---- grammar: the application macros must be the ones the model assumes
    expected_macros = {
        "InfixUOpApp<UOp, Term>": "<op:UOp><e:AsTerm<Term>>=>UniTerm::from(alloc.prim_op(op,iter::once(e)));",
        "InfixBOpApp<BOp, LTerm, RTerm>": "<e1:AsTerm<LTerm>><op:BOp><e2:AsTerm<RTerm>>=>UniTerm::from(primop_app!(alloc,op,e1,e2));",
        "InfixLazyBOpApp<UOp, LTerm, RTerm>": "<e1:AsTerm<LTerm>><op:UOp><e2:AsTerm<RTerm>>=>UniTerm::from(app!(alloc,primop_app!(alloc,op,e1),e2));",
    }
    for head, want in expected_macros.items():
        m = re.search(re.escape(head) + r"\s*:\s*UniTerm<'ast>\s*=(.*?;)\s*\n", g, flags=re.S)
        if not m or _norm(m.group(1)) != want:
            raise TranslatorError("%s: macro %s does not have the expected definition" % (G, head))

    # ---- grammar: InfixExpr
    body, line0 = _block(g, r"\bInfixExpr\s*:\s*UniTerm<'ast>\s*=\s*\{", G)
    binops, prefixops = [], []
    level, assoc = None, None
    seen_applicative = False
    for alt in _split_top(body):
        attrs = re.findall(r"#\[(\w+)\((\w+)\s*=\s*\"([^\"]*)\"\)\]", alt)
        rest = re.sub(r"#\[[^\]]*\]", "", alt).strip()
        new_level = None
        new_assoc = None
        for a, k, v in attrs:
            if a == "precedence" and k == "level":
                new_level = int(v)
            elif a == "assoc" and k == "side":
                new_assoc = {"left": "ALeft", "right": "ARight", "all": "AAll", "none": "ANone"}.get(v)
                if new_assoc is None:
                    raise TranslatorError("%s:%d: unknown associativity %r" % (G, line0, v))
            else:
                raise TranslatorError("%s:%d: unknown attribute #[%s(%s=..)] in InfixExpr" % (G, line0, a, k))
        if new_level is not None:
            level, assoc = new_level, "AAll"
        if new_assoc is not None:
            assoc = new_assoc
        if level is None:
            raise TranslatorError("%s:%d: InfixExpr alternative without precedence level: %r" % (G, line0, rest[:60]))
        n = _norm(rest)
        if n == "Applicative":
            if level != 0:
                raise TranslatorError("%s: Applicative is not at precedence level 0" % G)
            seen_applicative = True
            continue
        m = re.fullmatch(r"InfixBOpApp<(\w+),InfixExpr,InfixExpr>", n)
        if m:
            for tok, var in op_table(m.group(1)):
                binops.append((term_spelling(tok, m.group(1)), level, assoc, 'BOp "%s"' % disp_of(var, m.group(1))))
            continue
        m = re.fullmatch(r"InfixLazyBOpApp<(\w+),InfixExpr,InfixExpr>", n)
        if m:
            for tok, var in op_table(m.group(1)):
                binops.append((term_spelling(tok, m.group(1)), level, assoc, 'BLazy "%s"' % disp_of(var, m.group(1))))
            continue
        m = re.fullmatch(r"InfixUOpApp<(\w+),InfixExpr>", n)
        if m:
            for tok, var in op_table(m.group(1)):
                prefixops.append((term_spelling(tok, m.group(1)), level, assoc, 'PUnary "%s"' % disp_of(var, m.group(1))))
            continue
        if n == '"-"<AsTerm<InfixExpr>>=>UniTerm::from(primop_app!(alloc,PrimOp::Sub,alloc.number(Number::ZERO),<>))':
            prefixops.append((term_spelling("-", "unary minus"), level, assoc, "PNeg"))
            continue
        if n == '<t1:AsTerm<InfixExpr>>"|>"<t2:AsTerm<InfixExpr>>=>UniTerm::from(app!(alloc,t2,t1))':
            binops.append((term_spelling("|>", "InfixExpr"), level, assoc, "BRevApp"))
            continue
        if n == '<t1:AsTerm<InfixExpr>>"!="<t2:AsTerm<InfixExpr>>=>UniTerm::from(primop_app!(alloc,PrimOp::BoolNot,primop_app!(alloc,PrimOp::Eq,t1,t2),))':
            binops.append((term_spelling("!=", "InfixExpr"), level, assoc, "BNotEq"))
            continue
        if n == '<s:AsType<InfixExpr>>"->"<t:AsType<InfixExpr>>=>UniTerm::from(Type::from(TypeF::Arrow(alloc.alloc(s),alloc.alloc(t))))':
            binops.append((term_spelling("->", "InfixExpr"), level, assoc, "BArrow"))
            continue
        raise TranslatorError("%s:%d: cannot read InfixExpr alternative %r" % (G, line0, rest[:100]))
    if not seen_applicative:
        raise TranslatorError(G + ": InfixExpr has no Applicative alternative")
    for sp, lvl, asc, k in prefixops:
        if asc != "AAll":
            raise TranslatorError("%s: prefix operator %s has associativity %s (the model reads only the default)" % (G, sp, asc))
    max_level = max([b[1] for b in binops] + [p[1] for p in prefixops])

    # ---- grammar: prefix primops with their arity
    primops = []
    uop_body, uline = _block(g, r"\bUOp\s*:\s*PrimOp\s*=\s*\{", G)
    for alt in _split_top(uop_body):
        m = re.fullmatch(r'"((?:[^"\\]|\\.)*)"\s*=>\s*(PrimOp::[A-Za-z0-9_]+(?:\(.*\))?(?:\s*\{.*\})?)', alt, flags=re.S)
        if m:
            primops.append((term_spelling(m.group(1), "UOp"), disp_of(m.group(2), "UOp"), 1))
        elif alt.startswith('"enum/embed" <Ident>') or '"eval_nix"' in alt:
            continue      # %enum/embed% id e is modelled separately; eval_nix is feature-gated
        else:
            raise TranslatorError("%s:%d: cannot read UOp alternative %r" % (G, uline, alt[:60]))
    for tok, var in op_table("BOpPre"):
        primops.append((term_spelling(tok, "BOpPre"), disp_of(var, "BOpPre"), 2))
    nop_body, nline = _block(g, r"\bNOpPre<ArgRule>\s*:\s*UniTerm<'ast>\s*=\s*\{", G)
    for alt in _split_top(nop_body):
        m = re.fullmatch(r'"((?:[^"\\]|\\.)*)"((?:\s*<\w+:\s*ArgRule>)+)\s*=>\s*UniTerm::from\(primop_app!\(alloc,\s*(PrimOp::\w+),([\w\s,]*)\)\)', alt, flags=re.S)
        if not m:
            raise TranslatorError("%s:%d: cannot read NOpPre alternative %r" % (G, nline, alt[:60]))
        names = re.findall(r"<(\w+):\s*ArgRule>", m.group(2))
        used = [x.strip() for x in m.group(4).split(",") if x.strip()]
        if names != used:
            raise TranslatorError("%s:%d: NOpPre %s passes its arguments in a different order" % (G, nline, m.group(1)))
        primops.append((term_spelling(m.group(1), "NOpPre"), disp_of(m.group(3), "NOpPre"), len(names)))

    infix_names = []
    for v in infix_variants:
        infix_names.append(disp_of("PrimOp::" + v, "positioning"))
    postfix_names = []
    for v in postfix_variants:
        if v.startswith("RecordStatAccess"):
            continue
        postfix_names.append(disp_of("PrimOp::" + v, "positioning"))

    sha = hashlib.sha256("".join(raw[r] for r in (G, L, PO, PR)).encode()).hexdigest()[:16]
    return {
        "binops": binops, "prefixops": prefixops, "max_level": max_level, "primops": primops,
        "keywords": keywords, "op_spelling": op_spelling, "infix_ops": infix_names,
        "postfix_ops": postfix_names, "source_sha": sha, "display_source": display_source,
    }


def _cs(s):
    return '"' + s.replace('"', '""') + '"'


def render_coq(t):
    o = []
    o.append("(* GENERATED by checks/c14_gen.py from the working tree of the repository -- do not edit, do not commit.")
    o.append("   source hash %s *)" % t["source_sha"])
    o.append("From Coq Require Import String List.")
    o.append("From NV Require Import Surface.Ast Surface.Parse.")
    o.append("Import ListNotations.")
    o.append("Open Scope string_scope.")
    o.append("")
    o.append("Definition binops : list (string * (nat * assoc * bkind)) :=")
    o.append("  [ " + ";\n    ".join("(%s, (%d, %s, %s))" % (_cs(sp), lvl, a, k.replace('"', '"')) for sp, lvl, a, k in t["binops"]) + " ].")
    o.append("")
    o.append("Definition prefixops : list (string * (nat * pkind)) :=")
    o.append("  [ " + ";\n    ".join("(%s, (%d, %s))" % (_cs(sp), lvl, k) for sp, lvl, a, k in t["prefixops"]) + " ].")
    o.append("")
    o.append("Definition max_level : nat := %d." % t["max_level"])
    o.append("")
    o.append("Definition primops : list (string * (string * nat)) :=")
    o.append("  [ " + ";\n    ".join("(%s, (%s, %d))" % (_cs(sp), _cs(n), k) for sp, n, k in t["primops"]) + " ].")
    o.append("")
    o.append("Definition keywords : list string :=\n  [ " + "; ".join(_cs(k) for k in t["keywords"]) + " ].")
    o.append("")
    o.append("Definition op_spelling : list (string * string) :=")
    o.append("  [ " + ";\n    ".join("(%s, %s)" % (_cs(n), _cs(sp)) for n, sp in t["op_spelling"]) + " ].")
    o.append("")
    o.append("Definition infix_ops : list string :=\n  [ " + "; ".join(_cs(k) for k in t["infix_ops"]) + " ].")
    o.append("Definition postfix_ops : list string :=\n  [ " + "; ".join(_cs(k) for k in t["postfix_ops"]) + " ].")
    o.append("")
    return "\n".join(o)


if __name__ == "__main__":
    import json
    import sys
    t = read_tables(sys.argv[1] if len(sys.argv) > 1 else "/repo")
    print(render_coq(t))
