"""C10 — every input yields a result or a structured diagnostic, never a crash."""
import hashlib
import json
import os
import re
import tempfile

from vlib import core
from checks import c10_gen as gen
from checks import c10_sites

META = {
    "harness_bins": ["c10"],
    "extract": "C10.v",
    "technique": "Coq proofs of panic-freedom for modelled cores in which every unwrap / expect / panic! / assert! / unchecked subtraction / panicking library call of the mirrored Rust is an explicit Panic outcome (number primops, index arithmetic of string and array primops, the lexer's mode automaton, span arithmetic of error conversion, name generation for type errors), tied to the code by differential runs of the extracted models; a generated ledger of every panic-capable site of the functions mirrored by any model; the whole pipeline is only SAMPLED: every stage of the public API under catch_unwind in a worker subprocess (signal = crash) on grammar-generated programs, mutations of the repository's files and random bytes, with every diagnostic label checked against its file",
    "level_text": "proof (partial). PROVED in Coq for every input of the core (coq/Props/C10.v, 45 theorems, closed under the global context): "
                  "(a) number primops Div, Modulo, Pow (three-way split, for every float conversion and every powf), the f64-based unary ops, arctan2 and log never reach a panicking call of the arithmetic library: division by zero and zero to a negative power are structured errors; C10_pow_unguarded_panics_iff says exactly which inputs the guard of commit c4c4d42 excludes; "
                  "(b) index arithmetic: NickelString::substring (usize casts, checked subtraction), array/slice (the assertions of Slice::slice), array/at (get(n).unwrap()), array/generate never panic; the grapheme-index look-up of std.string.find/find_all as it was before commit c9daf53 is REFUTED (C10_find_all_index_panics_iff: exactly for a match starting at the end of the subject) and the current code is proved panic-free; "
                  "(c) the modal lexer's automaton (mode stack, brace counter, %-count arithmetic, one-token buffer) over arbitrary sequences of raw tokens: every input is consumed into tokens or structured lexical errors, none of the 11 panic sites of enter_*/leave_*/bufferize/... is reachable, the mode stack is never popped when empty or at the wrong mode (invariant: modes alternate); "
                  "(d) span arithmetic: every span built by ParseError::from_lexical / from_lalrpop, by the split of a candidate interpolation and by RawSpan::fuse lies within [0, len] with start <= end (sources < 4 GiB because of the u32 casts); the escape-sequence span of the code before 62096ac is REFUTED for char boundaries and the JSON/TOML error spans before fa9c5c0 are REFUTED for the range; the current conversions are proved (from_lexical_fixed; external_error_span: in range, on char boundaries, non-empty before EOF); "
                  "(e) NameReg::select_uniq (type error reporting) as it was before 26454e7 is REFUTED for termination (diverges when candidate and candidate1 are taken), the current loop terminates on every finite registry with a free name; pretty_print_cap before 03ad279 and the lone-carriage-return assertion before 4ff7631 are refuted with witnesses, the current code proved panic-free (these nine defects were found by this check and repaired in /repo: known_findings.txt); "
                  "(f) merge_fields' value selection by priority never reaches its unreachable!() arm (the hand-written == and > of MergePriority agree and are antisymmetric); (g) importing a TOML document never reaches the expect of number_from_float: check_floats visits every float the conversion visits, at any nesting of tables, arrays of tables, arrays and inline tables (C10_no_panic_toml_import; C10_toml_check_needs_inline_arm shows a walk without the inline-table arm is unsound); (h) the phase invariant relied on by the AST -> runtime conversion (core/src/ast/compat.rs LabeledType::from_ast panics on an annotation type without position): for both orders in which the grammar combines WithPos and fix_type_vars, the type delivered has a position because every node rebuilt by fix_type_vars keeps the position of the node it replaces (C10_no_panic_labeled_type; C10_rebuilt_type_needs_position shows a rebuilt enum node without it breaks exactly the record-field order); (i) the panic-site ledger: C10_sites_all_covered / C10_ledger_no_stale - each of the ~180 panic-capable sites (unwrap, expect, panic!, unreachable!, unimplemented!, assert!, debug_assert!, indexing, integer casts; for C10's own cores also unsigned subtractions and panicking library calls) in the functions mirrored by a model (vector, slice, resolve, version, lock, merge, contract_eq, nls world, eval stack, lazy thunks, lexer, parser error conversion, reporting, string primops, the modelled arms of operation.rs) is mapped to a theorem of coq/Crash (checked term), to a theorem of another property by name (existence checked), or to an explicit Unproved entry (a known-defect entry kind with a refuting lemma exists for reachable sites; none at present); the list is regenerated from /repo on every run and a site that appears, disappears or moves breaks the theorems. "
                  "NOT PROVED: crash-freedom of the whole pipeline over all byte strings. It is validated by sampling only: quick tier about 27 000 inputs incl. the deterministic matrices, thorough 12x the sampled streams by default (VERIF_C10_SCALE=60: about 300 000) (grammar-generated well-typed / ill-typed / ill-formed programs, token- and byte-level mutations of about 900 repository files, constructs nested 200 deep on an 8 MiB stack, random bytes incl. invalid UTF-8), each through lexing, strict and tolerant parsing, typechecking (both modes), evaluation with a step budget, export to every format, query, record-spine evaluation, pretty-printing and rendering of every error, in a worker process whose death by signal is a finding. Absence of findings there is not the universal claim.",
    "level_note": "Trusted: Coq kernel; extraction (ExtrOcamlBasic + ExtrOcamlNativeString); the hand-written models' reading of operation.rs, term/string.rs, lexer.rs, parser error.rs, reporting.rs (tied by differential runs: primop cores and the merge priority selection (quick: 1500 sampled cases; thorough: all 4808 combinations of the operand pools), lexer automaton 700/20000 sources step by step with raw tokens obtained independently from the logos sub-lexers, lexical-error and split spans against the parser's own errors, TOML import on 400/8000 generated toml_edit-shaped documents); the syntactic site translator; the harness (catch_unwind + supervisor; gdb only to name the repeating frames of a stack overflow or a hang). "
                  "Modelled, not verified: floats are abstract (theorems hold for every float function); logos regex matching, LALRPOP tables, malachite, serde/toml/saphyr, codespan rendering are not modelled; usize overflow of counters at 2^64 is out of reach of inputs that fit in memory and not modelled. "
                  "Delegated ledger entries rest on the other properties' theorems (C17, C18, C19, C20, C04, C16) by name. Not compiled into the harness: cargo features doc (markdown rendering; the evaluation part eval_record_spine is exercised), repl (query printing is reproduced by calling PrettyPrintCap as the CLI does), format, nix-experimental. "
                  "Resource exhaustion inside evaluation stages under the step budget (e.g. %pow% 2 1e12, array/generate 4e9) is counted in the evidence and not reported as a violation; in the parser and typechecker it is. The debug profile is deliberate (debug assertions and overflow checks are observed).",
}

EVAL_STAGES = ("eval", "export", "eval_full", "query", "query_field0", "query_field1", "query_field2", "doc_spine",
               "data_export", "data_import", "data_import_merge", "deserialize", "deserialize2")


# ----------------------------------------------------------------------------- running the pipeline

def c10bin():
    """the harness binary (C10_BIN: development aid, a build against a scratch copy of the repository)"""
    return os.environ.get("C10_BIN") or core.harness_bin("c10")


def case_line(fmt, data):
    return fmt + "\t" + data.hex()


def show_input(data, limit=400):
    try:
        s = data.decode("utf-8")
    except UnicodeDecodeError:
        return "hex:" + data[:limit].hex()
    return s[:limit]


def run_pipeline(lines, timeout=40, shards=None):
    """Supervisor (bin c10) over the case lines, sharded; returns the result lines in order."""
    exe = c10bin()
    # interleave so that slow classes are spread over the shards
    shards = shards or core.NPROC
    order = sorted(range(len(lines)), key=lambda i: (i % shards, i))
    inv = [0] * len(lines)
    for pos, i in enumerate(order):
        inv[i] = pos
    rc, out, err = core.run_sharded(exe, ["--timeout", str(timeout), "--mem-mb", "6144"], [lines[i] for i in order],
                                    shards=shards, timeout=6 * 3600)
    res, ms = [], []
    for i in range(len(lines)):
        t, _, r = out[inv[i]].partition("\t")
        if t.isdigit():
            res.append(r)
            ms.append(int(t))
        else:
            res.append(out[inv[i]])
            ms.append(0)
    run_pipeline.last_ms = ms
    return rc, res, err


def skey(key):
    """keys are matched against `known: property=C10 key=<no whitespace>` lines"""
    return re.sub(r"[^A-Za-z0-9_.:/+\-]+", "_", key).strip("_")


def norm_msg(s, n=70):
    s = re.sub(r"0x[0-9a-fA-F]+", "#", s)
    s = re.sub(r"\d+", "#", s)
    s = re.sub(r"\s+", " ", s).strip()
    return s[:n].strip()


def simplify_fn(name):
    name = re.sub(r"::h[0-9a-f]{16}$", "", name)
    m = re.match(r"^<(.+?) as (.+?)>::(\w+)$", name)
    if m:
        ty = re.sub(r"<.*$", "", m.group(1)).split("::")[-1]
        return "%s::%s" % (ty, m.group(3))
    name = re.sub(r"<[^<>]*>", "", name)
    name = re.sub(r"::\{\{closure\}\}", "", name)
    parts = [p for p in name.split("::") if p]
    return "::".join(parts[-2:])


_GDB_CACHE = {}


TYPE_TRAVERSAL = re.compile(r"^(TypeF|RecordRowsF|EnumRowsF|RecordRowF|EnumRowF|UnifType|UnifRecordRows|UnifEnumRows|UnifRecordRow|UnifEnumRow|"
                            r"AstAlloc|Type|RecordRows|EnumRows|RecordRow|EnumRow|reporting|typecheck|unif|Box)::|^to_type$|::to_type$|::clone$|::subst$")


def overflow_signature(line):
    """Re-run one crashing case under gdb and classify the unbounded recursion by the functions
    that repeat on top of the stack when the guard page is hit."""
    if line in _GDB_CACHE:
        return _GDB_CACHE[line]
    sig = "unknown"
    with tempfile.NamedTemporaryFile("w", suffix=".case", delete=False) as f:
        f.write(line + "\n")
        path = f.name
    try:
        rc, out = core.sh(["gdb", "-q", "-batch", "-ex", "set pagination off", "-ex", "set print thread-events off",
                           "-ex", "handle SIGSEGV stop nopass", "-ex", "run --worker < %s > /dev/null" % path,
                           "-ex", "bt 80", c10bin()], timeout=300)
        count = {}
        for m in re.finditer(r"^#\d+\s+(?:0x[0-9a-f]+ in )?(.+?) \(", out, flags=re.M):
            fn = m.group(1)
            if "nickel_lang" not in fn and "malachite" not in fn and "serde" not in fn and "toml" not in fn and "saphyr" not in fn:
                continue
            sfn = simplify_fn(fn)
            count[sfn] = count.get(sfn, 0) + 1
        cyc = sorted(k for k, v in count.items() if v >= 3)
        if cyc:
            if any("Thunk::eq" in k for k in cyc):
                sig = "thunk-eq"
            elif all(TYPE_TRAVERSAL.search(k) for k in cyc):
                sig = "infinite-type"
            else:
                sig = "+".join(cyc[:4])
    finally:
        os.unlink(path)
    _GDB_CACHE[line] = sig
    return sig


def hang_signature(line, wait=12):
    """Start a worker on one case, let it run, attach gdb and return the nickel frames the busy
    thread is in (intersection over three samples)."""
    import subprocess
    import time
    if ("hang", line) in _GDB_CACHE:
        return _GDB_CACHE[("hang", line)]
    sig = "unknown"
    p = subprocess.Popen([c10bin(), "--worker"], stdin=subprocess.PIPE, stdout=subprocess.DEVNULL, stderr=subprocess.DEVNULL)
    try:
        p.stdin.write((line + "\n").encode())
        p.stdin.flush()
        time.sleep(wait)
        samples = []
        for _ in range(8):
            if p.poll() is not None or len(samples) >= 3:
                break
            rc, out = core.sh(["gdb", "-q", "-batch", "-p", str(p.pid), "-ex", "set pagination off", "-ex", "thread apply all bt 40"], timeout=120)
            # the busy thread: the one with nickel frames; keep its innermost distinct nickel functions
            best = []
            for th in re.split(r"^Thread \d+ ", out, flags=re.M):
                fns = []
                for m in re.finditer(r"^#\d+\s+(?:0x[0-9a-f]+ in )?(.+?) \(", th, flags=re.M):
                    fn = m.group(1)
                    if "nickel_lang" in fn and "c10::" not in fn:
                        sfn = simplify_fn(fn)
                        if sfn not in fns:
                            fns.append(sfn)
                if len(fns) > len(best):
                    best = fns
            if best and not any("load_stdlib" in f or "parse_nickel" in f or "stdlib" in f for f in best):
                samples.append(set(best[:10]))
            time.sleep(3)
        if samples:
            common = set.intersection(*samples)
            common = {f for f in common if not re.match(r"^(Ident|Interner|InternerInner|LocIdent)::", f)}
            if common:
                sig = "+".join(sorted(common)[:6])
    finally:
        p.kill()
        p.wait()
    _GDB_CACHE[("hang", line)] = sig
    return sig


HUGE_LITERAL = re.compile(rb"[0-9][eE][+-]?[0-9]{6,}")


def findings_of(line, res, cls="", origin=""):
    """([(key, text)], stages dict, resource note) for one case result."""
    out = []
    stages = {}
    resource = None
    head, _, hx = line.partition("\t")
    fmt = head.split(",")[0]
    try:
        data = bytes.fromhex(hx)
    except ValueError:
        data = b""
    huge = bool(HUGE_LITERAL.search(data))
    if res.startswith("R "):
        try:
            j = json.loads(res[2:])
        except ValueError:
            return [("protocol:bad-json", "unparsable result line: " + res[:200])], {}, None
        stages = j.get("stages", {})
        for f in j.get("findings", []):
            kind, stage, detail = f["kind"], f["stage"], f["detail"]
            if kind == "panic":
                msg, _, loc = detail.rpartition(" @ ")
                base = re.sub(r":\d+$", "", loc)
                if "/registry/" in base:
                    base = re.sub(r"^.*/registry/src/[^/]+/", "", base)
                    base = re.sub(r"-\d+\.\d+[^/]*/", "/", base, count=1)
                elif re.search(r"/build/[^/]+-[0-9a-f]{16}/out/", base):
                    # a file generated by a build script (LALRPOP's grammar.rs): drop the target dir and cargo's hash
                    base = re.sub(r"^.*/build/([^/]+)-[0-9a-f]{16}/out/", r"generated/\1/", base)
                else:
                    base = re.sub(r"^.*?/(core|parser|vector|package|lsp|cli)/", r"\1/", base)
                out.append(("panic:%s:%s" % (base, norm_msg(msg, 60)), "%s panicked: %s" % (stage, detail)))
            elif kind == "span":
                reason = "exceeds" if "exceeds" in detail else "reversed" if "reversed" in detail else "char-boundary" if "char boundaries" in detail else "order"
                if fmt == "ncl" and not stage.endswith(("deserialize", "deserialize2")):
                    what = detail.split(":", 1)[0]
                    diag = detail.split("| diagnostic: ", 1)[1] if "| diagnostic: " in detail else what
                    out.append(("span:ncl:%s:%s" % (reason, norm_msg(diag.split(":")[0], 40)), "%s: %s" % (stage, detail)))
                else:
                    out.append(("span:%s:%s" % (fmt, reason), "%s: %s" % (stage, detail)))
            elif kind == "typelaw":
                out.append(("typelaw:" + norm_msg(detail.split(":")[0], 60), "%s: %s" % (stage, detail)))
            else:
                out.append(("%s:%s" % (kind, stage), "%s: %s" % (stage, detail)))
    elif res.startswith("CRASH "):
        j = json.loads(res[6:])
        stage, kind = j["stage"], j["kind"]
        if huge and kind != "stack-overflow":
            out.append(("resource:huge-number-literal", "a number literal with a huge exponent exhausts memory in stage %s (%s)" % (stage, j["stderr"][-120:].strip())))
        elif kind == "out-of-memory" and stage in EVAL_STAGES:
            resource = "oom:" + stage
        elif kind == "stack-overflow":
            if cls == "mutation:nest200":
                out.append(("nest200-overflow:%s" % origin, "native stack overflow at nesting depth 200 on an 8 MiB stack, stage %s" % stage))
            else:
                sig = overflow_signature(line)
                out.append(("overflow:%s" % sig, "native stack overflow (unbounded recursion) in stage %s; repeating frames: %s" % (stage, sig)))
        else:
            out.append(("crash:%s:%s" % (kind, stage), "worker died in stage %s: %s %s" % (stage, j["status"], j["stderr"][-200:])))
    elif res.startswith("TIMEOUT "):
        j = json.loads(res[8:])
        stage = j["stage"]
        if huge:
            out.append(("resource:huge-number-literal", "a number literal with a huge exponent: no answer within %ss in stage %s" % (j["seconds"], stage)))
        elif stage in EVAL_STAGES:
            resource = "timeout:" + stage
        else:
            sig = hang_signature(line)
            key = "hang:namereg-select-uniq" if "select_uniq" in sig else "hang:%s" % sig
            out.append((key, "no answer within %ss in stage %s (busy in: %s)" % (j["seconds"], stage, sig)))
    else:
        out.append(("protocol:missing", "no result line: " + res[:200]))
    return out, stages, resource


def outcome_class(v):
    if v.startswith("ok"):
        return "ok"
    if v.startswith("err:Eval:"):
        return v.split(":")[2]
    if v.startswith("err:"):
        return v.split(":")[1]
    return v.split(":")[0][:20]


def process(ck, cases, results, replay_mode=False):
    """cases: [(fmt, data, cls, origin)].  Registers cases, histograms and violations."""
    best = {}
    for (fmt, data, cls, origin), res in zip(cases, results):
        line = case_line(fmt, data)
        fs, stages, resource = findings_of(line, res, cls, origin)
        ck.case(key=hashlib.sha1(data).hexdigest(), nontrivial=len(data) > 0)
        ck.hist("class", cls)
        ck.hist("format", fmt.split(",")[0])
        if resource:
            ck.hist("resource_exhaustion_in_eval_stages (not a violation)", resource)
        for st, v in stages.items():
            ck.hist("stage:" + st, outcome_class(v))
        ck.count("stages_run", len(stages))
        if "parse_strict" in stages:
            ck.hist("ncl_by_class_parse", "%s:%s" % (":".join(cls.split(":")[:2]), "parsed" if stages["parse_strict"].startswith("ok") else "parse-error"))
        if "typecheck_strict" in stages:
            ck.hist("ncl_by_class_typecheck_strict", "%s:%s" % (":".join(cls.split(":")[:2]), outcome_class(stages["typecheck_strict"])))
        for key, text in fs:
            key = skey(key)
            ck.hist("findings_by_key", key)
            cur = best.get(key)
            if cur is None or len(data) < len(cur[1]):
                best[key] = (fmt, data, cls, origin, res, text)
    for key in sorted(best):
        fmt, data, cls, origin, res, text = best[key]
        ck.violation(key, "%s [witness class %s, origin %s, input %r]" % (text[:220], cls, origin, show_input(data, 120)),
                     {"case": case_line(fmt, data), "format": fmt, "class": cls, "origin": origin, "input": show_input(data, 4000),
                      "result": res[:3000], "how_to_replay": "./verif check C10 --replay <this file>"})
    return best


# ----------------------------------------------------------------------------- case generation

def corpus_cases():
    p = os.path.join(core.ROOT, "corpus", "C10")
    out = []
    if os.path.isdir(p):
        for f in sorted(os.listdir(p)):
            if not f.endswith(".case"):
                continue
            for l in open(os.path.join(p, f), encoding="utf-8"):
                l = l.rstrip("\n")
                if not l.strip() or l.startswith("#"):
                    continue
                fmt, _, body = l.partition("\t")
                if body.startswith("hex:"):
                    data = bytes.fromhex(body[4:])
                else:
                    data = body.encode().decode("unicode_escape").encode("latin-1") if False else _unesc(body)
                out.append((fmt, data, "corpus", f))
    return out


def _unesc(s):
    """`\\n`, `\\r`, `\\t`, `\\\\` escapes of .case files."""
    out = []
    i = 0
    while i < len(s):
        c = s[i]
        if c == "\\" and i + 1 < len(s):
            n = s[i + 1]
            out.append({"n": "\n", "r": "\r", "t": "\t", "\\": "\\"}.get(n, "\\" + n))
            i += 2
        else:
            out.append(c)
            i += 1
    return "".join(out).encode("utf-8")


def std_tables():
    """Primop names (from the lexer's token table) and std function paths (from the running stdlib)."""
    lex = open(os.path.join(core.REPO, "parser/src/lexer.rs"), errors="replace").read()
    prims = sorted(set(re.findall(r'#\[token\("(%[a-z_/0-9]+%)"\)\]', lex)))
    mods = ["array", "string", "number", "record", "contract", "enum", "function", "test"]
    progs = ["\tstd.record.fields std.%s" % m for m in mods] + ["\tstd.record.fields std"]
    rc, out, err = core.run_lines(c10bin(), ["eval"], progs, timeout=300)
    funs = []
    for m, l in zip(mods + [None], out):
        if not l.startswith("OK ["):
            continue
        names = re.findall(r'"([^"]+)"', l)
        for n in names:
            if re.match(r"^[a-z_][a-zA-Z0-9_]*$", n):
                funs.append("std.%s.%s" % (m, n) if m else "std.%s" % n)
    funs = [f for f in funs if f not in ("std.array", "std.string", "std.number", "std.record", "std.contract", "std.enum", "std.function", "std.test")]
    return prims, sorted(set(funs))


def nickel_string(text):
    out = ['"']
    for c in text:
        if c == "\\":
            out.append("\\\\")
        elif c == '"':
            out.append('\\"')
        elif c == "%":
            out.append("\\%")
        elif c == "\n":
            out.append("\\n")
        elif c == "\r":
            out.append("\\r")
        elif c == "\t":
            out.append("\\t")
        elif ord(c) < 0x20 or ord(c) == 0x7F:
            out.append("\\x%02x" % ord(c))
        else:
            out.append(c)
    out.append('"')
    return "".join(out)


def generate(ck, scale):
    """scale = 1 for the quick tier (about 5k inputs)."""
    rng = core.SplitMix64(ck.seed * 1000003 + 10)
    cases = []
    files = gen.corpus_files()
    ck.coverage["corpus_seed_files"] = len(files)
    prims, stdfuns = std_tables()
    ck.coverage["primops_listed"] = len(prims)
    ck.coverage["std_functions_listed"] = len(stdfuns)
    small = [f for f in files if len(f[2]) <= gen.MAX_SEED_FILE]
    big = [f for f in files if len(f[2]) > gen.MAX_SEED_FILE]

    # the repository's own files, unmodified (every run)
    every = 1 if scale >= 5 else 6          # quick tier: a sixth of the files, rotating with the seed
    for i, (fmt, rel, data) in enumerate(small):
        if i % every == ck.seed % every:
            cases.append((fmt, data, "corpus-original", rel))
    for fmt, rel, data in big:
        cases.append((fmt + ",light", data, "corpus-original:light", rel))

    def n(k):
        return int(k * scale)

    # (a) grammar
    for _ in range(n(550)):
        g = gen.G(rng.fork())
        cases.append(("ncl", g.program(rng.range(1, 4)).encode(), "grammar:well-typed", "G"))
    for _ in range(n(350)):
        g = gen.G(rng.fork(), bad=rng.choice([3, 8, 20]))
        p = g.program(rng.range(1, 4))
        if rng.chance(1, 2):
            t = g.rand_type(2)
            p = "(%s) : %s" % (p, g.ty_str(t))
        cases.append(("ncl", p.encode(), "grammar:ill-typed", "G-bad"))
    for _ in range(n(200)):
        cases.append(("ncl", gen.row_program(rng).encode(), "grammar:ill-typed:rows", "W"))
    for _ in range(n(350)):
        p = gen.primop_case(rng, prims, stdfuns)
        if rng.chance(1, 4):
            p = "(%s) : %s" % (p, rng.choice(["Number", "String", "Dyn", "Array Number", "{a : Number}", "forall a. a -> a"]))
        cases.append(("ncl,fuel=100000", p.encode(), "grammar:ill-typed:primop", "P"))
    for _ in range(n(500)):
        g = gen.G(rng.fork(), bad=rng.choice([0, 0, 5]))
        p, names = gen.mutate_tokens(rng, g.program(rng.range(1, 3)))
        cases.append(("ncl", p.encode(), "grammar:ill-formed", "G+" + "+".join(names)))

    # (a') grammar-generated well-formed data documents, edge scalars at every structural position
    for _ in range(n(450)):
        fmt = rng.choice(["toml", "toml", "yaml", "yaml", "json"])
        if fmt == "toml":
            doc = gen.TomlDoc(rng.fork(), rng.choice([5, 20, 40])).document(rng.range(1, 4))[0]
        elif fmt == "yaml":
            doc = gen.YamlDoc(rng.fork()).document(rng.range(1, 4))
        else:
            doc = gen.json_doc(rng, rng.range(1, 4))
        if rng.chance(1, 5):
            # the same document imported from a Nickel program
            prog = "std.deserialize '%s %s" % (fmt.capitalize(), nickel_string(doc))
            if rng.chance(1, 2):
                prog = "(%s) & {c10_extra_field = 1}" % prog
            cases.append(("ncl", prog.encode(), "grammar:data:" + fmt + ":deserialize", "D"))
        else:
            cases.append((fmt, doc.encode(), "grammar:data:" + fmt, "D"))

    # (b) mutations of the corpus
    for _ in range(n(1100)):
        fmt, rel, data = rng.choice(small)
        try:
            text = data.decode("utf-8")
        except UnicodeDecodeError:
            continue
        p, names = gen.mutate_tokens(rng, text, ncl=(fmt == "ncl"))
        cases.append((fmt, p.encode("utf-8", "surrogatepass") if False else p.encode("utf-8", "replace"), "mutation:token", rel + "+" + "+".join(names)))
    for _ in range(n(600)):
        fmt, rel, data = rng.choice(small)
        p, names = gen.mutate_bytes(rng, data)
        cases.append((fmt, p, "mutation:byte", rel + "+" + "+".join(names)))
    for _ in range(n(40)):
        fmt, rel, data = rng.choice(big)
        p, names = gen.mutate_bytes(rng, data) if rng.chance(1, 2) else (gen.mutate_tokens(rng, data.decode("utf-8", "replace"))[0].encode("utf-8", "replace"), ["token"])
        cases.append((fmt + ",light", p, "mutation:big-file:light", rel))
    # nesting 200 deep on the stack of the CLI's main thread (8 MiB)
    ncl_small = [f for f in small if f[0] == "ncl" and len(f[2]) < 2000]
    for name, mk in gen.NEST:
        for _ in range(max(1, n(2))):
            if rng.chance(1, 2):
                inner = "1"
            else:
                inner = rng.choice(ncl_small)[2].decode("utf-8", "replace")
            cases.append(("ncl,stack=8", mk(200, inner).encode(), "mutation:nest200", name))
    for fmt, kinds in gen.NEST_DATA.items():
        for name, mk in kinds:
            cases.append((fmt + ",stack=8", mk(200).encode(), "mutation:nest200", fmt + ":" + name))

    # (c) random
    for _ in range(n(150)):
        ln = rng.choice([0, 1, 2, 3, 8, 20, 60, 200])
        data = bytes(rng.below(256) for _ in range(ln))
        cases.append((rng.choice(["ncl", "ncl", "json", "yaml", "toml"]), data, "random:bytes", "R"))
    for _ in range(n(100)):
        ln = rng.choice([1, 3, 8, 20, 60, 200])
        data = bytes(rng.range(32, 126) if rng.chance(19, 20) else rng.choice([9, 10, 13]) for _ in range(ln))
        cases.append((rng.choice(["ncl", "ncl", "json", "yaml", "toml"]), data, "random:ascii", "R"))
    for _ in range(n(300)):
        cases.append(("ncl", gen.token_soup(rng, rng.range(1, 25)).encode(), "random:token-soup", "R"))
    for _ in range(n(180)):
        fmt = rng.choice(["json", "yaml", "toml"])
        cases.append((fmt, gen.data_soup(rng, fmt, rng.range(1, 20)).encode(), "random:data-soup", "R"))
    return cases


# ----------------------------------------------------------------------------- model correspondences

RATS = [("0", "0"), ("1", "1"), ("(-1)", "-1"), ("2", "2"), ("3", "3"), ("(-3)", "-3"), ("7", "7"), ("(-7)", "-7"), ("10", "10"),
        ("0.5", "1/2"), ("(-0.5)", "-1/2"), ("1.5", "3/2"), ("0.25", "1/4"), ("12.75", "51/4"), ("(-2.5)", "-5/2"), ("1e3", "1000"),
        ("1e-3", "1/1000"), ("1e20", "100000000000000000000"), ("0.1", "1/10"), ("100", "100")]
EXPS = RATS + [("63", "63"), ("(-64)", "-64"), ("9223372036854775807", "9223372036854775807"), ("9223372036854775808", "9223372036854775808"),
               ("(-9223372036854775808)", "-9223372036854775808"), ("(-9223372036854775809)", "-9223372036854775809"), ("1e30", "1" + "0" * 30)]
IDX = [("0", "0"), ("1", "1"), ("2", "2"), ("3", "3"), ("4", "4"), ("5", "5"), ("6", "6"), ("7", "7"), ("(-1)", "-1"), ("0.5", "1/2"), ("2.5", "5/2"),
       ("18446744073709551615", "18446744073709551615"), ("18446744073709551616", "18446744073709551616"), ("4294967296", "4294967296"),
       ("1e30", "1" + "0" * 30)]
LETTERS = "abcdefgh"


def big_exponent(base, e):
    """would the exact power be unreasonably large?  (2^(2^62) does not fit in memory)"""
    try:
        ev = abs(int(e))
    except ValueError:
        return False
    return ev > 64 and base not in ("0", "1", "-1")


def pick_idx(rng):
    """small indices most of the time (in-bounds cases), edge values otherwise"""
    return rng.choice(IDX[:7]) if rng.chance(7, 10) else rng.choice(IDX)


def ops_cases(rng, n):
    """[(model case, nickel program, kind)]"""
    out = []
    for _ in range(n):
        k = rng.weighted([("div", 3), ("mod", 3), ("pow", 5), ("substr", 5), ("slice", 5), ("at", 4), ("gen", 2), ("findall", 4), ("prio", 3), ("f64", 3)])
        if k == "f64":
            prog = rng.choice(["%%number/arccos%% %s", "%%number/arcsin%% %s", "%%number/arctan%% %s", "%%number/cos%% %s", "%%number/sin%% %s", "%%number/tan%% %s",
                               "%%number/log%% %s 10", "%%number/log%% %s 2", "%%number/log%% %s 0.5", "%%number/log%% 8 %s", "%%number/arctan2%% %s 0", "%%number/arctan2%% 0 %s",
                               "std.number.sqrt %s", "std.number.exp %s", "%%pow%% %s 0.5", "%%pow%% %s 1e30", "%%pow%% 1e30 %s"]) % rng.choice(RATS + EXPS[-6:])[0]
            out.append(("-", prog, k))
            continue
        if k == "prio":
            ps = [("| default", "B"), ("", "N"), ("| force", "T"), ("| priority 0", "0"), ("| priority 1", "1"), ("| priority -1", "-1"),
                  ("| priority 0.5", "1/2"), ("| priority -0.5", "-1/2"), ("| priority 1e20", "1" + "0" * 20), ("| priority 0.0", "0")]
            (a, qa), (b, qb) = rng.choice(ps), rng.choice(ps)
            out.append(("prio %s %s" % (qa, qb), "({x %s = 1} & {x %s = 2}).x" % (a, b), k))
            continue
        if k in ("div", "mod"):
            (a, qa), (b, qb) = rng.choice(RATS), rng.choice(RATS)
            out.append(("num %s %s %s" % (k, qa, qb), "%s %s %s" % (a, "/" if k == "div" else "%", b), k))
        elif k == "pow":
            (a, qa), (b, qb) = rng.choice(RATS), rng.choice(EXPS)
            if big_exponent(qa, qb):
                continue
            out.append(("num pow %s %s" % (qa, qb), "%%pow%% %s %s" % (a, b), k))
        elif k == "substr":
            n_ = rng.below(7)
            (a, qa), (b, qb) = pick_idx(rng), pick_idx(rng)
            out.append(("substr %d %s %s" % (n_, qa, qb), '%%string/substr%% "%s" %s %s' % (LETTERS[:n_], a, b), k))
        elif k == "slice":
            n_ = rng.below(6)
            (a, qa), (b, qb) = pick_idx(rng), pick_idx(rng)
            out.append(("slice %d %s %s" % (n_, qa, qb), "%%array/slice%% %s %s [%s]" % (a, b, ", ".join(str(i) for i in range(n_))), k))
        elif k == "at":
            n_ = rng.below(6)
            (a, qa) = pick_idx(rng)
            out.append(("at %d %s" % (n_, qa), "%%array/at%% [%s] %s" % (", ".join(str(i) for i in range(n_)), a), k))
        elif k == "gen":
            (a, qa) = rng.choice([x for x in IDX if x[1] in ("0", "1", "2", "5", "-1", "1/2", "5/2", "4294967296", "18446744073709551616", "1" + "0" * 30)])
            out.append(("gen %s" % qa, "%%array/length%% (%%array/generate%% %s (fun i => i))" % a, k))
        else:
            n_ = rng.below(5)
            subj = "abcd"[:n_]
            pat = rng.choice(["", "x*", "a", "c", "$", "^", "[a-c]", "y?"])
            starts = [m.start() for m in re.finditer(pat, subj)]
            out.append(("findall %d %s" % (n_, ".".join(str(x) for x in starts) or "-"), 'std.string.find_all "%s" "%s"' % (pat, subj), k))
    return out


class _Enum:
    """a stand-in for the PRNG that replays a fixed script of choices (for exhaustive enumeration)"""

    def __init__(self, script):
        self.script = list(script)

    def _next(self):
        return self.script.pop(0)

    def weighted(self, pairs):
        return self._next()

    def choice(self, xs):
        return self._next()

    def below(self, n):
        return self._next()

    def chance(self, a, b):
        return self._next()


def ops_cases_exhaustive():
    """every combination of the operand pools, per primop (thorough tier)"""
    out = []
    seen = set()

    def add(script):
        try:
            cs = ops_cases(_Enum(script), 1)
        except IndexError:
            return
        for c in cs:
            if c[:2] not in seen:
                seen.add(c[:2])
                out.append(c)
    for k in ("div", "mod"):
        for a in RATS:
            for b in RATS:
                add([k, a, b])
    for a in RATS:
        for b in EXPS:
            add(["pow", a, b])
    idx_all = [(False, i) for i in IDX]          # chance() -> False: choose from the whole pool
    for n_ in range(7):
        for a in IDX:
            for b in IDX:
                add(["substr", n_, False, a, False, b])
    for n_ in range(6):
        for a in IDX:
            for b in IDX:
                add(["slice", n_, False, a, False, b])
        for a in IDX:
            add(["at", n_, False, a])
    for a in [x for x in IDX if x[1] in ("0", "1", "2", "5", "-1", "1/2", "5/2", "4294967296", "18446744073709551616", "1" + "0" * 30)]:
        add(["gen", a])
    for n_ in range(5):
        for pat in ["", "x*", "a", "c", "$", "^", "[a-c]", "y?"]:
            add(["findall", n_, pat])
    ps = [("| default", "B"), ("", "N"), ("| force", "T"), ("| priority 0", "0"), ("| priority 1", "1"), ("| priority -1", "-1"),
          ("| priority 0.5", "1/2"), ("| priority -0.5", "-1/2"), ("| priority 1e20", "1" + "0" * 20), ("| priority 0.0", "0")]
    for a in ps:
        for b in ps:
            add(["prio", a, b])
    for tmpl in ["%%number/arccos%% %s", "%%number/arcsin%% %s", "%%number/arctan%% %s", "%%number/cos%% %s", "%%number/sin%% %s", "%%number/tan%% %s",
                 "%%number/log%% %s 10", "%%number/log%% %s 2", "%%number/log%% %s 0.5", "%%number/log%% 8 %s", "%%number/arctan2%% %s 0", "%%number/arctan2%% 0 %s",
                 "std.number.sqrt %s", "std.number.exp %s", "%%pow%% %s 0.5", "%%pow%% %s 1e30", "%%pow%% 1e30 %s"]:
        for v in RATS + EXPS[-6:]:
            add(["f64", tmpl, v])
    return out


def rust_ops_outcome(kind, line):
    """canonical view of the harness `eval` answer, comparable with the model's"""
    if line.startswith("ERR Panic"):
        return "PANIC"
    if line.startswith("ERR DivByZero"):
        return "ERR division by zero"
    if line.startswith("ERR"):
        return "ERR"
    body = line[3:]
    if kind in ("div", "mod", "pow"):
        return "VAL " + body
    if kind == "substr":
        m = re.match(r'^"(.*)"$', body)
        txt = m.group(1) if m else body
        return "VAL " + (".".join(str(LETTERS.index(c)) for c in txt) or "-")
    if kind == "slice":
        nums = re.findall(r"#(-?\d+)", body)
        return "VAL " + (".".join(nums) or "-")
    if kind == "prio":
        return {"#1": "VAL left", "#2": "VAL right"}.get(body, "VAL " + body)
    if kind in ("at", "gen"):
        return "VAL " + body.lstrip("#")
    if kind == "findall":
        return "VAL " + (".".join(re.findall(r'"index":#(\d+)', body)) or "-")
    return body


def correspond_ops(ck, exe_model, n):
    rng = core.SplitMix64(ck.seed * 1000003 + 1010)
    if n is None:
        cases = ops_cases_exhaustive()
        ck.coverage["ops_correspondence_exhaustive_over_pools"] = len(cases)
    else:
        cases = ops_cases(rng, n)
    rc1, mout, e1 = core.run_lines(exe_model, [], [c[0] if c[0] != "-" else "gen 0" for c in cases], timeout=1200)
    rc2, rout, e2, = core.run_sharded(c10bin(), ["eval"], ["\t" + c[1] for c in cases], timeout=3600)
    if rc1 or rc2:
        ck.obligation("correspondence-run:ops", "internal", False, "rc=%s/%s %s %s" % (rc1, rc2, e1, e2))
        return
    for (mc, prog, kind), m, r in zip(cases, mout, rout):
        ck.case(key="ops:" + mc, nontrivial=True)
        ck.hist("ops_correspondence", kind)
        rv = rust_ops_outcome(kind, r)
        if kind == "f64":
            # through f64: the model is parametric in the float functions; NaN / infinities must be
            # structured errors, anything else a value - never a panic
            ck.hist("ops_model_outcome", "f64:" + (rv.split(" ")[0] if rv.startswith(("ERR", "PANIC")) else "VAL"))
            if rv == "PANIC":
                ck.violation("panic:primop:f64", "float primop panicked: %s" % prog, {"case": case_line("ncl", prog.encode()), "input": prog, "impl": r})
            continue
        if kind == "findall":
            mo = re.match(r"orig=(.*) fixed=(.*)$", m)
            orig, fixed = mo.group(1), mo.group(2)
            ck.hist("ops_model_outcome", "findall:" + ("PANIC" if orig == "PANIC" else "VAL"))
            if rv == "PANIC":
                # direct oracle: the implementation panicked
                ck.violation(skey("panic:core/src/term/string.rs:We already know that `first_match.start()` occurs on a clust"),
                             "std.string.find_all panics (empty match at the end of the string): %s" % prog,
                             {"case": case_line("ncl", prog.encode()), "input": prog, "model": m, "impl": r})
                if orig != "PANIC":
                    ck.obligation("correspondence:find_all_index", "correspondence", False, "%s: impl panics, model (unchanged-tree version) says %s" % (prog, orig))
            elif rv != fixed:
                ck.obligation("correspondence:find_all_index", "correspondence", False, "%s: impl %s, model %s (before c9daf53: %s)" % (prog, rv, fixed, orig))
            continue
        mclass = m.split(" ")[0]
        ck.hist("ops_model_outcome", kind + ":" + mclass)
        if kind == "prio":
            # equal priorities: both values are merged, 1 & 2 is a (structured) non-mergeable error
            okp = (m == "VAL both" and r.startswith("ERR NonMergeable")) or (m == rv)
            if not okp:
                ck.obligation("correspondence:merge_fields-selection", "correspondence", False, "%s: model %s, impl %s" % (prog, m, r))
            continue
        if rv == "PANIC":
            ck.violation("panic:primop:" + kind, "primop panicked: %s" % prog, {"case": case_line("ncl", prog.encode()), "input": prog, "model": m, "impl": r})
            continue
        if m == "F64":
            continue            # through f64: any value or a structured error; only Panic is excluded
        if m.startswith("PANIC"):
            ck.obligation("correspondence:" + kind, "correspondence", False, "%s: model panics (%s), impl %s" % (prog, m, r))
        elif m.startswith("ERR"):
            ok = rv.startswith("ERR") and (("division by zero" in m) == (rv == "ERR division by zero"))
            if not ok:
                ck.obligation("correspondence:" + kind, "correspondence", False, "%s: model %s, impl %s" % (prog, m, r))
        elif m != rv:
            ck.obligation("correspondence:" + kind, "correspondence", False, "%s: model %s, impl %s (%s)" % (prog, m, rv, r))


def correspond_toml(ck, exe_model, n):
    """TOML import (check_floats + conversion): generated toml_edit-shaped documents, model vs the
    import of the rendered text as a main file."""
    rng = core.SplitMix64(ck.seed * 1000003 + 1012)
    docs = []
    for _ in range(n):
        t = gen.TomlDoc(rng.fork(), rng.choice([0, 8, 25]))
        docs.append(t.document(rng.range(1, 4)))
    rc1, mout, e1 = core.run_lines(exe_model, [], ["toml " + m for _, m in docs], timeout=600)
    rc2, rout, e2 = run_pipeline([case_line("toml,light", txt.encode()) for txt, _ in docs], timeout=60)
    if rc1 or rc2:
        ck.obligation("correspondence-run:toml", "internal", False, "rc=%s/%s %s %s" % (rc1, rc2, e1, e2[-500:]))
        return
    for (txt, tree), m, r in zip(docs, mout, rout):
        ck.case(key="toml:" + txt, nontrivial=len(tree) > 6)
        fs, stages, _ = findings_of(case_line("toml,light", txt.encode()), r)
        st = stages.get("data_export", r[:40])
        impl = "PANIC" if st == "PANIC" or not r.startswith("R ") else "VAL" if st.startswith("ok") else "ERR" if st.startswith("err:Parse") else st
        ck.hist("toml_correspondence", "%s/%s" % (m.split(" ")[0], impl))
        for key, text in fs:
            # direct oracle: the import panicked / crashed / produced a label outside the file
            ck.violation(skey(key), "%s [generated TOML document %r]" % (text[:220], txt[:160]),
                         {"case": case_line("toml", txt.encode()), "format": "toml", "class": "grammar:data:toml", "origin": "correspond_toml",
                          "input": txt, "model": m, "result": r[:2000]})
        if m != impl and not fs:
            ck.obligation("correspondence:toml-import", "correspondence", False, "model %s, impl %s (%s) on\n%s\ntree %s" % (m, impl, st, txt[:600], tree))


ESC_VALID = {39, 34, 92, 37, 110, 114, 116}


def trace_to_model(trace):
    """Rust lextrace line -> (model symbols, expected emits, final depth, error info, split checks)"""
    body, _, pe = trace.partition(" || ")
    syms, expect, depths = [], [], []
    lexerr = None
    splits = []
    items = body.split(" ") if body else []
    prev = None
    for it in items:
        parts = it.split("|")
        if len(parts) < 4:
            return None
        mode, raws, emitted, depth = parts[0], parts[1], parts[2], parts[3]
        raw_list = [r for r in raws.split(";") if r]
        last_span = None
        for r in raw_list:
            cls, _, sp = r.partition("@")
            if cls == "Buffered":
                syms.append("M:Buffered")
                continue
            if sp:
                a, _, b = sp.partition("-")
                last_span = (int(a), int(b))
            c = cls.split(":")
            if mode == "S" and c[0] == "EscChar":
                c = ["EscChar", "1" if int(c[1]) in ESC_VALID else "0"]
            elif mode == "S" and c[0] == "EscAscii":
                try:
                    c = ["EscAscii", "1" if int(c[1], 16) <= 0x7F else "0"]
                except ValueError:
                    c = ["EscAscii", "0"]
            elif mode == "M" and c[0] in ("Literal", "LiteralCR"):
                c = [c[0]]
            syms.append(mode + ":" + ":".join(c))
            if mode == "N" and c[0] == "Comment":
                expect.append("Again")
                depths.append(None)
        if emitted == "EOF":
            # comments (if any) were consumed, nothing else
            if raw_list and not raw_list[-1].startswith("Comment"):
                return None
            continue
        if raw_list and raw_list[-1].startswith("Comment"):
            return None
        cls, _, sp = emitted.partition("@")
        if cls.startswith("E."):
            name = cls[2:]
            lexerr = (name, sp, last_span)
            expect.append("E." + name)
        else:
            c = cls.split(":")
            if c[0] == "S.EscChar":
                expect.append("S.EscChar")
            elif c[0] == "M.Literal":
                expect.append(("M.Literal", c[1] if len(c) > 1 else None))
            else:
                expect.append(cls)
            if c[0] == "M.Literal" and raw_list and raw_list[-1].split(":")[0] in ("CandInterp", "QCandInterp") and sp and last_span:
                a, _, b = sp.partition("-")
                if (int(a), int(b)) != last_span:
                    prev = (last_span, (int(a), int(b)), len(expect) - 1)
            elif c[0] == "M.Interp" and prev and raw_list == ["Buffered"] and sp:
                a, _, b = sp.partition("-")
                splits.append((prev[0], prev[1], (int(a), int(b)), prev[2]))
                prev = None
        depths.append(int(depth))
    return syms, expect, depths, lexerr, splits, pe


def lexer_inputs(ck, n):
    rng = core.SplitMix64(ck.seed * 1000003 + 1011)
    files = [f for f in gen.corpus_files() if f[0] == "ncl" and len(f[2]) <= 6000]
    out = []
    for _, rel, data in files[::3]:
        out.append(data.decode("utf-8", "replace"))
    frag = ['"', 'm%"', '"%', 'm%%"', '"%%', "%{", "%%{", "}", "{", '"%{', '"%%{', "%", "%%", "\\n", "\\q", "\\x41", "\\xff", "\\x9", "\\é", "\\%", "\\\"", " ", "a", "# c\n", "x-s%\"", "'\"", "\n", "'m%\"", "\r", "\r\n", "1", "e", "'Tag"]
    while len(out) < n:
        c = rng.below(6)
        if c <= 2:
            out.append("".join(rng.choice(frag) for _ in range(rng.range(1, 14))))
        elif c == 3:
            g = gen.G(rng.fork())
            out.append(gen.mutate_tokens(rng, g.program(2))[0])
        elif c == 4:
            out.append(gen.mutate_tokens(rng, rng.choice(files)[2].decode("utf-8", "replace"))[0])
        else:
            out.append(gen.token_soup(rng, rng.range(1, 20)))
    return out[:n]


def correspond_lexer(ck, exe_model, n):
    texts = [t for t in lexer_inputs(ck, n)]
    rc, traces, err = core.run_sharded(c10bin(), ["lextrace"], [t.encode("utf-8", "replace").hex() for t in texts], timeout=3600)
    if rc:
        ck.obligation("correspondence-run:lextrace", "internal", False, "rc=%s %s" % (rc, err[-800:]))
        return
    model_lines, meta = [], []
    for text, tr in zip(texts, traces):
        if tr.startswith("PANIC"):
            # found by the pipeline as well; here it only means there is no trace to compare
            ck.hist("lexer_correspondence", "rust-panicked")
            continue
        if tr == "NOT-UTF8":
            continue
        t = trace_to_model(tr)
        if t is None:
            ck.obligation("correspondence:lexer-trace-format", "correspondence", False, "unparsable trace for %r: %s" % (text[:80], tr[:300]))
            continue
        syms, expect, depths, lexerr, splits, pe = t
        model_lines.append("lexv " + " ".join(syms))
        meta.append((text, tr, t))
    rc, mout, err = core.run_lines(exe_model, [], model_lines, timeout=1800)
    if rc:
        ck.obligation("correspondence-run:lexer-model", "internal", False, "rc=%s %s" % (rc, err[-800:]))
        return
    extra, extra_meta = [], []
    for (text, tr, (syms, expect, depths, lexerr, splits, pe)), m in zip(meta, mout):
        ck.case(key="lex:" + text, nontrivial=len(syms) > 3)
        ck.count("lexer_steps_compared", len(syms))
        if "PANIC" in m or "ERR " in m or m.startswith("DRIVER-ERROR"):
            ck.obligation("correspondence:lexer-automaton", "correspondence", False, "model fails on %r: %s" % (text[:80], m[:300]))
            continue
        steps = m.split(" ") if m else []
        if len(steps) != len(expect):
            ck.obligation("correspondence:lexer-automaton", "correspondence", False, "%r: %d model steps for %d expected\nrust  %s\nmodel %s" % (text[:80], len(steps), len(expect), tr[:400], m[:400]))
            continue
        bad = None
        for i, (st, ex, dp) in enumerate(zip(steps, expect, depths)):
            before, emit, depth = st.split("/")
            ck.hist("lexer_emits", emit.split(":")[0])
            if isinstance(ex, tuple):
                okk = emit.split(":")[0] == "M.Literal" and (":" not in emit or ex[1] is None or emit.split(":")[1] == ex[1])
            else:
                okk = emit == ex
            if not okk or (dp is not None and int(depth) != dp):
                bad = (i, st, ex, dp)
                break
        if bad:
            ck.obligation("correspondence:lexer-automaton", "correspondence", False, "%r: step %d model %s, rust %s depth %s\nrust  %s" % (text[:80], bad[0], bad[1], bad[2], bad[3], tr[:500]))
            continue
        # (d) spans: lexical error -> parse error, split of a candidate interpolation
        if lexerr and lexerr[2]:
            name, nums, tok = lexerr
            extra.append("lexerr %s %s %d %d" % (name, nums.replace("-", ".") or "-", tok[0], tok[1]))
            extra_meta.append(("lexerr", text, pe, name))
        for tok, lit, interp, idx in splits:
            before = steps[idx].split("/")[0]
            pc = before[1:].rstrip("b")
            extra.append("split %d %d %s" % (tok[0], tok[1], pc))
            extra_meta.append(("split", text, (lit, interp), None))
    if extra:
        rc, eout, err = core.run_lines(exe_model, [], extra, timeout=600)
        for (kind, text, obs, name), line, m in zip(extra_meta, extra, eout):
            ck.hist("span_correspondence", kind + (":" + name if name else ""))
            if kind == "lexerr":
                mo = re.match(r"orig=(.*) fixed=(.*)$", m)
                if not mo:
                    ck.obligation("correspondence:from_lexical", "correspondence", False, "%s -> %s" % (line, m))
                    continue
                pe_name, _, pe_nums = obs[3:].partition(" ")
                got = pe_nums.strip()
                if pe_name.strip() != {"Generic": "UnexpectedToken"}.get(name, name):
                    # a grammar action raised its own error before the parser pulled the offending token
                    ck.hist("span_correspondence", "parser-stopped-earlier")
                    continue
                if got != mo.group(2).replace(" ", "-"):
                    ck.obligation("correspondence:from_lexical", "correspondence", False, "%r: parser reports %s, model %s (%s)" % (text[:80], obs, m, line))
            else:
                lit, interp = obs
                exp = "%d-%d %d-%d" % (lit[0], lit[1], interp[0], interp[1])
                if m != exp:
                    ck.obligation("correspondence:split_spans", "correspondence", False, "%r: lexer spans %s, model %s (%s)" % (text[:80], exp, m, line))


# ----------------------------------------------------------------------------- annotation matrix

def run_matrix(ck):
    """Exhaustive cross product position x type shape x identifier kind (checks/c10_gen.py), every
    program through lex, strict parse, both typechecking modes, full evaluation with pretty-printing
    and query.  Programs are batched by position into one record literal; a batch that does not go
    through cleanly is re-run member by member, so nothing is masked."""
    matrix = gen.annotation_matrix()
    batches = gen.annotation_batches(matrix, 8)
    ck.coverage["annotation_matrix"] = {"programs": len(matrix), "positions": len(gen.ANNOT_POSITIONS), "type_shapes": len(gen.ANNOT_SHAPES),
                                        "identifier_kinds": len(gen.ANNOT_IDS), "batches": len(batches)}
    # a rotating sixteenth of the batches goes through the complete pipeline (tolerant parsers,
    # pprint-ast, export to every format, record spine ...), the rest through the lean one
    fmt_of = lambda i: "ncl" if i % 16 == ck.seed % 16 else "ncl,lean"
    rc, res, err = run_pipeline([case_line(fmt_of(i), gen.batch_program(b).encode()) for i, b in enumerate(batches)], timeout=90)
    if rc:
        ck.obligation("matrix-run", "internal", False, "rc=%s %s" % (rc, err[-800:]))
    singles = []
    for b, r in zip(batches, res):
        fs, st, _ = findings_of("ncl\t00", r) if r.startswith("R ") else ([("x", "x")], {}, None)
        clean = r.startswith("R ") and not fs and all(st.get(k, "").startswith("ok") for k in ("parse_strict", "typecheck_walk", "eval_full", "query")) \
            and not any(v == "PANIC" for v in st.values())
        if clean:
            for item in b:
                ck.case(key="matrix:" + item[0], nontrivial=True)
            ck.count("matrix_programs_clean_in_batch", len(b))
        else:
            singles += b
    # a rotating seventh of the matrix with a value that violates the annotation (diagnostics path)
    bad = gen.annotation_matrix(bad_every=7, seed=ck.seed)
    good_bodies = {x[0] for x in matrix}
    singles += [x for x in bad if x[0] not in good_bodies]
    ck.count("matrix_programs_run_individually", len(singles))
    cases = [("ncl,lean", (gen.ANNOT_PRELUDE + body).encode(), "matrix:%s" % pos, "%s/%s/%s" % (pos, shape, idk)) for body, pos, shape, idk in singles]
    rc, res, err = run_pipeline([case_line(f, d) for f, d, _, _ in cases], timeout=60)
    if rc:
        ck.obligation("matrix-run", "internal", False, "rc=%s %s" % (rc, err[-800:]))
    process(ck, cases, res)


# ----------------------------------------------------------------------------- multiline string layouts

def run_multiline(ck):
    """Exhaustive cross product of multiline-string layouts (checks/c10_gen.py multiline_matrix),
    batched 16 per program; a batch that does not go through cleanly is re-run member by member;
    every twentieth layout is also used under a failing contract so that a diagnostic spanning the
    multiline string is rendered."""
    m = gen.multiline_matrix()
    batches = gen.multiline_batches(m, 16)
    ck.coverage["multiline_layouts"] = {"layouts": len(m), "batches": len(batches)}
    fmt_of = lambda i: "ncl" if i % 8 == ck.seed % 8 else "ncl,lean"
    rc, res, err = run_pipeline([case_line(fmt_of(i), gen.multiline_program(b).encode()) for i, b in enumerate(batches)], timeout=90)
    if rc:
        ck.obligation("multiline-run", "internal", False, "rc=%s %s" % (rc, err[-800:]))
    singles = []
    for b, r in zip(batches, res):
        fs, st, _ = findings_of("ncl\t00", r) if r.startswith("R ") else ([("x", "x")], {}, None)
        clean = r.startswith("R ") and not fs and all(st.get(k, "").startswith("ok") for k in ("parse_strict", "typecheck_walk", "eval_full", "query")) \
            and not any(v == "PANIC" for v in st.values())
        if clean:
            for lit, d in b:
                ck.case(key="multiline:" + lit, nontrivial=True)
            ck.count("multiline_layouts_clean_in_batch", len(b))
        else:
            singles += [("ncl,lean", ('let x = "X" in ' + lit).encode(), "multiline", d) for lit, d in b]
    k0 = ck.seed % 20
    singles += [("ncl,errs", ('let x = "X" in (' + lit + " | Number)").encode(), "multiline:error", d) for i, (lit, d) in enumerate(m) if i % 20 == k0]
    ck.count("multiline_programs_run_individually", len(singles))
    rc, res, err = run_pipeline([case_line(f, d) for f, d, _, _ in singles], timeout=60)
    if rc:
        ck.obligation("multiline-run", "internal", False, "rc=%s %s" % (rc, err[-800:]))
    process(ck, singles, res)


# ----------------------------------------------------------------------------- type law, error matrix

def run_type_law(ck):
    """print_runtime(T) parses back with FixedTypeParser and printing is stable: the invariant that
    error rendering (error/mod.rs blame_error::path_span ... .unwrap()) relies on; a direct oracle."""
    cases = gen.type_law_cases()
    rc, out, err = core.run_sharded(c10bin(), ["typelaw"], [t.encode().hex() for t, _ in cases], timeout=1800)
    if rc:
        ck.obligation("typelaw-run", "internal", False, "rc=%s %s" % (rc, err[-800:]))
        return
    ck.coverage["type_law_cases"] = len(cases)
    for (t, d), r in zip(cases, out):
        ck.case(key="typelaw:" + t, nontrivial=True)
        ck.hist("type_law", r.split(" ")[0])
        if r.startswith(("FAIL", "PANIC")):
            ck.violation(skey("typelaw:" + norm_msg(r.split(" ", 1)[1].split(":")[0] if " " in r else r, 60)),
                         "printer/parser law broken for the type %r (%s): %s" % (t, d, r[:300]),
                         {"case": case_line("ncl", t.encode()), "format": "ncl", "class": "typelaw", "origin": d, "input": t, "result": r[:1000]})
        elif r == "NOTYPE":
            ck.obligation("typelaw:generated type does not parse", "correspondence", False, "%r (%s)" % (t, d))


def run_error_matrix(ck):
    """every type shape x every systematic static type error / every blame path and contract
    source; every program ends in an error that is rendered (text, colour, JSON) and whose labels
    are checked"""
    m = gen.error_matrix()
    ck.coverage["error_matrix"] = {"programs": len(m), "static_forms": len(gen.STATIC_ERRORS), "blame_sources": len(gen.BLAME_SOURCES)}
    cases = [("ncl,tcerrs" if fam == "static" else "ncl,errs", (gen.ANNOT_PRELUDE + body).encode(), "errors:%s:%s" % (fam, form), "%s/%s/%s" % (form, shape, idk)) for body, fam, form, shape, idk in m]
    rc, res, err = run_pipeline([case_line(f, d) for f, d, _, _ in cases], timeout=60)
    if rc:
        ck.obligation("error-matrix-run", "internal", False, "rc=%s %s" % (rc, err[-800:]))
    best = process(ck, cases, res)
    # the matrix is meant to produce errors: count what came out
    for (f, d, cls, origin), r in zip(cases, res):
        _, st, _ = findings_of(case_line(f, d), r, cls, origin) if False else (None, json.loads(r[2:]).get("stages", {}) if r.startswith("R ") else {}, None)
        fam = cls.split(":")[1]
        tw, ev = outcome_class(st.get("typecheck_walk", "-")), outcome_class(st.get("eval_full", "-"))
        if fam == "static" and tw == "ok":
            ck.hist("error_matrix_static_forms_that_typecheck", origin.split("/")[0])
        ck.hist("error_matrix_outcomes", "%s:%s" % (fam, tw if tw != "ok" else "eval:" + ev))


# ----------------------------------------------------------------------------- the ledger

def ledger_obligations(ck):
    """Site list vs committed ledger (in Python, for a readable message; the Coq theorems are what
    counts), delegated theorem names, statistics."""
    sites = c10_sites.write_gen()
    src = open(os.path.join(core.COQ, "Crash", "Ledger.v")).read()
    body = src[src.index("Definition ledger"):src.index("Definition keys_of")]
    keys = re.findall(r'^  \("((?:[^"]|"")*)",\s*\n\s+(\w+)', body, flags=re.M)
    lk = [k.replace('""', '"') for k, _ in keys]
    sk = [k for k, _ in sites]
    appeared = [k for k in sk if k not in set(lk)]
    gone = [k for k in lk if k not in set(sk)]
    ck.obligation("ledger: every panic-capable site of the mirrored functions is in the committed ledger and conversely (%d sites)" % len(sk),
                  "translator", not appeared and not gone,
                  ("appeared: %s\ndisappeared: %s" % (appeared[:20], gone[:20])) if (appeared or gone) else "")
    kinds = {}
    for _, c in keys:
        kinds[c] = kinds.get(c, 0) + 1
    ck.coverage["ledger_entries_by_coverage"] = kinds
    ck.coverage["panic_sites_by_file"] = {}
    for k in sk:
        f = k.split("::", 1)[0]
        ck.coverage["panic_sites_by_file"][f] = ck.coverage["panic_sites_by_file"].get(f, 0) + 1
    missing = []
    for pid, thm in sorted(set(re.findall(r'Delegated "(\w+)" "(\w+)"', body))):
        pf = os.path.join(core.COQ, "Props", pid + ".v")
        txt = core.strip_coq_comments(open(pf).read()) if os.path.exists(pf) else ""
        if not re.search(r"\bTheorem\s+%s\b" % re.escape(thm), txt):
            missing.append("%s.%s" % (pid, thm))
    ck.obligation("ledger: delegated theorems are still stated in coq/Props", "translator", not missing, "missing: " + ", ".join(missing))
    return appeared, gone


def setup_gen():
    c10_sites.write_gen()


# ----------------------------------------------------------------------------- entry points

def run(ck):
    ok_h = ck.harness(["c10"])
    appeared, gone = ledger_obligations(ck)
    ck.coq("Props.C10", clean=False)
    exe_model = ck.model("C10.v")
    if not ok_h:
        return
    quick = ck.tier == "quick"
    # thorough: 12x the quick sample sizes by default (about 1 h on 16 idle cores since the deterministic matrices were
    # added); VERIF_C10_SCALE=60 gives the original 300 000-input soak (several hours)
    scale = 1 if quick else int(os.environ.get("VERIF_C10_SCALE", "12"))
    if os.environ.get("C10_SCALE"):      # development aid only
        scale = float(os.environ["C10_SCALE"])
    if exe_model:
        n_ops, n_lex = (1500, 700) if quick else (None, 20000)      # thorough: every combination of the operand pools
        if scale < 1:
            n_ops, n_lex = int((n_ops or 5000) * scale), int(n_lex * scale)
        correspond_ops(ck, exe_model, n_ops)
        correspond_lexer(ck, exe_model, n_lex)
        correspond_toml(ck, exe_model, int((400 if quick else 8000) * min(scale, 1)) if scale < 1 else (400 if quick else 8000))
    run_matrix(ck)
    run_multiline(ck)
    run_type_law(ck)
    run_error_matrix(ck)
    cor = corpus_cases()
    focus = 2 if (appeared or gone) else 1      # a ledger mismatch widens the search
    cases = cor + generate(ck, scale * focus)
    ck.coverage["corpus_cases"] = len(cor)
    ck.log("pipeline: %d inputs" % len(cases))
    lines = [case_line(f, d) for f, d, _, _ in cases]
    rc, results, err = run_pipeline(lines, timeout=40 if quick else 90)
    if rc:
        ck.obligation("pipeline-run", "internal", False, "rc=%s %s" % (rc, err[-1500:]))
    process(ck, cases, results)
    ms = run_pipeline.last_ms
    bycls = {}
    for (fmt, data, cls, origin), t in zip(cases, ms):
        a = bycls.setdefault(cls, [0, 0, 0])
        a[0] += 1
        a[1] += t
        a[2] = max(a[2], t)
    ck.coverage["time_per_class_ms (count, total, max)"] = bycls
    for (fmt, data, cls, origin), res in list(zip(cases, results))[:6]:
        ck.sample({"class": cls, "format": fmt, "input": show_input(data, 160), "result": res[:300]})
    ck.coverage["pipeline_inputs"] = len(cases)
    ck.coverage["rule"] = (
        "pipeline inputs (one SplitMix64 stream from VERIF_SEED): corpus/C10 witnesses; the repository's own .ncl/.json/.yaml/.toml files and the "
        "```nickel blocks of doc/**/*.md unmodified (quick: a sample); (a) grammar-generated Nickel programs: well-typed (typed generator over "
        "numbers, strings with interpolation and multiline strings, booleans, enums, arrays, records with metadata, let/fun/if/match, annotations, std calls), "
        "grammar-generated well-formed JSON / YAML / TOML documents with edge scalars (inf, nan, huge and odd numbers, dates, tags, anchors and aliases, merge keys, non-ASCII and empty keys) at every structural position (tables, dotted keys, inline tables, arrays, arrays of tables, inline tables inside arrays ...), as main file, through a real file import and through std.deserialize; "
        "an exhaustive annotation matrix (every position where the grammar allows an annotation or a type: let, let rec, let blocks, inline | and :, record fields with |, :, both, without definition, piecewise, paths, quoted and dynamic names, every metadata combination, include, patterns in let / fun / match with defaults and sub-patterns, record types and contracts, types as values, function bodies, array elements, match arms ... x every type shape: identifiers, arrays, arrows, the three kinds of forall, enums with payloads, records with and without tails, both dictionary flavours, nested x every identifier kind inside types: builtin, let-bound alias, let-bound contract, field-bound, std path, record access, application; about 7300 programs, batched by position, each through lex, parse, both typechecking modes, full evaluation with pretty-printing and query, plus a rotating seventh with values violating the annotation); "
        "an exhaustive matrix of multiline-string layouts (up to three lines x indentation 0/2/4 x text / interpolation at the start of the line / after text / blank / whitespace-only lines x line break after the opening and before the closing delimiter, with delimiter length, CRLF, tabs, nested and multiline interpolated expressions rotating; about 3800 layouts, batched; every twentieth also under a failing contract so that a diagnostic spanning the string is rendered); "
        "an error matrix (every type shape x 21 systematic static type errors with the shape on the expected and on the inferred side: arrow domain / codomain / nested / arity mismatches, plain mismatches, missing / extra / mismatching record and enum rows, array and dictionary element mismatches, rigid type variables, record-to-dictionary; and x run-time blame errors violating each path of the shape, the contract reaching the value through 16 kinds of source: inline, let, field, let-bound / record-stored / function-made type, std.contract.apply, wrapped in an array, dictionary, enum payload, arrow domain or codomain, record type, pattern; about 2200 programs, each ending in an error that is rendered as text with and without colour and as JSON, labels checked); the printer / parser law on about 5000 types (every shape in every type context, composed twice): the runtime printer's output parses back with FixedTypeParser and is stable; "
        "ill-typed (same skeleton with sub-terms of another type, wrong annotations, every %primop% of the lexer's token table and every function of "
        "std.{array,string,number,record,contract,enum,function} applied to a pool of edge values), ill-formed (token-level damage of generated programs); "
        "(b) token-level mutations (delete/duplicate/swap/replace/insert tokens, unbalance brackets, change string delimiters, insert %{ and }, edge number "
        "literals, control/non-ASCII characters) and byte-level mutations (bit flips, inserts, deletes, truncation, invalid UTF-8, control bytes) of the corpus "
        "files; 23 constructs nested 200 deep on an 8 MiB stack (the CLI's main thread) plus nested JSON/YAML/TOML documents; (c) random bytes, random ASCII, "
        "random token soup, random JSON/YAML/TOML token soup. Every input goes through lex, strict and error-tolerant parsing (term, REPL, type, field-path and "
        "CLI-assignment parsers), pprint-ast, strict and walk typechecking, eval / eval_full / eval_full_for_export under the H1 step budget, serialisation to "
        "JSON/YAML/YAML-documents/TOML/text, query (root and the first three fields, with the CLI's pretty_print_cap), eval_record_spine (the evaluation part of "
        "doc extraction), pretty-printing of ASTs and values, and every error is converted to diagnostics whose labels are checked against their files and "
        "rendered as text and JSON; data formats go through import, typecheck and std.deserialize. non-trivial = non-empty input; distinct by content hash.")
    ck.coverage["partial"] = ("whole-pipeline crash-freedom over all byte strings is sampled, not proved; not compiled into the harness: features doc (markdown rendering of "
                              "extracted documentation; its evaluation part eval_record_spine is run), repl (query printing is reproduced with PrettyPrintCap), format, nix-experimental; "
                              "resource exhaustion inside evaluation stages (time-outs / out of memory under the step budget, e.g. %pow% 2 1e12, array/generate 4e9) is counted, not reported as a violation")
    ck.trusted += ["extraction: ExtrOcamlBasic + ExtrOcamlNativeString only", "harness bin c10 (supervisor/worker, catch_unwind, gdb for stack signatures)",
                   "generators checks/c10_gen.py, site translator checks/c10_sites.py (syntactic)"]
    ck.assumptions += ["floats are abstract in the number-primop theorems (they hold for every float function)", "logos regex matching is not modelled: the lexer automaton takes the raw tokens as input",
                       "sources shorter than 4 GiB (span casts to u32)"]
    ck.log("classes: %s" % ck.stats.get("class"))
    ck.log("findings: %s" % ck.stats.get("findings_by_key"))
    ck.log("resource: %s" % ck.stats.get("resource_exhaustion_in_eval_stages (not a violation)"))
    ck.log("time per class (n, total ms, max ms): %s" % bycls)


def replay(ck, path):
    if path.endswith(".case"):
        cases = []
        for l in open(path, encoding="utf-8"):
            l = l.rstrip("\n")
            if l.strip() and not l.startswith("#"):
                fmt, _, body = l.partition("\t")
                cases.append((fmt, bytes.fromhex(body[4:]) if body.startswith("hex:") else _unesc(body), "replay", path))
    else:
        obj = json.load(open(path))
        if "case" not in obj:
            ck.log("nothing to replay in " + path + " (no concrete input: " + str(obj.get("what", ""))[:200] + ")")
            return
        fmt, _, hx = obj["case"].partition("\t")
        cases = [(fmt, bytes.fromhex(hx), obj.get("class", "replay"), obj.get("origin", path))]
    if not ck.harness(["c10"]):
        return
    rc, results, err = run_pipeline([case_line(f, d) for f, d, _, _ in cases], timeout=120, shards=1)
    for c, r in zip(cases, results):
        ck.log("replay %r -> %s" % (show_input(c[1], 200), r[:1500]))
    process(ck, cases, results, replay_mode=True)
