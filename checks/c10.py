"""C10 — every input yields a result or a structured diagnostic, never a crash."""
import hashlib
import json
import os
import re
import tempfile

from vlib import core
from checks import c10_gen as gen

META = {
    "harness_bins": ["c10"],
    "extract": "C10.v",
    "claimed": False,
    "technique": "Coq proofs of panic-freedom for modelled cores (number primops, index arithmetic of string/array primops, the lexer mode automaton, span arithmetic) with every unwrap/expect/panic!/slice/cast of the mirrored Rust an explicit Panic outcome; a generated panic-site ledger over all functions mirrored by any model; the whole pipeline is only sampled: every stage of the public API under catch_unwind in a worker subprocess on grammar-generated programs, corpus mutations and random bytes",
    "level_text": "proof (partial). (filled in when the theorems are in)",
    "level_note": "(filled in when the theorems are in)",
}

EVAL_STAGES = ("eval", "export", "eval_full", "query", "query_field0", "query_field1", "query_field2", "doc_spine",
               "data_export", "deserialize", "deserialize2")


# ----------------------------------------------------------------------------- running the pipeline

def case_line(fmt, data):
    return fmt + "\t" + data.hex()


def show_input(data, limit=400):
    try:
        s = data.decode("utf-8")
    except UnicodeDecodeError:
        return "hex:" + data[:limit].hex()
    return s[:limit]


def run_pipeline(lines, timeout=40, shards=None):
    """Supervisor (bin c10) over the case lines, sharded; returns the result lines in order."""
    exe = core.harness_bin("c10")
    # interleave so that slow classes are spread over the shards
    shards = shards or core.NPROC
    order = sorted(range(len(lines)), key=lambda i: (i % shards, i))
    inv = [0] * len(lines)
    for pos, i in enumerate(order):
        inv[i] = pos
    rc, out, err = core.run_sharded(exe, ["--timeout", str(timeout), "--mem-mb", "6144"], [lines[i] for i in order],
                                    shards=shards, timeout=6 * 3600)
    res, ms = [], []
    for i in range(len(lines)):
        t, _, r = out[inv[i]].partition("\t")
        if t.isdigit():
            res.append(r)
            ms.append(int(t))
        else:
            res.append(out[inv[i]])
            ms.append(0)
    run_pipeline.last_ms = ms
    return rc, res, err


def norm_msg(s, n=70):
    s = re.sub(r"0x[0-9a-fA-F]+", "#", s)
    s = re.sub(r"\d+", "#", s)
    s = re.sub(r"\s+", " ", s).strip()
    return s[:n].strip()


def simplify_fn(name):
    name = re.sub(r"::h[0-9a-f]{16}$", "", name)
    m = re.match(r"^<(.+?) as (.+?)>::(\w+)$", name)
    if m:
        ty = re.sub(r"<.*$", "", m.group(1)).split("::")[-1]
        return "%s::%s" % (ty, m.group(3))
    name = re.sub(r"<[^<>]*>", "", name)
    name = re.sub(r"::\{\{closure\}\}", "", name)
    parts = [p for p in name.split("::") if p]
    return "::".join(parts[-2:])


_GDB_CACHE = {}


def overflow_signature(line):
    """Re-run one crashing case under gdb and return a signature made of the functions on top of
    the stack when the guard page is hit (set of distinct nickel frames among the top 60)."""
    if line in _GDB_CACHE:
        return _GDB_CACHE[line]
    sig = "unknown"
    with tempfile.NamedTemporaryFile("w", suffix=".case", delete=False) as f:
        f.write(line + "\n")
        path = f.name
    try:
        rc, out = core.sh(["gdb", "-q", "-batch", "-ex", "set pagination off", "-ex", "set print thread-events off",
                           "-ex", "handle SIGSEGV stop nopass", "-ex", "run --worker < %s > /dev/null" % path,
                           "-ex", "bt 60", core.harness_bin("c10")], timeout=300)
        fns = []
        for m in re.finditer(r"^#\d+\s+(?:0x[0-9a-f]+ in )?(.+?) \(", out, flags=re.M):
            fn = m.group(1)
            if "nickel_lang" not in fn and "malachite" not in fn and "serde" not in fn and "toml" not in fn and "saphyr" not in fn:
                continue
            s = simplify_fn(fn)
            if s not in fns:
                fns.append(s)
        if fns:
            sig = "+".join(sorted(fns)[:5])
    finally:
        os.unlink(path)
    _GDB_CACHE[line] = sig
    return sig


def hang_signature(line, wait=12):
    """Start a worker on one case, let it run, attach gdb and return the nickel frames the busy
    thread is in (intersection over three samples)."""
    import subprocess
    import time
    if ("hang", line) in _GDB_CACHE:
        return _GDB_CACHE[("hang", line)]
    sig = "unknown"
    p = subprocess.Popen([core.harness_bin("c10"), "--worker"], stdin=subprocess.PIPE, stdout=subprocess.DEVNULL, stderr=subprocess.DEVNULL)
    try:
        p.stdin.write((line + "\n").encode())
        p.stdin.flush()
        time.sleep(wait)
        samples = []
        for _ in range(3):
            if p.poll() is not None:
                break
            rc, out = core.sh(["gdb", "-q", "-batch", "-p", str(p.pid), "-ex", "set pagination off", "-ex", "thread apply all bt 40"], timeout=120)
            fns = set()
            for m in re.finditer(r"^#\d+\s+(?:0x[0-9a-f]+ in )?(.+?) \(", out, flags=re.M):
                fn = m.group(1)
                if "nickel_lang" in fn and "c10::" not in fn:
                    fns.add(simplify_fn(fn))
            if fns:
                samples.append(fns)
            time.sleep(1.5)
        if samples:
            common = set.intersection(*samples)
            common = {f for f in common if not f.startswith("Program") and "prog_stage" not in f}
            if common:
                sig = "+".join(sorted(common)[:5])
    finally:
        p.kill()
        p.wait()
    _GDB_CACHE[("hang", line)] = sig
    return sig


def findings_of(line, res):
    """[(key, text)] for one case result; also returns (stages dict, resource note)."""
    out = []
    stages = {}
    resource = None
    if res.startswith("R "):
        try:
            j = json.loads(res[2:])
        except ValueError:
            return [("protocol:bad-json", "unparsable result line: " + res[:200])], {}, None
        stages = j.get("stages", {})
        fmt = line.split("\t", 1)[0].split(",")[0]
        for f in j.get("findings", []):
            kind, stage, detail = f["kind"], f["stage"], f["detail"]
            if kind == "panic":
                msg, _, loc = detail.rpartition(" @ ")
                base = re.sub(r":\d+$", "", loc)
                base = re.sub(r"^.*/(registry/src/[^/]+/)?", "", base) if "/registry/" in base else re.sub(r"^/repo/", "", base)
                out.append(("panic:%s:%s" % (base, norm_msg(msg, 60)), "%s panicked: %s" % (stage, detail)))
            elif kind == "span":
                reason = "exceeds" if "exceeds" in detail else "reversed" if "reversed" in detail else "char-boundary" if "char boundaries" in detail else "order"
                what = detail.split(":", 1)[0]
                diag = detail.split("| diagnostic: ", 1)[1] if "| diagnostic: " in detail else what
                diag = norm_msg(diag.split(":")[0], 40)
                out.append(("span:%s:%s:%s" % (fmt, reason, diag), "%s: %s" % (stage, detail)))
            else:
                out.append(("%s:%s" % (kind, stage), "%s: %s" % (stage, detail)))
    elif res.startswith("CRASH "):
        j = json.loads(res[6:])
        stage, kind = j["stage"], j["kind"]
        if kind == "out-of-memory" and stage in EVAL_STAGES:
            resource = "oom:" + stage
        elif kind == "stack-overflow":
            sig = overflow_signature(line)
            out.append(("overflow:%s" % sig, "native stack overflow in stage %s (top frames: %s)" % (stage, sig)))
        else:
            out.append(("crash:%s:%s" % (kind, stage), "worker died in stage %s: %s %s" % (stage, j["status"], j["stderr"][-200:])))
    elif res.startswith("TIMEOUT "):
        j = json.loads(res[8:])
        stage = j["stage"]
        if stage in EVAL_STAGES:
            resource = "timeout:" + stage
        else:
            sig = hang_signature(line)
            out.append(("hang:%s:%s" % (stage, sig), "no answer within %ss in stage %s (busy in: %s)" % (j["seconds"], stage, sig)))
    else:
        out.append(("protocol:missing", "no result line: " + res[:200]))
    return out, stages, resource


def outcome_class(v):
    if v.startswith("ok"):
        return "ok"
    if v.startswith("err:Eval:"):
        return v.split(":")[2]
    if v.startswith("err:"):
        return v.split(":")[1]
    return v.split(":")[0][:20]


def process(ck, cases, results, replay_mode=False):
    """cases: [(fmt, data, cls, origin)].  Registers cases, histograms and violations."""
    best = {}
    for (fmt, data, cls, origin), res in zip(cases, results):
        line = case_line(fmt, data)
        fs, stages, resource = findings_of(line, res)
        ck.case(key=hashlib.sha1(data).hexdigest(), nontrivial=len(data) > 0)
        ck.hist("class", cls)
        ck.hist("format", fmt.split(",")[0])
        if resource:
            ck.hist("resource_exhaustion_in_eval_stages (not a violation)", resource)
        for st, v in stages.items():
            ck.hist("stage:" + st, outcome_class(v))
        ck.count("stages_run", len(stages))
        if "parse_strict" in stages:
            ck.hist("ncl_by_class_parse", "%s:%s" % (cls.split(":")[0], "parsed" if stages["parse_strict"].startswith("ok") else "parse-error"))
        if "typecheck_strict" in stages:
            ck.hist("ncl_by_class_typecheck_strict", "%s:%s" % (cls.split(":")[0], outcome_class(stages["typecheck_strict"])))
        for key, text in fs:
            ck.hist("findings_by_key", key)
            cur = best.get(key)
            if cur is None or len(data) < len(cur[1]):
                best[key] = (fmt, data, cls, origin, res, text)
    for key in sorted(best):
        fmt, data, cls, origin, res, text = best[key]
        ck.violation(key, "%s [witness class %s, origin %s, input %r]" % (text[:220], cls, origin, show_input(data, 120)),
                     {"case": case_line(fmt, data), "format": fmt, "class": cls, "origin": origin, "input": show_input(data, 4000),
                      "result": res[:3000], "how_to_replay": "./verif check C10 --replay <this file>"})
    return best


# ----------------------------------------------------------------------------- case generation

def corpus_cases():
    p = os.path.join(core.ROOT, "corpus", "C10")
    out = []
    if os.path.isdir(p):
        for f in sorted(os.listdir(p)):
            if not f.endswith(".case"):
                continue
            for l in open(os.path.join(p, f), encoding="utf-8"):
                l = l.rstrip("\n")
                if not l.strip() or l.startswith("#"):
                    continue
                fmt, _, body = l.partition("\t")
                if body.startswith("hex:"):
                    data = bytes.fromhex(body[4:])
                else:
                    data = body.encode().decode("unicode_escape").encode("latin-1") if False else _unesc(body)
                out.append((fmt, data, "corpus", f))
    return out


def _unesc(s):
    """`\\n`, `\\r`, `\\t`, `\\\\` escapes of .case files."""
    out = []
    i = 0
    while i < len(s):
        c = s[i]
        if c == "\\" and i + 1 < len(s):
            n = s[i + 1]
            out.append({"n": "\n", "r": "\r", "t": "\t", "\\": "\\"}.get(n, "\\" + n))
            i += 2
        else:
            out.append(c)
            i += 1
    return "".join(out).encode("utf-8")


def std_tables():
    """Primop names (from the lexer's token table) and std function paths (from the running stdlib)."""
    lex = open(os.path.join(core.REPO, "parser/src/lexer.rs"), errors="replace").read()
    prims = sorted(set(re.findall(r'#\[token\("(%[a-z_/0-9]+%)"\)\]', lex)))
    mods = ["array", "string", "number", "record", "contract", "enum", "function", "test"]
    progs = ["\tstd.record.fields std.%s" % m for m in mods] + ["\tstd.record.fields std"]
    rc, out, err = core.run_lines(core.harness_bin("c10"), ["eval"], progs, timeout=300)
    funs = []
    for m, l in zip(mods + [None], out):
        if not l.startswith("OK ["):
            continue
        names = re.findall(r'"([^"]+)"', l)
        for n in names:
            if re.match(r"^[a-z_][a-zA-Z0-9_]*$", n):
                funs.append("std.%s.%s" % (m, n) if m else "std.%s" % n)
    funs = [f for f in funs if f not in ("std.array", "std.string", "std.number", "std.record", "std.contract", "std.enum", "std.function", "std.test")]
    return prims, sorted(set(funs))


def generate(ck, scale):
    """scale = 1 for the quick tier (about 5k inputs)."""
    rng = core.SplitMix64(ck.seed * 1000003 + 10)
    cases = []
    files = gen.corpus_files()
    ck.coverage["corpus_seed_files"] = len(files)
    prims, stdfuns = std_tables()
    ck.coverage["primops_listed"] = len(prims)
    ck.coverage["std_functions_listed"] = len(stdfuns)
    small = [f for f in files if len(f[2]) <= gen.MAX_SEED_FILE]
    big = [f for f in files if len(f[2]) > gen.MAX_SEED_FILE]

    # the repository's own files, unmodified (every run)
    for fmt, rel, data in small:
        cases.append((fmt, data, "corpus-original", rel))
    for fmt, rel, data in big:
        cases.append((fmt + ",light", data, "corpus-original:light", rel))

    def n(k):
        return int(k * scale)

    # (a) grammar
    for _ in range(n(700)):
        g = gen.G(rng.fork())
        cases.append(("ncl", g.program(rng.range(1, 4)).encode(), "grammar:well-typed", "G"))
    for _ in range(n(350)):
        g = gen.G(rng.fork(), bad=rng.choice([3, 8, 20]))
        p = g.program(rng.range(1, 4))
        if rng.chance(1, 2):
            t = g.rand_type(2)
            p = "(%s) : %s" % (p, g.ty_str(t))
        cases.append(("ncl", p.encode(), "grammar:ill-typed", "G-bad"))
    for _ in range(n(450)):
        p = gen.primop_case(rng, prims, stdfuns)
        if rng.chance(1, 4):
            p = "(%s) : %s" % (p, rng.choice(["Number", "String", "Dyn", "Array Number", "{a : Number}", "forall a. a -> a"]))
        cases.append(("ncl,fuel=100000", p.encode(), "grammar:ill-typed:primop", "P"))
    for _ in range(n(500)):
        g = gen.G(rng.fork(), bad=rng.choice([0, 0, 5]))
        p, names = gen.mutate_tokens(rng, g.program(rng.range(1, 3)))
        cases.append(("ncl", p.encode(), "grammar:ill-formed", "G+" + "+".join(names)))

    # (b) mutations of the corpus
    for _ in range(n(1200)):
        fmt, rel, data = rng.choice(small)
        try:
            text = data.decode("utf-8")
        except UnicodeDecodeError:
            continue
        p, names = gen.mutate_tokens(rng, text, ncl=(fmt == "ncl"))
        cases.append((fmt, p.encode("utf-8", "surrogatepass") if False else p.encode("utf-8", "replace"), "mutation:token", rel + "+" + "+".join(names)))
    for _ in range(n(600)):
        fmt, rel, data = rng.choice(small)
        p, names = gen.mutate_bytes(rng, data)
        cases.append((fmt, p, "mutation:byte", rel + "+" + "+".join(names)))
    for _ in range(n(40)):
        fmt, rel, data = rng.choice(big)
        p, names = gen.mutate_bytes(rng, data) if rng.chance(1, 2) else (gen.mutate_tokens(rng, data.decode("utf-8", "replace"))[0].encode("utf-8", "replace"), ["token"])
        cases.append((fmt + ",light", p, "mutation:big-file:light", rel))
    # nesting 200 deep on the stack of the CLI's main thread (8 MiB)
    ncl_small = [f for f in small if f[0] == "ncl" and len(f[2]) < 2000]
    for name, mk in gen.NEST:
        for _ in range(max(1, n(2))):
            if rng.chance(1, 2):
                inner = "1"
            else:
                inner = rng.choice(ncl_small)[2].decode("utf-8", "replace")
            cases.append(("ncl,stack=8", mk(200, inner).encode(), "mutation:nest200", name))
    for fmt, kinds in gen.NEST_DATA.items():
        for name, mk in kinds:
            cases.append((fmt + ",stack=8", mk(200).encode(), "mutation:nest200", fmt + ":" + name))

    # (c) random
    for _ in range(n(150)):
        ln = rng.choice([0, 1, 2, 3, 8, 20, 60, 200])
        data = bytes(rng.below(256) for _ in range(ln))
        cases.append((rng.choice(["ncl", "ncl", "json", "yaml", "toml"]), data, "random:bytes", "R"))
    for _ in range(n(100)):
        ln = rng.choice([1, 3, 8, 20, 60, 200])
        data = bytes(rng.range(32, 126) if rng.chance(19, 20) else rng.choice([9, 10, 13]) for _ in range(ln))
        cases.append((rng.choice(["ncl", "ncl", "json", "yaml", "toml"]), data, "random:ascii", "R"))
    for _ in range(n(300)):
        cases.append(("ncl", gen.token_soup(rng, rng.range(1, 25)).encode(), "random:token-soup", "R"))
    for _ in range(n(180)):
        fmt = rng.choice(["json", "yaml", "toml"])
        cases.append((fmt, gen.data_soup(rng, fmt, rng.range(1, 20)).encode(), "random:data-soup", "R"))
    return cases


# ----------------------------------------------------------------------------- entry points

def run(ck):
    if not ck.harness(["c10"]):
        return
    cor = corpus_cases()
    scale = 1 if ck.tier == "quick" else 60
    if os.environ.get("C10_SCALE"):      # development aid only
        scale = float(os.environ["C10_SCALE"])
    cases = cor + generate(ck, scale)
    ck.coverage["corpus_cases"] = len(cor)
    ck.log("pipeline: %d inputs" % len(cases))
    lines = [case_line(f, d) for f, d, _, _ in cases]
    rc, results, err = run_pipeline(lines, timeout=40 if ck.tier == "quick" else 90)
    if rc:
        ck.obligation("pipeline-run", "internal", False, "rc=%s %s" % (rc, err[-1500:]))
    process(ck, cases, results)
    ms = run_pipeline.last_ms
    bycls = {}
    for (fmt, data, cls, origin), t in zip(cases, ms):
        a = bycls.setdefault(cls, [0, 0, 0])
        a[0] += 1
        a[1] += t
        a[2] = max(a[2], t)
    ck.coverage["time_per_class_ms (count, total, max)"] = bycls
    ck.log("time per class (n, total ms, max ms): %s" % bycls)
    slow = sorted(zip(ms, range(len(ms))), reverse=True)[:12]
    ck.log("slowest: %s" % [(t, cases[i][2], cases[i][3][:60], show_input(cases[i][1], 60)) for t, i in slow])
    for (fmt, data, cls, origin), res in list(zip(cases, results))[:6]:
        ck.sample({"class": cls, "format": fmt, "input": show_input(data, 160), "result": res[:300]})
    ck.coverage["rule"] = "see checks/c10_gen.py"
    ck.log("classes: %s" % ck.stats.get("class"))
    ck.log("findings: %s" % ck.stats.get("findings_by_key"))
    ck.log("resource: %s" % ck.stats.get("resource_exhaustion_in_eval_stages (not a violation)"))


def replay(ck, path):
    if path.endswith(".case"):
        cases = []
        for l in open(path, encoding="utf-8"):
            l = l.rstrip("\n")
            if l.strip() and not l.startswith("#"):
                fmt, _, body = l.partition("\t")
                cases.append((fmt, bytes.fromhex(body[4:]) if body.startswith("hex:") else _unesc(body), "replay", path))
    else:
        obj = json.load(open(path))
        if "case" not in obj:
            ck.log("nothing to replay in " + path)
            return
        fmt, _, hx = obj["case"].partition("\t")
        cases = [(fmt, bytes.fromhex(hx), "replay", path)]
    if not ck.harness(["c10"]):
        return
    rc, results, err = run_pipeline([case_line(f, d) for f, d, _, _ in cases], timeout=120, shards=1)
    for c, r in zip(cases, results):
        ck.log("replay %r -> %s" % (show_input(c[1], 200), r[:1500]))
    process(ck, cases, results, replay_mode=True)
