"""C15 — output is deterministic and independent of definition order."""
from vlib import core
from checks import mergegen as g
from checks import mergelib as m
from checks import mergemech

META = {
    "harness_bins": ["nkeval"],
    "extract": "C05.v",
    "model_dir": "c05",
    "technique": "Coq proof that the denotation of a record literal is invariant under permutation of its fields and that of a merge under swapping operands (so export and field listings, functions of the denotation, cannot depend on written order); tie: the interpreter's JSON/YAML/TOML bytes and std.record.{fields,values,to_array} for original vs permuted programs, across two processes",
    "level_text": "coq/Props/C15.v: for every record literal with distinct field names and every permutation of its fields the elaboration is the same tree (C15_literal_order_irrelevant), and merge is commutative on all well-formed trees (C15_operand_order_irrelevant); in the algebra records are key-sorted so there is no insertion order to leak. Tie to the code: each generated program is evaluated by the interpreter as written, with every literal's fields permuted, and with the operands of every merge swapped; the serializer's JSON, YAML and TOML text and the results of std.record.fields / values / to_array are compared byte for byte (direct oracle), the batch is run in two separate processes (different hash seeds), and the exported tree is compared with the extracted algebra. PARTIAL: cross-process determinism is observed, not proved (a pure model is deterministic by construction). " + mergemech.MECH_TEXT_C15,
    "level_note": "Trusted: Coq kernel; extraction; nkeval; generator. IndexMap insertion order / swap_remove / split_ref inside merge.rs are modelled in coq/MergeMech/Model.v (a reading of the code, tied by comparing the model's map order with the interpreter's); the hash function of IndexMap and serde's emitters are not modelled (covered by the byte-level comparison on the implementation).",
}


def swap_merges(e):
    t = e[0]
    if t == "m":
        return ("m", swap_merges(e[2]), swap_merges(e[1]))
    if t == "r":
        return ("r", [(k, p, o, h, cs, swap_merges(v) if v is not None else None) for (k, p, o, h, cs, v) in e[1]])
    if t == "v":
        return ("v", e[1], swap_merges(e[2]))
    if t == "a":
        return ("a", [swap_merges(x) for x in e[1]])
    return e


def listing_program(e):
    """order-exposing observers applied to the (fully evaluated) record"""
    src = g.nickel(e)
    return g.PRELUDE + ("let r = %s in { fields = std.record.fields r, fields_with_opts = std.record.fields_with_opts r, "
                        "arr = std.array.map (fun x => x.field) (std.record.to_array r), n = std.array.length (std.record.values r) }" % src)


def run(ck):
    ck.coq("Props.C15", clean=(ck.tier == "thorough"))
    if not ck.harness(["nkeval"]):
        return
    exe = m.model_exe(ck)
    if not exe:
        return
    rng = core.SplitMix64(ck.seed * 15485863 + 15)
    n = 200 if ck.tier == "quick" else 6000
    base = [("m", g.gen_expr(rng.fork(), 2, 4, 1), g.gen_expr(rng.fork(), 2, 4, 1)) if rng.chance(2, 3) else g.gen_expr(rng.fork(), 2, 4, 1)
            for _ in range(n)]
    variants = []
    for e in base:
        variants.append([e, g.permute_fields(rng.fork(), e), swap_merges(e), g.permute_fields(rng.fork(), swap_merges(e))])
    flat = [v for vs in variants for v in vs]
    nk = core.harness_bin("nkeval")
    lines = {}
    for fmt in ("json", "yaml", "toml"):
        lines[fmt] = ["fmt=%s\t%s" % (fmt, m.esc(g.program(v))) for v in flat]
    lines["listing"] = ["full,order\t" + m.esc(listing_program(v)) for v in flat]
    out = {}
    for key, ls in lines.items():
        rc, o, err = core.run_sharded(nk, [], ls)
        if rc:
            ck.obligation("run:" + key, "internal", False, err[-500:])
        out[key] = o
    # second, separate set of processes (fresh hash seeds; different sharding)
    rc, again, err = core.run_sharded(nk, [], lines["json"], shards=7)
    impl_tree, mod = m.run_both(ck, exe, flat)
    ndis = 0
    for i, vs in enumerate(variants):
        e = vs[0]
        ck.case(key=g.sexp(e), nontrivial=(g.size(e) >= 6))
        ck.hist("outcome", m.outcome_class(out["json"][4 * i]))
        names = ["as written", "fields permuted", "operands swapped", "both"]
        rep = {"program": g.nickel(e), "variants": {nm: g.nickel(v) for nm, v in zip(names, vs)}, "prelude": g.PRELUDE}
        for key in ("json", "yaml", "toml", "listing"):
            rs = out[key][4 * i:4 * i + 4]
            rep[key] = rs
            ok_rs = [r for r in rs if r.startswith("OK")]
            if ok_rs and (len(ok_rs) != 4 or len(set(rs)) != 1):
                # conflicting operands may legitimately fail on both sides; a success must be identical everywhere
                ck.violation("order:" + key, "%s output depends on written order: %s" % (key, " | ".join(r[:60] for r in rs)), rep)
        if out["json"][4 * i:4 * i + 4] != again[4 * i:4 * i + 4]:
            ck.violation("nondeterministic", "two processes produced different JSON for the same program", rep)
        for v, a, b in zip(vs, impl_tree[4 * i:4 * i + 4], mod[4 * i:4 * i + 4]):
            if "!WF" in b or b.startswith("BAD"):
                ck.obligation("generator-in-domain", "internal", False, g.nickel(v) + " -> " + b)
            elif not m.agree(a, b):
                ndis += 1
                if ndis <= 5:
                    ck.obligation("correspondence:algebra-vs-merge.rs", "correspondence", False,
                                  "program %s\nimpl  %s\nmodel %s" % (g.nickel(v), a, b))
        if i < 3:
            ck.sample({"program": g.nickel(e), "permuted": g.nickel(vs[1]), "json": out["json"][4 * i][:200], "listing": out["listing"][4 * i][:200]})
    ck.coverage["programs"] = len(flat)
    ck.coverage["rule"] = "program = record expression (literals, merges, nested) from the mostly-valid stream; 4 variants each (as written, literal fields permuted, merge operands swapped, both); observed: JSON/YAML/TOML text, std.record.fields/fields_with_opts/to_array/values; second run in separate processes; non-trivial = size >= 6"
    ck.coverage["partial"] = "determinism across processes is observed not proved"
    ck.trusted += ["extraction: ExtrOcamlBasic only", "harness bin nkeval"]
    mergemech.run(ck, "C15")      # mechanism level: Props.C15_mech + map-order tie (checks/mergemech.py)


def replay(ck, path):
    import json
    obj = json.load(open(path))
    if obj.get("mech"):
        return mergemech.replay(ck, obj)
    if not ck.harness(["nkeval"]):
        return
    progs = list(obj["variants"].values())
    for fmt in ("json", "yaml", "toml"):
        rc, o, err = core.run_lines(core.harness_bin("nkeval"), [], ["fmt=%s\t%s" % (fmt, m.esc(obj["prelude"] + p)) for p in progs])
        ok = [r for r in o if r.startswith("OK")]
        ck.case(key=fmt + str(progs))
        if ok and (len(ok) != len(o) or len(set(o)) != 1):
            ck.violation("order:" + fmt, "output depends on written order", obj)
