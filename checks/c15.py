"""C15 — output is deterministic and independent of definition order."""
from vlib import core
from checks import mergegen as g
from checks import mergelib as m
from checks import mergemech
from checks import richmerge

META = {
    "harness_bins": ["nkeval"],
    "extract": "C05.v",
    "model_dir": "c05",
    "technique": "Coq proof that the denotation of a record literal is invariant under permutation of its fields and that of a merge under swapping operands (so export and field listings, functions of the denotation, cannot depend on written order); tie: the interpreter's JSON/YAML/TOML bytes and std.record.{fields,values,to_array} for original vs permuted programs, across two processes",
    "level_text": "coq/Props/C15.v: for every record literal with distinct field names and every permutation of its fields the elaboration is the same tree (C15_literal_order_irrelevant), and merge is commutative on all well-formed trees (C15_operand_order_irrelevant); in the algebra records are key-sorted so there is no insertion order to leak. Tie to the code: each generated program is evaluated by the interpreter as written, with every literal's fields permuted, and with the operands of every merge swapped; the serializer's JSON, YAML and TOML text and the results of std.record.fields / values / to_array are compared byte for byte (direct oracle), the batch is run in two separate processes (different hash seeds), and the exported tree is compared with the extracted algebra. PARTIAL: cross-process determinism is observed, not proved (a pure model is deterministic by construction); records with recursive fields are outside the algebra: for them (checks/richmerge.py: sibling references under binders reusing the field names, nested and piecewise definitions, declared-only fields, overriding, local contract aliases, arrays of records with field metadata) the interpreter's JSON / YAML / TOML bytes and field listings are compared between the program as written, with the fields of every literal (pieces of piecewise definitions included) permuted, and with merge operands swapped (direct oracle only). " + mergemech.MECH_TEXT_C15,
    "level_note": "Trusted: Coq kernel; extraction; nkeval; generator. IndexMap insertion order / swap_remove / split_ref inside merge.rs are modelled in coq/MergeMech/Model.v (a reading of the code, tied by comparing the model's map order with the interpreter's); the hash function of IndexMap and serde's emitters are not modelled (covered by the byte-level comparison on the implementation).",
}


def swap_merges(e):
    t = e[0]
    if t == "m":
        return ("m", swap_merges(e[2]), swap_merges(e[1]))
    if t == "r":
        return ("r", [(k, p, o, h, cs, swap_merges(v) if v is not None else None) for (k, p, o, h, cs, v) in e[1]])
    if t == "v":
        return ("v", e[1], swap_merges(e[2]))
    if t == "a":
        return ("a", [swap_merges(x) for x in e[1]])
    return e


def listing_program(e):
    """order-exposing observers applied to the (fully evaluated) record"""
    src = g.nickel(e)
    return g.PRELUDE + ("let r = %s in { fields = std.record.fields r, fields_with_opts = std.record.fields_with_opts r, "
                        "arr = std.array.map (fun x => x.field) (std.record.to_array r), n = std.array.length (std.record.values r) }" % src)


# ------------------------------------------------------------------ dictionary-API stream (direct oracle only)
# Names chosen so that every plausible "smarter" ordering (numeric-aware, case-insensitive, locale, trimmed, ...)
# identifies or reorders some of them: distinct strings that denote the same number, differ by case, padding, sign.
DICT_NAMES = ["a", "b", "B", "A", "c1", "c10", "c9", "7", "07", "+7", "007", "10", "9", "1", "+1", "01", "-1", "1.0",
              "x y", " a", "a ", "\u00e9", "e", "_z", "Z", "z", "a_b", "a-b", "ab", "", "0", "00"]


def _q(name):
    return '"%s"' % name


def gen_dict_program(rng):
    """2-3 operands; each = record literal piped through dictionary operations (which freeze / rebuild the field
    map); operands have disjoint fields (or a common field with the same value) so that the merge succeeds.
    Returns the abstract program (list of (literal fields, ops))."""
    pool = list(DICT_NAMES)
    # bias: make sure clashing spellings meet in one program
    for i in range(len(pool) - 1, 0, -1):
        j = rng.below(i + 1)
        pool[i], pool[j] = pool[j], pool[i]
    if rng.chance(1, 2):
        fam = [["7", "07", "+7", "007"], ["1", "+1", "01", "1.0"], ["a", "A", " a", "a "], ["b", "B"], ["z", "Z", "_z"], ["0", "00", ""],
               ["c1", "c10", "c9"], ["10", "9"]][rng.below(8)]
        pool = fam + [x for x in pool if x not in fam]
    nops = rng.range(2, 3)
    operands = []
    val = [0]

    def fresh_val():
        val[0] += 1
        return val[0]
    for _ in range(nops):
        nf = rng.range(1, 3)
        fields = [(pool.pop(0), fresh_val()) for _ in range(nf)]
        present = [n for n, _ in fields]
        ops = []
        for _ in range(rng.below(4)):
            k = rng.below(9)
            if k == 0:
                ops.append(("map",))
            elif k == 1:
                ops.append(("map_values",))
            elif k == 2 and present:
                ops.append(("update", present[rng.below(len(present))], fresh_val()))
            elif k == 3 and len(present) > 1:
                ops.append(("remove", present.pop(rng.below(len(present)))))
            elif k == 4:
                ops.append(("freeze",))
            elif k == 5:
                ops.append(("filter",))
            elif k == 6:
                ops.append(("rebuild",))
            else:
                n = pool.pop(0)
                present.append(n)
                ops.append(("insert", n, fresh_val()))
        operands.append((fields, ops))
    return operands


def dict_nickel(operands, observe):
    parts = []
    for fields, ops in operands:
        src = "{ %s }" % ", ".join("%s = %d" % (_q(n), v) for n, v in fields)
        for op in ops:
            if op[0] == "map":
                src += " |> std.record.map (fun _k v => v + 100)"
            elif op[0] == "map_values":
                src += " |> std.record.map_values (fun v => v)"
            elif op[0] == "update":
                src += " |> std.record.update %s %d" % (_q(op[1]), op[2])
            elif op[0] == "remove":
                src += " |> std.record.remove %s" % _q(op[1])
            elif op[0] == "freeze":
                src += " |> std.record.freeze"
            elif op[0] == "filter":
                src += " |> std.record.filter (fun _k v => v > 0)"
            elif op[0] == "rebuild":
                src += " |> (fun r => std.record.from_array (std.record.to_array r))"
            elif op[0] == "insert":
                src += " |> std.record.insert %s %d" % (_q(op[1]), op[2])
        parts.append("(%s)" % src)
    merged = " & ".join(parts)
    if observe == "listing":
        return ("let all = %s in { fields = std.record.fields all, opts = std.record.fields_with_opts all, "
                "pairs = std.array.map (fun p => p.field) (std.record.to_array all), values = std.record.values all, "
                "mapped = std.record.fields (std.record.map (fun _k v => v) all), "
                "folded = std.array.fold_left (fun acc k => acc ++ \"|\" ++ k) \"\" (std.record.fields all) }" % merged)
    if observe == "ser":
        return ("let all = %s in { j = std.serialize 'Json all, y = std.serialize 'Yaml { inner = all }, t = std.serialize 'Toml all }" % merged)
    return "{ merged = %s, nested = [ %s ] }" % (merged, merged)


def dict_variants(rng, operands):
    def perm(l):
        l = list(l)
        for i in range(len(l) - 1, 0, -1):
            j = rng.below(i + 1)
            l[i], l[j] = l[j], l[i]
        return l

    def reorder_inserts(ops):
        # consecutive inserts are independent of one another: reverse each run
        out, run = [], []
        for op in ops:
            if op[0] == "insert":
                run.append(op)
            else:
                out += run[::-1] + [op]
                run = []
        return out + run[::-1]
    permuted = [(perm(f), ops) for f, ops in operands]
    swapped = operands[::-1]
    both = [(perm(f), reorder_inserts(ops)) for f, ops in perm(operands)]
    return [operands, permuted, swapped, both]


def run_dict_stream(ck, rng, nk):
    n = 150 if ck.tier == "quick" else 5000
    progs = [gen_dict_program(rng.fork()) for _ in range(n)]
    allv = [dict_variants(rng.fork(), p) for p in progs]
    flat = [v for vs in allv for v in vs]
    streams = {
        "listing": ["full,order\t" + m.esc(dict_nickel(v, "listing")) for v in flat],
        "serialize": ["full,order\t" + m.esc(dict_nickel(v, "ser")) for v in flat],
        "json": ["fmt=json\t" + m.esc(dict_nickel(v, "export")) for v in flat],
        "yaml": ["fmt=yaml\t" + m.esc(dict_nickel(v, "export")) for v in flat],
        "toml": ["fmt=toml\t" + m.esc(dict_nickel(v, "export")) for v in flat],
    }
    out = {}
    for key, ls in streams.items():
        rc, o, err = core.run_sharded(nk, [], ls)
        if rc:
            ck.obligation("run:dict-" + key, "internal", False, err[-500:])
        out[key] = o
    names = ["as written", "literal fields permuted", "operands swapped", "operands and fields permuted, inserts reordered"]
    nok = 0
    for i, vs in enumerate(allv):
        ck.case(key="dict:" + dict_nickel(vs[0], "export"), nontrivial=True)
        ck.hist("dict_ops", str(sum(len(ops) for _, ops in vs[0])))
        ck.hist("dict_frozen_operands", str(sum(1 for _, ops in vs[0] if any(o[0] in ("map", "map_values", "update", "remove", "freeze", "insert") for o in ops))))
        rep = {"dict": True, "variants": {nm: {k: dict_nickel(v, k) for k in ("listing", "ser", "export")} for nm, v in zip(names, vs)}}
        for key in streams:
            rs = out[key][4 * i:4 * i + 4]
            rep[key] = rs
            ok_rs = [r for r in rs if r.startswith("OK")]
            nok += len(ok_rs) == 4
            if ok_rs and (len(ok_rs) != 4 or len(set(rs)) != 1):
                ck.violation("order:dict-" + key, "%s of a merge of dictionaries depends on written order: %s   [%s]" % (
                    key, " | ".join(r[:120] for r in sorted(set(rs))), dict_nickel(vs[0], "listing" if key == "listing" else "export")[:300]), rep)
        if i < 2:
            ck.sample({"dictionary program": dict_nickel(vs[0], "listing"), "listing": out["listing"][4 * i][:300]})
    ck.coverage["dictionary_programs"] = len(flat)
    ck.coverage["dictionary_all_variants_ok"] = nok
    if nok < len(allv) * len(streams) * 0.8:
        ck.obligation("generator:dict-stream-mostly-ok", "internal", False, "only %d of %d observations succeed" % (nok, len(allv) * len(streams)))


def run(ck):
    ck.coq("Props.C15", clean=(ck.tier == "thorough"))
    if not ck.harness(["nkeval"]):
        return
    exe = m.model_exe(ck)
    if not exe:
        return
    rng = core.SplitMix64(ck.seed * 15485863 + 15)
    n = 200 if ck.tier == "quick" else 6000
    base = [("m", g.gen_expr(rng.fork(), 2, 4, 1), g.gen_expr(rng.fork(), 2, 4, 1)) if rng.chance(2, 3) else g.gen_expr(rng.fork(), 2, 4, 1)
            for _ in range(n)]
    variants = []
    for e in base:
        variants.append([e, g.permute_fields(rng.fork(), e), swap_merges(e), g.permute_fields(rng.fork(), swap_merges(e))])
    flat = [v for vs in variants for v in vs]
    nk = core.harness_bin("nkeval")
    lines = {}
    for fmt in ("json", "yaml", "toml"):
        lines[fmt] = ["fmt=%s\t%s" % (fmt, m.esc(g.program(v))) for v in flat]
    lines["listing"] = ["full,order\t" + m.esc(listing_program(v)) for v in flat]
    out = {}
    for key, ls in lines.items():
        rc, o, err = core.run_sharded(nk, [], ls)
        if rc:
            ck.obligation("run:" + key, "internal", False, err[-500:])
        out[key] = o
    # second, separate set of processes (fresh hash seeds; different sharding)
    rc, again, err = core.run_sharded(nk, [], lines["json"], shards=7)
    impl_tree, mod = m.run_both(ck, exe, flat)
    ndis = 0
    for i, vs in enumerate(variants):
        e = vs[0]
        ck.case(key=g.sexp(e), nontrivial=(g.size(e) >= 6))
        ck.hist("outcome", m.outcome_class(out["json"][4 * i]))
        names = ["as written", "fields permuted", "operands swapped", "both"]
        rep = {"program": g.nickel(e), "variants": {nm: g.nickel(v) for nm, v in zip(names, vs)}, "prelude": g.PRELUDE}
        for key in ("json", "yaml", "toml", "listing"):
            rs = out[key][4 * i:4 * i + 4]
            rep[key] = rs
            ok_rs = [r for r in rs if r.startswith("OK")]
            if ok_rs and (len(ok_rs) != 4 or len(set(rs)) != 1):
                # conflicting operands may legitimately fail on both sides; a success must be identical everywhere
                ck.violation("order:" + key, "%s output depends on written order: %s" % (key, " | ".join(r[:60] for r in rs)), rep)
        if out["json"][4 * i:4 * i + 4] != again[4 * i:4 * i + 4]:
            ck.violation("nondeterministic", "two processes produced different JSON for the same program", rep)
        for v, a, b in zip(vs, impl_tree[4 * i:4 * i + 4], mod[4 * i:4 * i + 4]):
            if "!WF" in b or b.startswith("BAD"):
                ck.obligation("generator-in-domain", "internal", False, g.nickel(v) + " -> " + b)
            elif not m.agree(a, b):
                ndis += 1
                if ndis <= 5:
                    ck.obligation("correspondence:algebra-vs-merge.rs", "correspondence", False,
                                  "program %s\nimpl  %s\nmodel %s" % (g.nickel(v), a, b))
        if i < 3:
            ck.sample({"program": g.nickel(e), "permuted": g.nickel(vs[1]), "json": out["json"][4 * i][:200], "listing": out["listing"][4 * i][:200]})
    ck.coverage["programs"] = len(flat)
    ck.coverage["rule"] = "program = record expression (literals, merges, nested) from the mostly-valid stream; 4 variants each (as written, literal fields permuted, merge operands swapped, both); observed: JSON/YAML/TOML text, std.record.fields/fields_with_opts/to_array/values; second run in separate processes; non-trivial = size >= 6. Dictionary stream (direct oracle only): 2-3 operands, each a literal piped through std.record.{map,map_values,insert,remove,update,freeze,filter,from_array . to_array} (the operations that freeze / rebuild the field map), field names from a pool of clashing spellings (\"7\"/\"07\"/\"+7\", case, padding, blanks), merged; observed: fields / fields_with_opts / to_array / values / fields after map / a fold over fields, std.serialize in 3 formats, and the exported JSON/YAML/TOML of the merge at top level and inside an array; 4 variants (as written, literal fields permuted, operands swapped, everything permuted + independent inserts reordered)"
    ck.coverage["partial"] = "determinism across processes is observed not proved"
    ck.trusted += ["extraction: ExtrOcamlBasic only", "harness bin nkeval"]
    run_dict_stream(ck, rng, nk)
    richmerge.run_order(ck, nk)   # recursive records: written order of fields / pieces / operands, interpreter only
    mergemech.run(ck, "C15")      # mechanism level: Props.C15_mech + map-order tie (checks/mergemech.py)


def replay(ck, path):
    import json
    obj = json.load(open(path))
    if obj.get("mech"):
        return mergemech.replay(ck, obj)
    if not ck.harness(["nkeval"]):
        return
    if obj.get("rich"):
        return richmerge.replay(ck, obj)
    if obj.get("dict"):
        nk = core.harness_bin("nkeval")
        for key, flag in (("listing", "full,order"), ("ser", "full,order"), ("export", "fmt=json"), ("export", "fmt=yaml"), ("export", "fmt=toml")):
            rc, o, err = core.run_lines(nk, [], ["%s\t%s" % (flag, m.esc(v[key])) for v in obj["variants"].values()])
            ok = [r for r in o if r.startswith("OK")]
            ck.case(key=key + flag)
            if ok and (len(ok) != len(o) or len(set(o)) != 1):
                ck.violation("order:dict-" + key, "output depends on written order: " + " | ".join(sorted(set(o)))[:300], obj)
        return
    progs = list(obj["variants"].values())
    for fmt in ("json", "yaml", "toml"):
        rc, o, err = core.run_lines(core.harness_bin("nkeval"), [], ["fmt=%s\t%s" % (fmt, m.esc(obj["prelude"] + p)) for p in progs])
        ok = [r for r in o if r.startswith("OK")]
        ck.case(key=fmt + str(progs))
        if ok and (len(ok) != len(o) or len(set(o)) != 1):
            ck.violation("order:" + fmt, "output depends on written order", obj)
