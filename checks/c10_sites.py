"""C10 panic-site translator (syntactic, from the sources of /repo; fails closed).

Lists every panic-capable site — `.unwrap()`, `.expect(`, `panic!`, `unreachable!`,
`unimplemented!`/`todo!`, `assert!`/`assert_eq!`/`assert_ne!`, `debug_assert*!`, indexing / slicing
`x[..]`, integer casts `as usize` etc. — in the Rust functions mirrored by a model under
/verif/coq (MIRRORED below), keyed by (file, impl, function, match arm for the primop dispatchers,
kind, ordinal).  Line numbers are informative only.  Output: coq/Gen/PanicSites.v.

Nothing here decides anything: coq/Crash/Ledger.v maps each key to the theorem that excludes the
site or to an explicit Unproved entry, and its theorems [sites_all_covered] / [ledger_no_stale] are
re-checked against the generated file."""
import hashlib
import os
import re

from vlib import core

# file -> (owner property, Coq area, None = every function outside test modules | list of selectors
#          "fn" or "fn::Arm")
MIRRORED = {
    "vector/src/vector.rs": ("C17", "coq/Vector", None),
    "vector/src/slice.rs": ("C17", "coq/Vector", None),
    "package/src/resolve.rs": ("C20", "coq/Pkg", None),
    "package/src/version.rs": ("C20", "coq/Pkg", None),
    "package/src/lock.rs": ("C20", "coq/Pkg", None),
    "core/src/eval/merge.rs": ("C05", "coq/Merge", None),
    "core/src/eval/contract_eq.rs": ("C04", "coq/Merge", None),
    "lsp/nls/src/world.rs": ("C19", "coq/Lsp", None),
    "core/src/eval/stack.rs": ("C18", "coq/Mem", None),
    "core/src/eval/cache/lazy.rs": ("C18", "coq/Mem", None),
    "parser/src/lexer.rs": ("C10", "coq/Crash/Lexer.v", None),
    "parser/src/error.rs": ("C10", "coq/Crash/Span.v", ["from_lalrpop", "from_lexical", "from_serde_json", "from_yaml", "from_toml", "external_error_span"]),
    "parser/src/utils.rs": ("C10", "coq/Crash/Span.v", ["mk_span", "mk_pos"]),
    "parser/src/position.rs": ("C10", "coq/Crash/Span.v", ["fuse", "from_range", "to_range", "from_codespan"]),
    "core/src/typecheck/reporting.rs": ("C10", "coq/Crash/NameReg.v", ["gen_candidate_name", "select_uniq", "gen_var_name", "gen_cst_name", "taken", "insert"]),
    "core/src/term/string.rs": ("C10", "coq/Crash/Index.v", ["substring", "find_all_regex", "find_regex"]),
    "core/src/pretty.rs": ("C10", "coq/Crash/Index.v", ["pretty_print_cap"]),
    "core/src/error/mod.rs": ("C10", "printer/parser law (checks/c10.py run_type_law)", ["path_span", "report_ty_path"]),
    "core/src/ast/compat.rs": ("C10", "coq/Crash/{TypePos,MergeDispatch}.v", None),
    "parser/src/uniterm.rs": ("C10", "coq/Crash/TypePos.v", ["fix_type_vars_env", "fix_type_vars", "fix_field_types", "fix_for_annotation"]),
    "core/src/serialize/mod.rs": ("C10", "coq/Crash/TomlFloats.v", ["number_from_float", "check_floats", "check_value", "range_pos", "from_str", "ast_from_str",
                                                                     "to_value", "to_value_with_pos", "to_ast", "to_record"]),
    "core/src/eval/operation.rs": ("C10", "coq/Crash/{NumOps,Index}.v", [
        "number_op1", "eval_op1::ArrayGen",
        "eval_op2::Div", "eval_op2::Modulo", "eval_op2::Pow", "eval_op2::NumberArcTan2", "eval_op2::NumberLog", "eval_op2::ArrayAt",
        "eval_opn::StringSubstr", "eval_opn::ArraySlice",
        "eq",      # C16 (coq/Arith/Eq*.v)
    ]),
}

KINDS = [
    ("unwrap", re.compile(r"\.unwrap\(\)")),
    ("expect", re.compile(r"\.expect\(")),
    ("panic", re.compile(r"\bpanic!")),
    ("unreachable", re.compile(r"\bunreachable!")),
    ("unimplemented", re.compile(r"\b(?:unimplemented|todo)!")),
    ("assert", re.compile(r"(?<![_\w])assert(?:_eq|_ne)?!")),
    ("debug_assert", re.compile(r"\bdebug_assert(?:_eq|_ne)?!")),
    ("index", re.compile(r"(?<![#!])(?<=[\w\)\]])\[(?![\s\]])")),
    ("cast", re.compile(r"\bas\s+(?:usize|isize|u8|u16|u32|u64|i8|i16|i32|i64)\b")),
]
# only in the files owned by C10 (the arithmetic of the modelled cores): unsigned subtraction
# (overflow-checked in the debug profile) and calls into libraries that panic out of contract
KINDS_OWN = [
    ("sub", re.compile(r"(?<=[\w\)])\s-\s(?=[\w\(])")),
    ("libcall", re.compile(r"\.pow\(|\bn1 / n2\b|\barray\.slice\(|\.nth\(max_width\)")),
]


def strip_comments(src):
    """Blank out comments and the contents of string / char literals, keeping the line structure."""
    out = []
    i, n = 0, len(src)
    while i < n:
        c = src[i]
        if src.startswith("//", i):
            j = src.find("\n", i)
            j = n if j < 0 else j
            out.append(" " * (j - i))
            i = j
        elif src.startswith("/*", i):
            j = src.find("*/", i + 2)
            j = n if j < 0 else j + 2
            out.append("".join(ch if ch == "\n" else " " for ch in src[i:j]))
            i = j
        elif c == '"':
            # raw strings r"..", r#".."#
            k = i - 1
            hashes = 0
            while k >= 0 and src[k] == "#":
                hashes += 1
                k -= 1
            if k >= 0 and src[k] == "r" and (k == 0 or not (src[k - 1].isalnum() or src[k - 1] == "_")):
                end = src.find('"' + "#" * hashes, i + 1)
                end = n if end < 0 else end
                out.append('"' + "".join(ch if ch == "\n" else " " for ch in src[i + 1:end]) + '"')
                i = end + 1 + hashes
                continue
            j = i + 1
            while j < n and src[j] != '"':
                j += 2 if src[j] == "\\" else 1
            out.append('"' + "".join(ch if ch == "\n" else " " for ch in src[i + 1:j]) + '"')
            i = j + 1
        elif c == "'" and i + 2 < n and (src[i + 2] == "'" or (src[i + 1] == "\\" and 0 < src.find("'", i + 2) - i <= 8)):
            j = src.find("'", i + 2 if src[i + 1] == "\\" else i + 1)
            out.append("'" + " " * (j - i - 1) + "'")
            i = j + 1
        else:
            out.append(c)
            i += 1
    return "".join(out)


def scopes(code):
    """[(kind, name, start, end)] for every `impl ... {}`, `fn name ... {}`, `mod name {}` by brace
    matching on comment-free code."""
    res = []
    for m in re.finditer(r"\b(impl\b[^{;]*|(?:pub(?:\([^)]*\))?\s+)?(?:const\s+)?(?:unsafe\s+)?fn\s+(\w+)[^{;]*|mod\s+(\w+)\s*|trait\s+(\w+)[^{;]*)\{", code):
        start = m.end() - 1
        depth, j = 0, start
        while j < len(code):
            if code[j] == "{":
                depth += 1
            elif code[j] == "}":
                depth -= 1
                if depth == 0:
                    break
            j += 1
        head = m.group(1)
        if head.startswith("impl"):
            name = re.sub(r"\s+", " ", head).strip()
            name = re.sub(r"^impl(<[^>]*>)?\s*", "", name)
            name = re.sub(r"\s*where.*$", "", name)
            res.append(("impl", name.strip(), m.start(), j))
        elif m.group(2):
            res.append(("fn", m.group(2), m.start(), j))
        elif m.group(3):
            res.append(("mod", m.group(3), m.start(), j))
        else:
            res.append(("trait", m.group(4), m.start(), j))
    return res


ARM = re.compile(r"^ {12}(?:\w+\s*@\s*)?\(?(?:UnaryOp|BinaryOp|NAryOp)::(\w+)", re.M)


def sites_of(rel, selectors):
    path = os.path.join(core.REPO, rel)
    src = open(path, errors="replace").read()
    code = strip_comments(src)
    sc = scopes(code)
    test_ranges = [(a, b) for k, n, a, b in sc if k == "mod" and n in ("tests", "test")]
    # also `#[cfg(test)] mod x`
    for m in re.finditer(r"#\[cfg\(test\)\]\s*(?:pub\s+)?mod\s+(\w+)\s*\{", code):
        for k, n, a, b in sc:
            if k == "mod" and a >= m.start() and a <= m.end():
                test_ranges.append((a, b))
    fns = [(n, a, b) for k, n, a, b in sc if k == "fn"]
    impls = [(n, a, b) for k, n, a, b in sc if k in ("impl", "trait")]
    found = []
    kinds = KINDS + (KINDS_OWN if MIRRORED[rel][0] == "C10" else [])
    for kind, rx in kinds:
        for m in rx.finditer(code):
            pos = m.start()
            if any(a <= pos <= b for a, b in test_ranges):
                continue
            inner = [(b - a, n, a, b) for n, a, b in fns if a <= pos <= b]
            if not inner:
                continue          # not inside a function body (types, constants, attributes)
            # outermost named function that is directly inside an impl or at top level: closures
            # and nested fns are attributed to it together with the nested fn's name
            inner.sort()
            fn_name = inner[-1][1]
            nested = [x[1] for x in inner[:-1]]
            fa, fb = inner[-1][2], inner[-1][3]
            imp = [(b - a, n) for n, a, b in impls if a <= pos <= b]
            imp_name = min(imp)[1] if imp else ""
            arm = ""
            if rel.endswith("eval/operation.rs") and fn_name in ("eval_op1", "eval_op2", "eval_opn"):
                last = None
                for am in ARM.finditer(code, fa, pos):
                    last = am
                arm = last.group(1) if last else ""
            found.append((pos, kind, imp_name, fn_name, nested, arm))
    found.sort()
    out = []
    counters = {}
    for pos, kind, imp_name, fn_name, nested, arm in found:
        sel_ok = selectors is None or fn_name in selectors or (arm and "%s::%s" % (fn_name, arm) in selectors) \
            or any(n in selectors for n in nested)
        if not sel_ok:
            continue
        scope = "::".join(x for x in [imp_name, fn_name] + list(reversed(nested)) + ([arm] if arm else []) if x)
        base = "%s::%s:%s" % (rel, scope, kind)
        counters[base] = counters.get(base, 0) + 1
        line = code.count("\n", 0, pos) + 1
        out.append(("%s#%d" % (base, counters[base]), line))
    return out, hashlib.sha1(src.encode()).hexdigest()[:12]


def all_sites():
    sites, hashes, missing = [], [], []
    for rel in sorted(MIRRORED):
        owner, area, sel = MIRRORED[rel]
        if not os.path.exists(os.path.join(core.REPO, rel)):
            missing.append(rel)
            continue
        s, h = sites_of(rel, sel)
        sites += s
        hashes.append("%s@%s" % (os.path.basename(rel), h))
    return sites, hashes, missing


def coq_string(s):
    return '"' + s.replace('"', '""') + '"'


def write_gen():
    sites, hashes, missing = all_sites()
    body = ["(* GENERATED by checks/c10_sites.py (sources: %s). Do not edit. *)" % ", ".join(hashes),
            "From Coq Require Import List String.", "Import ListNotations.", "Open Scope string_scope.", "",
            "(* every panic-capable site of the functions mirrored by a model under coq/: (key, line) *)",
            "Definition sites : list (string * nat) := ["]
    for m in missing:
        sites.append(("MISSING-FILE:" + m, 0))
    body.append(";\n".join("  (%s, %d)" % (coq_string(k), l) for k, l in sites))
    body.append("].")
    text = "\n".join(body) + "\n"
    d = os.path.join(core.COQ, "Gen")
    os.makedirs(d, exist_ok=True)
    p = os.path.join(d, "PanicSites.v")
    old = open(p).read() if os.path.exists(p) else None
    if old != text:
        with open(p, "w") as f:
            f.write(text)
    return sites


if __name__ == "__main__":
    s, h, miss = all_sites()
    for k, l in s:
        print(l, k)
    print(len(s), "sites", miss)
