"""C17 — arrays are immutable under sharing (vector/src/{vector,slice}.rs)."""
import os
import re
from vlib import core

META = {
    "harness_bins": ["c17"],
    "extract": "C17.v",
    "technique": "Coq proof: tree model of Vector/Slice refines lists for every operation history (wf invariant + list refinement, any branching factor >= 2); model tied to the Rust crate by differential replay of clone/mutate histories (extracted OCaml model vs Rust, contents and tree representation of every live handle compared after every operation)",
    "level_text": "Proved in Coq for every branching factor B >= 2 (not only powers of two), every element type and every operation history (coq/Props/C17.v, 35 theorems, closed under the global context): "
                  "C17_history_refines - for every op list over a family of vector and slice handles (new/from/clone/drop/push/pop/set/get/truncate/extend/iter_from/iter_mut_from, slice push/pop/set/get/slice/extend/extend-from-slice/iter/iter_mut) the implementation-shaped run irun and the run srun of independent lists return the same result at every step (including exactly the same panics), and after every step every live handle satisfies the Prop-level invariant wf/swf and denotes (to_list / sl_list) the list the specification holds for it; so an operation through one handle never changes what another handle denotes (C17_frame_vec, C17_frame_slice). "
                  "wf (uniform depth = height, packed left, chunks of 1..B entries with every chunk off the right edge full, interior root with >= 2 children, vlen = number of elements, height = height_for_length vlen) is established by new and preserved by push/pop/set/truncate/extend, none of which panics in contract, and each refines the list operation (++[x], last/removelast, nth_error, list_set, firstn, ++, skipn; iter_mut replaces exactly the elements handed out); wf implies the crate's check_invariants; slice operations refine the window firstn (end-start) (skipn start l); shifts/masks equal div/mod for B = 2^k (C17_bit_ops_agree). "
                  "Strengthening T1 (Vector/RcHeap.v, C17_rc_*): new/clone/get/set/push over an explicit heap of reference-counted cells with Rc::make_mut (copy iff count <> 1, children's counts bumped on copy); with exact counts as invariant, set and push through one handle refine the value-level operation and leave the abstraction of every other live handle unchanged (frame), and calling Node::set on a shared root without make_mut provably breaks it (RcExamples.v). "
                  "The model is hand-written from vector.rs/slice.rs; the tie to the code is the correspondence run: the same histories are executed by the extracted model and by the Rust crate built from /repo for B in {2,4,8,32}, and after every operation the result, the contents and the exact tree representation (node structure, chunk contents, length, height, start, end, read off the derived Debug output) of every live handle are compared; independently every Rust handle is compared with a Vec twin and check_invariants() is called (direct oracle).",
    "level_note": "Trusted: Coq kernel; extraction (ExtrOcamlBasic only); the hand-written model's reading of vector.rs/slice.rs (value-level: Rc sharing/make_mut is modelled as value copy, which is what safe Rust guarantees for a crate without unsafe); imbl-sized-chunks; the derived Debug impls used to read the Rust trees; the history generator. The fuel of vextend_loop and the iterator-as-list view of Extend are part of the model (proved sufficient: extend never returns None). Not covered: serde impls, Hash/Eq impls, usize overflow (lengths are unbounded nat in the model). Note: the crate's own check_invariants()/is_packed is weaker than wf (it ignores right_most below an interior node; Vector/Examples.v: check_invariants_incomplete), so the Vec twin and the tree comparison carry the direct oracle.",
}

ELEMS = 10
BS = [2, 2, 4, 4, 8, 32]
MAXLEN = {2: 300, 4: 300, 8: 600, 32: 1100}


def hfl(B, n):
    """height_for_length"""
    m = max(n - 1, 1)
    h = 0
    while m >= B:
        m //= B
        h += 1
    return h


def boundaries(B, cap):
    out = set()
    p = 1
    while p <= cap + 1:
        for d in (-1, 0, 1, 2):
            if 0 <= p + d <= cap:
                out.add(p + d)
        for m in (2, 3):
            if m < B and 0 <= m * p + 1 <= cap:
                out.add(m * p)
                out.add(m * p + 1)
        p *= B
    return sorted(out)


class Gen:
    """One history with the generator's own bookkeeping of lengths (to aim indices and lengths at
    the interesting places) and of the structural events it provokes."""

    def __init__(self, rng, B, profile, nops):
        self.rng, self.B, self.profile, self.nops = rng, B, profile, nops
        self.ops = []
        self.vl = {}          # live vector handle -> length
        self.sl = {}          # live slice handle -> (start, end, backing length)
        self.nv = self.ns = 0
        self.ev = {}
        self.maxh = 0
        self.cap = MAXLEN[B]
        self.bnd = boundaries(B, self.cap)

    def event(self, k):
        self.ev[k] = self.ev.get(k, 0) + 1

    def elems(self, n):
        return ".".join(str(self.rng.below(ELEMS)) for _ in range(n))

    def note_len(self, old, new):
        B = self.B
        ho, hn = hfl(B, old), hfl(B, new)
        self.maxh = max(self.maxh, hn)
        return ho, hn

    def aim_len(self, cur):
        r, B = self.rng, self.B
        c = r.below(10)
        if c < 4:
            return r.choice(self.bnd)
        if c < 6:
            return max(0, cur + r.choice([-2, -1, 0, 1, 2]))
        if c < 7:
            return cur // 2
        if c < 8:
            return r.choice([0, 1, B - 1, B, B + 1])
        return r.below(cur + 2)

    def new_handle(self, use_v):
        r, B = self.rng, self.B
        p = "v" if use_v else "s"
        if r.chance(1, 4):
            self.ops.append(p + "n")
            ln = 0
        else:
            if self.profile == "small":
                ln = r.range(0, 3 * B + 1)
            else:
                ln = min(self.aim_len(r.choice(self.bnd)), self.cap)
            self.ops.append(p + "f:" + self.elems(ln))
            self.note_len(0, ln)
        if use_v:
            self.vl[self.nv] = ln
            self.nv += 1
        else:
            self.sl[self.ns] = (0, ln, ln)
            self.ns += 1

    def step(self):
        r, B = self.rng, self.B
        pv = {"small": 1, "deep": 3, "slice": 1, "mixed": 2}[self.profile]
        use_v = r.chance(pv, 4)
        live = self.vl if use_v else self.sl
        if not live or r.chance(1, 16):
            self.new_handle(use_v)
            return
        p = "v" if use_v else "s"
        k = r.choice(sorted(live))
        if use_v:
            ln = self.vl[k]
            st = en = bl = None
        else:
            st, en, bl = self.sl[k]
            ln = en - st
        bad = r.chance(1, 30)
        c = r.below(100)
        if c < 12:                                    # clone
            self.ops.append("%sc%d" % (p, k))
            if use_v:
                self.vl[self.nv] = ln
                self.nv += 1
            else:
                self.sl[self.ns] = (st, en, bl)
                self.ns += 1
        elif c < 15 and len(live) > 1:                # drop
            self.ops.append("%sd%d" % (p, k))
            del live[k]
        elif c < 33:                                  # push
            self.ops.append("%sp%d:%d" % (p, k, r.below(ELEMS)))
            if use_v:
                ho, hn = self.note_len(ln, ln + 1)
                if hn > ho:
                    self.event("push_adds_level")
                self.vl[k] = ln + 1
            else:
                if en < bl:
                    self.event("slice_push_truncates_shared_tail")
                    if hfl(B, en) < hfl(B, bl):
                        self.event("slice_push_truncate_lowers_height")
                self.note_len(en, en + 1)
                self.sl[k] = (st, en + 1, en + 1)
        elif c < 47:                                  # pop
            self.ops.append("%so%d" % (p, k))
            if use_v:
                if ln > 0:
                    ho, hn = self.note_len(ln, ln - 1)
                    if hn < ho:
                        self.event("pop_collapses_root")
                    if ln == 1:
                        self.event("pop_to_empty")
                    self.vl[k] = ln - 1
                else:
                    self.event("pop_on_empty")
            else:
                if ln > 0:
                    if en < bl:
                        self.event("slice_pop_truncates_shared_tail")
                    if hfl(B, en - 1) < hfl(B, en):
                        self.event("pop_collapses_root")
                    self.sl[k] = (st, en - 1, en - 1)
                else:
                    self.event("pop_on_empty")
        elif c < 55:                                  # set
            if bad or ln == 0:
                i = ln + r.below(3)
                self.event("set_out_of_bounds")
            else:
                i = r.choice([0, ln - 1, r.below(ln), min(ln - 1, r.choice(self.bnd))])
            self.ops.append("%ss%d:%d:%d" % (p, k, i, r.below(ELEMS)))
        elif c < 62:                                  # get
            i = r.choice([r.below(ln + 2), ln, ln + B, min(ln, r.choice(self.bnd)), (bl if bl is not None else ln)])
            if i >= ln:
                self.event("get_out_of_bounds")
            self.ops.append("%sg%d:%d" % (p, k, i))
        elif c < 74:
            if use_v:                                 # truncate
                n = self.aim_len(ln)
                self.ops.append("vt%d:%d" % (k, n))
                if n < ln:
                    ho, hn = self.note_len(ln, n)
                    if hn < ho:
                        self.event("truncate_lowers_height")
                        if ho - hn >= 2:
                            self.event("truncate_lowers_height_by_2+")
                    if n == 0:
                        self.event("truncate_to_0")
                    self.vl[k] = n
                else:
                    self.event("truncate_noop")
            else:                                     # slice
                a = r.below(ln + 1)
                b = r.range(a, ln)
                if r.chance(1, 3) and ln > 0:
                    b = min(ln, max(a, r.choice(self.bnd) - st)) if r.chance(1, 2) else ln
                if bad:
                    b = ln + 1 + r.below(2)
                    if r.chance(1, 2):
                        a, b = b, max(0, b - 1 - r.below(2))
                self.ops.append("sl%d:%d:%d" % (k, a, b))
                if a <= b <= ln:
                    self.sl[k] = (st + a, st + b, bl)
                    self.event("slice")
                else:
                    self.event("slice_out_of_contract")
        elif c < 88:                                  # extend
            base = ln if use_v else en
            tgt = self.aim_len(base + r.below(3 * B + 2))
            m = max(0, min(tgt - base if tgt > base else r.choice([0, 1, 2, B - 1, B, B + 1, 2 * B + 1]), self.cap - base, 700))
            if not use_v and r.chance(1, 3):
                j = r.choice(sorted(self.sl))
                sj = self.sl[j]
                m = sj[1] - sj[0]
                if base + m > self.cap + 700:
                    return
                self.ops.append("sx%d:%d" % (k, j))
                self.event("extend_from_slice" + ("_self" if j == k else ""))
            else:
                self.ops.append("%se%d:%s" % (p, k, self.elems(m)))
            ho, hn = self.note_len(base, base + m)
            if hn - ho >= 2:
                self.event("extend_across_2+_levels")
            elif hn > ho:
                self.event("extend_adds_level")
            if m == 0:
                self.event("extend_empty")
            if use_v:
                self.vl[k] = ln + m
            else:
                if en < bl:
                    self.event("slice_extend_truncates_shared_tail")
                self.sl[k] = (st, en + m, en + m)
        elif c < 94:                                  # iter_mut (Vector::iter_mut, iter_mut_starting_at, Slice::iter_mut)
            d = 1 + r.below(9)
            if use_v:
                if r.chance(1, 4):
                    self.ops.append("va%d:%d" % (k, d))
                else:
                    if bad:
                        i = ln + 1 + r.below(2)
                        self.event("iter_mut_from_out_of_bounds")
                    else:
                        i = r.choice([0, ln, r.below(ln + 1), min(ln, r.choice(self.bnd))])
                    self.ops.append("vm%d:%d:%d" % (k, i, d))
            else:
                self.ops.append("sm%d:%d" % (k, d))
                if st > 0 or en < bl:
                    self.event("slice_iter_mut_inside_larger_vector")
        else:                                         # iterate
            if use_v:
                if bad:
                    i = ln + 1 + r.below(2)
                    self.event("iter_from_out_of_bounds")
                else:
                    i = r.choice([0, ln, r.below(ln + 1), min(ln, r.choice(self.bnd))])
                self.ops.append("vi%d:%d" % (k, i))
            else:
                self.ops.append("si%d" % k)

    def run(self):
        for _ in range(self.nops):
            self.step()
        return "%d %s" % (self.B, ",".join(self.ops))


def gen_history(rng, B, profile, nops):
    g = Gen(rng, B, profile, nops)
    return g.run(), g.ev, g.maxh


def exhaustive_small(tier):
    """All histories up to a given depth over small op alphabets, B = 2 (thorough tier)."""
    out = []

    def rec(init, alpha, prefix, depth):
        if depth == 0:
            return
        for a in alpha:
            h = prefix + [a]
            out.append("2 " + init + "," + ",".join(h))
            rec(init, alpha, h, depth - 1)
    # slices over a shared 3-element vector (handles s0, s1 = clone made inside the history)
    rec("sf:0.1.2", ["sp0:1", "sp1:2", "sc0", "so0", "so1", "sl0:1:2", "sl0:0:1", "ss0:0:3", "se0:1.2.3", "sx1:0", "sm0:1"], [], 5)
    # vectors around the height-1/height-2 boundary (5 elements, B = 2)
    rec("vf:0.1.2.1.0", ["vp0:1", "vc0", "vo0", "vo1", "vt0:4", "vt0:2", "vt1:1", "ve0:1.2.0", "vs0:3:2", "vp1:2", "vm0:3:1"], [], 5)
    # a deeper one: 9 elements (height 3), depth 4
    rec("vf:0.1.2.0.1.2.0.1.2,vc0", ["vo0", "vt0:8", "vt0:4", "vt0:0", "ve0:1.1.1.1.1.1.1.1", "vp0:2", "vo1", "vt1:5", "va1:1"], [], 4)
    return out


def corpus():
    p = os.path.join(core.ROOT, "corpus", "C17")
    res = []
    if os.path.isdir(p):
        for f in sorted(os.listdir(p)):
            if f.endswith(".case"):
                res += [l.strip() for l in open(os.path.join(p, f)) if l.strip() and not l.startswith("#")]
    return res


SHAPE = re.compile(r"~[^| ]*")


def strip_shape(s):
    """drop the representation digests/texts: what remains is results + contents, comparable with the list spec"""
    return SHAPE.sub("", s)


def first_diff_op(case, a, c):
    ops = case.split(" ", 1)[1].split(",")
    xa, xc = a.split(" "), c.split(" ")
    for i, (p, q) in enumerate(zip(xa, xc)):
        if p != q:
            return ops[i][:2] if i < len(ops) else "end"
    return "len"


def compare(ck, cases, impl_out, model_out, spec_out):
    for case, a, b, c in zip(cases, impl_out, model_out, spec_out):
        if "<missing>" in (a, b, c):
            # a runner died or timed out (reported by run_cases as an internal failure): nothing to classify
            ck.count("cases_without_output")
            continue
        nops = case.count(",") + 1
        ck.case(key=case, nontrivial=("c" in case and nops >= 4))
        ck.hist("history_length", min(nops // 10 * 10, 100))
        ck.hist("B", case.split(" ")[0])
        for tok in case.split(" ", 1)[1].split(","):
            if tok:
                ck.hist("ops", tok[:2])
        if "panic" in a:
            ck.count("histories_with_out_of_contract_op")
        ck.count("direct_oracle_handle_checks", a.count("=") - a.count("=["))
        direct = ("!TWIN" in a) or ("!INV" in a) or a == "PANIC-UNCAUGHT"
        sa = strip_shape(a)
        if direct:
            # the implementation disagrees with an independent Vec twin / breaks its own invariants
            ck.violation("twin:" + first_diff_op(case, sa, c), "Rust Vector/Slice differs from independent Vec copies (or check_invariants fails)",
                         {"case": case, "impl": a, "spec": c, "how_to_replay": "./verif check C17 --replay <this file>"})
        elif sa != c:
            # results/contents differ from the run on independent lists: the property fails on the implementation
            ck.violation("spec:" + first_diff_op(case, sa, c), "Rust Vector/Slice history differs from independent lists",
                         {"case": case, "impl": a, "model": b, "spec": c, "how_to_replay": "./verif check C17 --replay <this file>"})
        elif a != b:
            # contents agree with the lists but the representation (or a result) differs from the model
            ck.obligation("correspondence:model-vs-rust", "correspondence", False,
                          "case %s\nfirst differing op: %s\nimpl  %s\nmodel %s" % (case, first_diff_op(case, a, b), a[-700:], b[-700:]))
        if "!INV" in b:
            ck.obligation("model:check_invariants", "correspondence", False, "model breaks check_invariants on " + case)
        if strip_shape(b) != c:
            ck.obligation("model:refines-spec (theorem C17_history_refines, executed)", "correspondence", False,
                          "extracted irun and srun differ on " + case)


def run_cases(ck, cases, exe_impl, exe_model):
    import concurrent.futures as cf
    # generous per-shard limit: the machine may be shared with other builds
    tmo = 1800 if ck.tier == "quick" else 6 * 3600
    impl_out, model_out, spec_out = [], [], []
    # batches keep memory bounded and make a dead runner cost one batch, not the whole run
    step = 20000
    for lo in range(0, len(cases), step):
        part = cases[lo:lo + step]
        with cf.ThreadPoolExecutor(max_workers=3) as ex:
            f1 = ex.submit(core.run_sharded, exe_impl, [], part, None, tmo)
            f2 = ex.submit(core.run_sharded, exe_model, [], part, None, tmo)
            f3 = ex.submit(core.run_sharded, exe_model, ["spec"], part, None, tmo)
            (rc1, o1, e1), (rc2, o2, e2), (rc3, o3, e3) = f1.result(), f2.result(), f3.result()
        if rc1 or rc2 or rc3:
            ck.obligation("correspondence-run", "internal", False,
                          "a runner failed or timed out (no verdict for its cases): rc impl/model/spec=%s/%s/%s %s %s %s" % (rc1, rc2, rc3, e1[-300:], e2[-300:], e3[-300:]))
        impl_out += o1
        model_out += o2
        spec_out += o3
    compare(ck, cases, impl_out, model_out, spec_out)
    return impl_out, model_out, spec_out


def generate(ck):
    rng = core.SplitMix64(ck.seed * 1000003 + 17)
    cases = []
    n = 1600 if ck.tier == "quick" else 30000
    for i in range(n):
        B = rng.choice(BS)
        profile = rng.weighted([("small", 3), ("deep", 4), ("slice", 3), ("mixed", 2)])
        long_ = rng.chance(1, 12)
        nops = rng.range(3, 400 if long_ else 40)
        if ck.tier == "thorough" and rng.chance(1, 200):
            nops = rng.range(400, 1500)
        h, ev, maxh = gen_history(rng.fork(), B, profile, nops)
        cases.append(h)
        ck.hist("profile", profile)
        ck.hist("max_height_reached_B%d" % B, maxh)
        for k, v in ev.items():
            ck.hist("structural_events", k, v)
            ck.hist("histories_with_event", k)
    return cases


def run(ck):
    if ck.tier == "thorough":
        # rebuild this property's own files from scratch (not the whole shared tree: other checks use it)
        import glob
        with core.Lock("coq"):
            for pat in ("Vector/*", "Vector/.*", "Props/C17*", "Props/.C17*"):
                for f in glob.glob(os.path.join(core.COQ, pat)):
                    if f.endswith((".vo", ".vok", ".vos", ".glob", ".aux")):
                        os.remove(f)
    ck.coq("Props.C17", extra_targets=["Vector/Examples.vo", "Vector/RcExamples.vo"])
    if ck.tier == "thorough":
        rc, out = core.sh(["timeout", "1500", "coqchk", "-silent", "-o", "-Q", ".", "NV", "NV.Props.C17"], cwd=core.COQ, timeout=1600)
        clean = rc == 0 and "Axioms: <none>" in out and "type-in-type: <none>" in out and "unsafe (co)fixpoints: <none>" in out and "positivity is assumed: <none>" in out
        ck.obligation("coqchk NV.Props.C17 (no axioms, no unsafe flags)", "coqchk", clean, out[-1200:])
    ok = ck.harness(["c17"])
    exe_model = ck.model("C17.v")
    if not ok or not exe_model:
        return
    exe_impl = core.harness_bin("c17")
    cor = corpus()
    cases = cor + generate(ck)
    ck.coverage["corpus_cases"] = len(cor)
    if ck.tier == "thorough":
        ex = exhaustive_small(ck.tier)
        ck.coverage["exhaustive_small_histories"] = len(ex)
        cases += ex
    impl_out, model_out, spec_out = run_cases(ck, cases, exe_impl, exe_model)
    for c, a in list(zip(cases, impl_out))[:3]:
        ck.sample({"history": c[:300], "impl_trace": a[:400]})
    ck.coverage["traces_validated_against_impl"] = len(cases)
    ck.coverage["comparisons"] = "per operation: result; per live handle: contents digest (Rust vs model vs list spec), tree-representation digest (Rust vs model), Vec twin + check_invariants() (Rust only)"
    ck.coverage["rule"] = ("history = seeded random op sequence over vector and slice handles (new/from/clone/drop/push/pop/set/get/truncate/slice/extend/extend-from-slice/iter/iter_mut), "
                           "B in {2,4,8,32}; profiles small/deep/slice/mixed aim lengths and indices at B^k-1, B^k, B^k+1, m*B^k(+1); ~3% out-of-contract ops; "
                           "non-trivial = contains a clone and >= 4 ops; distinct by exact text; thorough adds exhaustive histories over three small alphabets (B=2) and histories up to 1500 ops")
    ck.coverage["partial"] = "Rc sharing is modelled at value level (persistence by construction); see DESIGN.md C17 T1"
    ck.trusted += ["extraction: ExtrOcamlBasic only", "harness bin c17 (reads Rust trees through derived Debug)", "generator checks/c17.py (SplitMix64, VERIF_SEED)"]
    ck.assumptions += ["imbl-sized-chunks Chunk behaves as a bounded Vec", "value-level model of Rc/make_mut"]
    st = ck.stats
    ck.log("distribution: B=%s profiles=%s" % (st.get("B"), st.get("profile")))
    ck.log("max height reached: " + ", ".join("%s=%s" % (k[-3:].strip("_"), dict(sorted(v.items()))) for k, v in sorted(st.items()) if k.startswith("max_height")))
    ck.log("structural events (count): %s" % dict(sorted(st.get("structural_events", {}).items())))
    ck.log("direct-oracle handle checks: %s, histories with a panic: %s" % (st.get("direct_oracle_handle_checks"), st.get("histories_with_out_of_contract_op")))


def replay(ck, path):
    import json
    if path.endswith(".case"):
        cases = [l.strip() for l in open(path) if l.strip() and not l.startswith("#")]
    else:
        obj = json.load(open(path))
        cases = [obj["case"]] if "case" in obj else []
    ok = ck.harness(["c17"])
    exe_model = ck.model("C17.v")
    if ok and exe_model and cases:
        run_cases(ck, cases, core.harness_bin("c17"), exe_model)
