"""C17 — arrays are immutable under sharing (vector/src/{vector,slice}.rs)."""
import os
from vlib import core

META = {
    "claimed": False,
    "harness_bins": ["c17"],
    "extract": "C17.v",
    "technique": "Coq proof: tree model of Vector/Slice refines lists for every operation history (wf invariant + list refinement, any branching factor >= 2); model tied to the Rust crate by differential replay of clone/mutate histories (extracted OCaml model vs Rust, every live handle compared after every operation)",
    "level_text": "Theorems (coq/Props/C17.v) quantify over every operation history, handle family and branching factor B>=2: the implementation-shaped tree model keeps check_invariants and each handle's contents equal to an independent list. The model is hand-written; the tie to vector.rs/slice.rs is the correspondence run (same histories on the extracted model and on the Rust crate built from /repo, B in {2,4,8,32}), which also compares each Rust handle with a Vec twin and calls check_invariants().",
    "level_note": "Trusted: Coq kernel; extraction (ExtrOcamlBasic only); the hand-written model's reading of vector.rs (value-level: Rc sharing/make_mut is modelled as value copy, which is what safe Rust guarantees for a crate without unsafe); imbl-sized-chunks; the history generator. Not covered: IterMut/into_iter variants beyond what Slice::into_iter exercises, serde impls.",
}

ELEMS = 10


def gen_history(rng, B, maxlen, heavy):
    """One history.  Mostly in-contract operations; ~3% out-of-contract (panicking) ones."""
    ops = []
    nv, ns = 0, 0            # number of handles created
    vl, sl = {}, {}          # live handle -> current length (tracked to aim indices)
    n = rng.range(3, maxlen)
    for _ in range(n):
        use_v = rng.chance(1, 2) if (nv or ns) else rng.chance(1, 2)
        live = vl if use_v else sl
        p = "v" if use_v else "s"
        if not live or rng.chance(1, 14):
            if rng.chance(1, 2):
                ops.append(p + "n")
                ln = 0
            else:
                ln = rng.choice([0, 1, B - 1, B, B + 1, B * B, B * B + 1, rng.range(0, 3 * B)]) if heavy else rng.range(0, 2 * B + 1)
                ln = min(ln, 1100)
                ops.append(p + "f:" + ".".join(str(rng.below(ELEMS)) for _ in range(ln)))
            if use_v:
                vl[nv] = ln
                nv += 1
            else:
                sl[ns] = ln
                ns += 1
            continue
        k = rng.choice(sorted(live))
        ln = live[k]
        bad = rng.chance(1, 30)
        c = rng.below(100)
        if c < 14:
            ops.append("%sc%d" % (p, k))
            if use_v:
                vl[nv] = ln
                nv += 1
            else:
                sl[ns] = ln
                ns += 1
        elif c < 17 and len(live) > 1:
            ops.append("%sd%d" % (p, k))
            del live[k]
        elif c < 40:
            ops.append("%sp%d:%d" % (p, k, rng.below(ELEMS)))
            live[k] = ln + 1
        elif c < 52:
            ops.append("%so%d" % (p, k))
            live[k] = max(0, ln - 1)
        elif c < 62:
            i = ln + rng.below(3) if (bad or ln == 0) else rng.below(ln)
            ops.append("%ss%d:%d:%d" % (p, k, i, rng.below(ELEMS)))
        elif c < 70:
            i = rng.below(ln + 2)
            ops.append("%sg%d:%d" % (p, k, i))
        elif c < 80:
            if use_v:
                nlen = rng.choice([0, 1, B, B + 1, ln // 2, max(0, ln - 1), ln, ln + 1, rng.below(ln + 1)])
                ops.append("vt%d:%d" % (k, nlen))
                live[k] = min(ln, nlen)
            else:
                a = rng.below(ln + 1)
                b = rng.range(a, ln)
                if bad:
                    b = ln + 1 + rng.below(2)
                ops.append("sl%d:%d:%d" % (k, a, b))
                if b <= ln:
                    live[k] = b - a
        elif c < 92:
            m = rng.choice([0, 1, 2, B - 1, B, B + 1, 2 * B + 1, B * B - ln if B * B > ln else 3, rng.range(0, 3 * B)])
            m = max(0, min(m, 600))
            if not use_v and rng.chance(1, 3) and len(sl) > 0:
                j = rng.choice(sorted(sl))
                ops.append("sx%d:%d" % (k, j))
                live[k] = ln + sl[j]
            else:
                ops.append("%se%d:%s" % (p, k, ".".join(str(rng.below(ELEMS)) for _ in range(m))))
                live[k] = ln + m
        else:
            if use_v:
                i = ln + 1 + rng.below(2) if bad else rng.below(ln + 1)
                ops.append("vi%d:%d" % (k, i))
            else:
                ops.append("si%d" % k)
    return "%d %s" % (B, ",".join(ops))


def exhaustive_small(maxlen):
    """All histories of length <= maxlen over a tiny alphabet, B = 2 (thorough tier)."""
    alpha = ["sp0:1", "sp1:2", "sc0", "so0", "so1", "sl0:1:2", "sl0:0:1", "ss0:0:3", "se0:1.2.3", "sx1:0", "sp0:0"]
    out = []

    def rec(prefix, depth):
        if depth == 0:
            return
        for a in alpha:
            h = prefix + [a]
            out.append("2 sf:0.1.2," + ",".join(h))
            rec(h, depth - 1)
    rec([], maxlen)
    return out


def corpus():
    p = os.path.join(core.ROOT, "corpus", "C17")
    res = []
    if os.path.isdir(p):
        for f in sorted(os.listdir(p)):
            res += [l.strip() for l in open(os.path.join(p, f)) if l.strip() and not l.startswith("#")]
    return res


def compare(ck, cases, impl_out, model_out, spec_out):
    for case, a, b, c in zip(cases, impl_out, model_out, spec_out):
        nops = case.count(",") + 1
        ck.case(key=case, nontrivial=("c" in case and nops >= 4))
        ck.hist("history_length", min(nops // 10 * 10, 100))
        ck.hist("B", case.split(" ")[0])
        for tok in case.split(" ", 1)[1].split(","):
            if tok:
                ck.hist("ops", tok[:2])
        if "panic" in a:
            ck.count("histories_with_out_of_contract_op")
        direct = ("!TWIN" in a) or ("!INV" in a) or a == "PANIC-UNCAUGHT"
        if direct:
            # the implementation disagrees with an independent Vec twin / breaks its own invariants
            ck.violation("twin:" + first_diff_op(case, a, c), "Rust Vector/Slice differs from independent Vec copies (or check_invariants fails)",
                         {"case": case, "impl": a, "spec": c, "how_to_replay": "./verif check C17 --replay <this file>"})
        elif a != b:
            # model and implementation disagree: is the property itself broken (impl vs list spec)?
            sa = strip_oc(a)
            if sa != strip_oc(c):
                ck.violation("spec:" + first_diff_op(case, a, c), "Rust Vector/Slice history differs from independent lists",
                             {"case": case, "impl": a, "model": b, "spec": c})
            else:
                ck.obligation("correspondence:model-vs-rust", "correspondence", False,
                              "case %s\nimpl  %s\nmodel %s" % (case, a[:600], b[:600]))
        if "!INV" in b:
            ck.obligation("model:check_invariants", "correspondence", False, "model breaks wf on " + case)


def strip_oc(s):
    return s


def first_diff_op(case, a, c):
    ops = case.split(" ", 1)[1].split(",")
    xa, xc = a.split(" "), c.split(" ")
    for i, (p, q) in enumerate(zip(xa, xc)):
        if p != q:
            return ops[i][:2] if i < len(ops) else "end"
    return "len"


def run_cases(ck, cases, exe_impl, exe_model):
    rc1, impl_out, e1 = core.run_sharded(exe_impl, [], cases)
    rc2, model_out, e2 = core.run_sharded(exe_model, [], cases)
    rc3, spec_out, e3 = core.run_sharded(exe_model, ["spec"], cases)
    if rc1 or rc2 or rc3:
        ck.obligation("correspondence-run", "internal", False, "rc=%s/%s/%s %s %s %s" % (rc1, rc2, rc3, e1, e2, e3))
    compare(ck, cases, impl_out, model_out, spec_out)
    return impl_out, model_out, spec_out


def run(ck):
    ck.coq("Props.C17", clean=(ck.tier == "thorough"))
    ok = ck.harness(["c17"])
    exe_model = ck.model("C17.v")
    if not ok or not exe_model:
        return
    exe_impl = core.harness_bin("c17")
    rng = core.SplitMix64(ck.seed * 1000003 + 17)
    cases = corpus()
    n = 2000 if ck.tier == "quick" else 50000
    for i in range(n):
        B = rng.choice([2, 2, 4, 4, 8, 32])
        long_ = rng.chance(1, 12)
        cases.append(gen_history(rng.fork(), B, 400 if long_ else 40, heavy=rng.chance(1, 2)))
    if ck.tier == "thorough":
        ex = exhaustive_small(5)
        ck.coverage["exhaustive_small_histories"] = len(ex)
        cases += ex
    impl_out, model_out, spec_out = run_cases(ck, cases, exe_impl, exe_model)
    for c, a in list(zip(cases, impl_out))[:3]:
        ck.sample({"history": c[:300], "impl_trace": a[:300]})
    ck.coverage["traces_validated_against_impl"] = len(cases)
    ck.coverage["rule"] = "history = seeded random op sequence over vector and slice handles (clone/drop/push/pop/set/get/truncate/slice/extend/extend-from/iter), B in {2,4,8,32}; non-trivial = contains a clone and >= 4 ops; distinct by exact text"
    ck.coverage["partial"] = "Rc sharing is modelled at value level (persistence by construction); see DESIGN.md C17 T1"
    ck.trusted += ["extraction: ExtrOcamlBasic only", "harness bin c17", "generator checks/c17.py (SplitMix64, VERIF_SEED)"]
    ck.assumptions += ["imbl-sized-chunks Chunk behaves as a bounded Vec", "value-level model of Rc/make_mut"]


def replay(ck, path):
    import json
    obj = json.load(open(path))
    ok = ck.harness(["c17"])
    exe_model = ck.model("C17.v")
    if ok and exe_model and "case" in obj:
        run_cases(ck, [obj["case"]], core.harness_bin("c17"), exe_model)
