"""Probe programs for C02: given a type T and ONE negative check of T (a value path from the
annotated value + what is checked there, as listed by the model: `modelrun negs`), synthesise

    let v : T = <typed implementation> in <untyped context>

where the two sides walk the path together (the consumer of a function supplies the argument, the
consumer of a container takes the element ...) and, at the end of the path, the UNTYPED side
provides a value that fails exactly that check while the typed side forces it.  The boundary
contract must then blame the untyped side (negative blame); the reference is the same program
with full contracts for static annotations (hook H2).  Nothing here knows about particular
defects: it is driven by the type and the list of its negative checks.

The typed side has to typecheck, so the synthesis is type-directed and partial: `Unsynth` is raised
when no inhabitant is found (an abstract type variable with nothing of that type in scope, an
empty enum, a polymorphic tail that nothing provides, an opaque contract)."""


class Unsynth(Exception):
    pass


# ----------------------------------------------------------------------------- s-expressions

def parse_sx(s):
    toks = s.replace("(", " ( ").replace(")", " ) ").split()
    pos = 0

    def one():
        nonlocal pos
        t = toks[pos]
        pos += 1
        if t == "(":
            items = []
            while toks[pos] != ")":
                items.append(one())
            pos += 1
            return items
        return t
    r = one()
    if pos != len(toks):
        raise ValueError("trailing tokens in " + s)
    return r


def show_sx(t):
    return t if isinstance(t, str) else "(" + " ".join(show_sx(x) for x in t) + ")"


def unhex(h):
    return bytes.fromhex(h[1:]).decode("utf-8")


def size(t):
    return 1 if isinstance(t, str) else sum(size(x) for x in t)


# ----------------------------------------------------------------------------- sub-annotations

def candidates(t):
    """Closed annotations derived from the sub-terms of t: a sub-term in positive position as it is,
    one in negative position as `U -> Dyn`, each under the foralls that bind its variables."""
    out = []

    def wrap(binders, u):
        for x, k in reversed(binders):
            u = ["all", x, k, u]
        return u

    def go(u, pos, binders):
        if isinstance(u, str):
            return
        out.append(wrap(binders, u if pos else ["fun", u, "Dyn"]))
        k = u[0]
        if k == "arr":
            go(u[1], pos, binders)
        elif k == "fun":
            go(u[1], not pos, binders)
            go(u[2], pos, binders)
        elif k == "rec":
            for row in u[2:]:
                go(row[1], pos, binders)
        elif k == "dict":
            # `{_ | C}`: the enclosing type variables are not in scope in C
            go(u[2], pos, binders if u[1] == "t" else [])
        elif k == "enum":
            for row in u[2:]:
                if len(row) == 2:
                    go(row[1], pos, binders)
        elif k == "all":
            go(u[3], pos, binders + [(u[1], u[2])])
    go(t, True, [])
    uniq, seen = [], set()
    for c in sorted(out, key=size):
        s = show_sx(c)
        if s not in seen:
            seen.add(s)
            uniq.append(c)
    return uniq


# ----------------------------------------------------------------------------- synthesis

class Ctx:
    def __init__(self, type_src=None):
        self.n = 0
        self.type_src = type_src      # parsed type -> Nickel source (for casts written by the typed side)

    def fresh(self, p):
        self.n += 1
        return "%s%d" % (p, self.n)


def fields_of(t):
    return [(unhex(r[0]), r[1]) for r in t[2:]]


def rows_of(t):
    return [(unhex(r[0]), r[1] if len(r) == 2 else None) for r in t[2:]]


def strip_all(t):
    while not isinstance(t, str) and t[0] == "all":
        t = t[3]
    return t


def from_env(t, env, typed, cx, depth):
    """a term of type t out of the variables in scope: a variable of exactly that type, or a
    function in scope returning it applied to inhabitants."""
    key = show_sx(t)
    for name, ty in reversed(env):
        if show_sx(strip_all(ty)) == key:
            return name
    if depth > 0:
        for name, ty in reversed(env):
            ty = strip_all(ty)
            if not isinstance(ty, str) and ty[0] == "fun" and show_sx(strip_all(ty[2])) == key:
                try:
                    return "(%s %s)" % (name, inhab(ty[1], env, typed, cx, depth - 1))
                except Unsynth:
                    pass
    raise Unsynth("nothing of type " + key)


def inhab(t, env, typed, cx, depth=3):
    """A conforming inhabitant of t, written by the typed (typed=True) or the untyped side."""
    t = strip_all(t)
    if t == "Num":
        return "0"
    if t == "Str":
        return '""'
    if t == "Bool":
        return "true"
    if t == "Dyn":
        return "(0 | Dyn)" if typed else "0"
    k = t[0]
    if k == "tv":
        if not typed:
            try:
                return from_env(t, env, typed, cx, depth)
            except Unsynth:
                return "0"          # the untyped side may instantiate a negative occurrence as it likes
        return from_env(t, env, typed, cx, depth)
    if k == "arr":
        try:
            return "[%s]" % inhab(t[1], env, typed, cx, depth)
        except Unsynth:
            return "[]"
    if k == "fun":
        x = cx.fresh("x")
        return "(fun %s => %s)" % (x, inhab(t[2], env + [(x, t[1])], typed, cx, depth))
    if k == "rec":
        if isinstance(t[1], list) and typed:      # polymorphic tail: only something in scope has it
            return from_env(t, env, typed, cx, depth)
        fs = ["%s = %s" % (f, inhab(ft, env, typed, cx, depth)) for f, ft in fields_of(t)]
        lit = "{ " + ", ".join(fs) + " }" if fs else "{}"
        if typed and t[1] == "dyn":
            # a record literal does not have an open type: off the probed path, a cast is harmless
            if not cx.type_src:
                raise Unsynth("no source for the cast to an open record type")
            return "(%s | %s)" % (lit, cx.type_src(t))
        return lit
    if k == "dict":
        try:
            return "{ k = %s }" % inhab(t[2], env, typed, cx, depth)
        except Unsynth:
            return "{}"
    if k == "enum":
        for tag, arg in rows_of(t):
            if arg is None:
                return "'" + tag
        for tag, arg in rows_of(t):
            try:
                return "('%s %s)" % (tag, inhab(arg, env, typed, cx, depth))
            except Unsynth:
                pass
        if isinstance(t[1], list) and not typed:
            return "'ZzOther"
        raise Unsynth("empty enum")
    if k == "op":
        return "(0 | Ctr0)" if typed else "0"
    raise Unsynth("no inhabitant for " + show_sx(t))


def violating(t, kind, env, cx):
    """what the untyped side hands over at the end of the path: fails exactly the check `kind`"""
    t = strip_all(t)
    k = kind.split(":")[0]
    if k == "number":
        return '"not a number"'
    if k == "string":
        return "1"
    if k == "bool":
        return "null"
    if k in ("isarray", "isrecord", "isenum", "isfun"):
        return "1" if k != "isfun" else '"not a function"'
    if k == "enumtag":
        return "'ZzUnknown"
    if k in ("hasfield", "noextra", "excluded"):
        fs = [(f, inhab(ft, env, False, cx)) for f, ft in fields_of(t)]
        if k == "hasfield":
            drop = unhex(kind.split(":")[1])
            fs = [(f, v) for f, v in fs if f != drop]
        elif k == "noextra":
            fs.append(("zz_extra", "1"))
        else:
            fs.append((unhex(kind.split(":")[1].split(",")[0]), "1"))
        return "{ " + ", ".join("%s = %s" % fv for fv in fs) + " }" if fs else "{}"
    raise Unsynth("no violating value for " + kind)


PROBED_KINDS = ("number", "string", "bool", "isarray", "isrecord", "isenum", "isfun", "enumtag",
                "hasfield", "noextra", "excluded")


def force(e, typed, result):
    # typed side: std.deep_seq : forall a. Dyn -> a -> a cannot be instantiated at a result type that
    # contains a forall, so it is used at Bool and sequenced with an `if`
    if typed:
        return "(if std.deep_seq (%s | Dyn) true then %s else %s)" % (e, result, result)
    return "(std.deep_seq %s %s)" % (e, result)


def provide(t, path, kind, env, typed, cx):
    """side `typed` builds a value of type t such that the walk continues along `path`"""
    t = strip_all(t)
    if not path:
        if typed:
            raise Unsynth("the typed side would have to violate the type")
        return violating(t, kind, env, cx)
    if isinstance(t, str):
        raise Unsynth("path into a ground type")
    st, k = path[0], t[0]
    if st == "C" and k == "fun":
        x = cx.fresh("x")
        return "(fun %s => %s)" % (x, provide(t[2], path[1:], kind, env + [(x, t[1])], typed, cx))
    if st == "D" and k == "fun":
        x = cx.fresh("x")
        env2 = env + [(x, t[1])]
        res = inhab(t[2], env2, typed, cx)
        return "(fun %s => %s)" % (x, consume(x, t[1], path[1:], kind, env2, typed, cx, res))
    if st == "E" and k == "arr":
        return "[%s]" % provide(t[1], path[1:], kind, env, typed, cx)
    if st == "I" and k == "dict":
        return "{ k = %s }" % provide(t[2], path[1:], kind, env if t[1] == "t" else [], typed, cx)
    if st.startswith("F:") and k == "rec":
        f0 = unhex(st[2:])
        if t[1] != "closed" and typed:
            raise Unsynth("typed side cannot build a record with an open tail without a cast (which would mask the check)")
        fs = []
        for f, ft in fields_of(t):
            fs.append("%s = %s" % (f, provide(ft, path[1:], kind, env, typed, cx) if f == f0 else inhab(ft, env, typed, cx)))
        return "{ " + ", ".join(fs) + " }"
    if st.startswith("V:") and k == "enum":
        tag = unhex(st[2:])
        arg = dict(rows_of(t)).get(tag)
        if arg is None:
            raise Unsynth("no such variant")
        return "('%s %s)" % (tag, provide(arg, path[1:], kind, env, typed, cx))
    raise Unsynth("path step %s does not fit %s" % (st, show_sx(t)))


def consume(e, t, path, kind, env, typed, cx, result):
    """side `typed` uses e : t along `path`; the expression has the type of `result`"""
    t = strip_all(t)
    if not path:
        if not typed:
            raise Unsynth("the check would blame the typed side")
        return force(e, typed, result)
    if isinstance(t, str):
        raise Unsynth("path into a ground type")
    st, k = path[0], t[0]
    if st == "C" and k == "fun":
        return consume("(%s %s)" % (e, inhab(t[1], env, typed, cx)), t[2], path[1:], kind, env, typed, cx, result)
    if st == "D" and k == "fun":
        return force("(%s %s)" % (e, provide(t[1], path[1:], kind, env, typed, cx)), typed, result)
    if st == "E" and k == "arr":
        return consume("(std.array.first %s)" % e, t[1], path[1:], kind, env, typed, cx, result)
    if st == "I" and k == "dict":
        return consume('(std.record.get "k" %s)' % e, t[2], path[1:], kind, env, typed, cx, result)
    if st.startswith("F:") and k == "rec":
        f0 = unhex(st[2:])
        return consume("%s.%s" % (e, f0), dict(fields_of(t))[f0], path[1:], kind, env, typed, cx, result)
    if st.startswith("V:") and k == "enum":
        tag = unhex(st[2:])
        arg = dict(rows_of(t)).get(tag)
        if arg is None:
            raise Unsynth("no such variant")
        y = cx.fresh("y")
        inner = consume(y, arg, path[1:], kind, env + [(y, arg)], typed, cx, result)
        return "(%s |> match { '%s %s => %s, _ => %s })" % (e, tag, y, inner, result)
    raise Unsynth("path step %s does not fit %s" % (st, show_sx(t)))


def probe_program(t, tsrc, check):
    """t: parsed type s-expression, tsrc: its Nickel source, check: 'path kind' as printed by the
    model.  Returns the program, or raises Unsynth."""
    p, kind = check.split(" ")
    path = [x for x in p.split("/") if x]
    if kind.split(":")[0] not in PROBED_KINDS:
        raise Unsynth("kind not probed: " + kind)
    cx = Ctx(src_of)
    impl = provide(t, path, kind, [], True, cx)
    use = consume("v", t, path, kind, [], False, cx, "0")
    prog = "let v : %s = %s in %s" % (tsrc, impl, use)
    if "Ctr0" in prog:
        prog = "let Ctr0 = std.contract.from_predicate (fun _ => true) in " + prog
    return prog


def src_of(t):
    """Nickel source of a parsed type without variables (used for casts to open record types)"""
    if isinstance(t, str):
        return {"Dyn": "Dyn", "Num": "Number", "Str": "String", "Bool": "Bool"}[t]
    k = t[0]
    if k == "arr":
        return "Array (%s)" % src_of(t[1])
    if k == "fun":
        return "(%s) -> (%s)" % (src_of(t[1]), src_of(t[2]))
    if k == "rec":
        if isinstance(t[1], list):
            raise Unsynth("cast with a polymorphic tail")
        rows = ", ".join("%s : %s" % (f, src_of(ft)) for f, ft in fields_of(t))
        return "{ %s%s }" % (rows, " ; Dyn" if t[1] == "dyn" else "")
    if k == "dict":
        return "{ _ %s %s }" % (":" if t[1] == "t" else "|", src_of(t[2]))
    if k == "enum":
        if isinstance(t[1], list):
            raise Unsynth("cast with a polymorphic tail")
        return "[| %s |]" % ", ".join("'" + tag if a is None else "'%s (%s)" % (tag, src_of(a)) for tag, a in rows_of(t))
    if k == "op":
        return "Ctr0"
    raise Unsynth("cast of a type with variables")
