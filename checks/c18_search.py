"""C18 — search for a concrete failing input, driven by what changed.

Used by checks/c18.py when a proof obligation / the ledger / a generated table is broken, or when a
function of the memory representation differs from the committed baseline.  Nothing here decides the
property: every hit is an observation on the IMPLEMENTATION (process death, panic / debug assertion,
shadow-copy mismatch, sanitizer report, reference count different from the proved protocol).

  focus(g)          which functions changed: sites unknown to / gone from the ledger (Mem/Ledger.v),
                    translator problems, callers of new functions, per-function source hashes that
                    differ from checks/c18_baseline.json
  programs          CONT: every primop of the lexer as the continuation on top of the stack (unary,
                    both binary positions, let-bound partial application) over an argument that is
                    sealed / fails / diverges -> peek_sealed_cont, unwind, drop_top with every operator;
                    FILL: bulk pushes (string chunks, equalities) at every fill level of the byte
                    stack around its capacity boundaries (depth x 9-byte alias sweep)
  histories         value-level histories biased towards the operations that reach the changed
                    function, each preceded by a clone half of the time (count 2 at that point)
"""
import hashlib
import json
import os
import re

from vlib import core
from checks import c18_translate as T

BASELINE = os.path.join(core.ROOT, "checks", "c18_baseline.json")


# --------------------------------------------------------------------------- what changed

def ledger_keys():
    src = open(os.path.join(core.COQ, "Mem", "Ledger.v")).read()
    return set(re.findall(r'^\s*\("((?:[^"]|"")*)",\s*(?:ByLemma|ByTagTest|Identity|LayoutOnly|Hook)', src, flags=re.M))


def fn_hashes(repo):
    """{file::impl::fn -> sha1 of the comment-free, whitespace-normalised text} for the four files."""
    res = {}
    for f in T.FILES:
        code = T.strip_comments(open(os.path.join(repo, f)).read())
        sc = T.scopes(code)
        for kind, name, a, b in sc:
            if kind != "fn":
                continue
            ctx = T.context(sc, a + 1)
            if ctx is None:
                continue
            key = "%s::%s::%s" % (os.path.basename(f), ctx[0], ctx[1])
            body = re.sub(r"\s+", " ", code[a:b + 1])
            h = hashlib.sha1(body.encode()).hexdigest()[:12]
            res[key] = h if key not in res else hashlib.sha1((res[key] + h).encode()).hexdigest()[:12]
    return res


def rebaseline(repo=None):
    json.dump(fn_hashes(repo or core.REPO), open(BASELINE, "w"), indent=0, sort_keys=True)


def site_fn(key):
    """'eval/stack.rs::Stack<C>::peek_sealed_cont:unsafe-block#1' -> ('stack.rs', 'peek_sealed_cont')"""
    m = re.match(r"[^/]*/([^:]+)::(.*)::([^:]+):[^:#]+(?::\w+)?#\d+$", key)
    if not m:
        return None
    return m.group(1), m.group(3).split("/")[-1]


def callers_of(repo, fname, name):
    """Functions of the same file that call `name`."""
    path = [f for f in T.FILES if f.endswith(fname)]
    if not path:
        return set()
    code = T.strip_comments(open(os.path.join(repo, path[0])).read())
    sc = T.scopes(code)
    res = set()
    for m in re.finditer(r"\b%s\s*(?:::<[^;(]*>)?\s*\(" % re.escape(name), code):
        if re.search(r"fn\s+$", code[max(0, m.start() - 12):m.start()]):
            continue
        ctx = T.context(sc, m.start())
        if ctx:
            res.add(ctx[1].split("/")[-1])
    return res


def focus(g, repo=None):
    """-> (set of (file, function), list of human-readable reasons)"""
    repo = repo or core.REPO
    foc, why = set(), []
    known = ledger_keys()
    now = set(s["key"] for s in g["sites"])
    for k in sorted(now - known):
        sf = site_fn(k)
        why.append("unsafe site not in the ledger: " + k)
        if sf:
            foc.add(sf)
    for k in sorted(known - now):
        sf = site_fn(k)
        why.append("ledger entry without a site (removed / moved): " + k)
        if sf:
            foc.add(sf)
    for p in g["problems"]:
        why.append("translator: " + p)
        m = re.match(r"(?:fn )?(\w+)", p)
        if m:
            foc.add(("stack.rs", m.group(1)))
    if os.path.exists(BASELINE):
        base = json.load(open(BASELINE))
        cur = fn_hashes(repo)
        for k in sorted(set(base) | set(cur)):
            if base.get(k) != cur.get(k):
                f, _, fn = k.split("::", 2)
                why.append("function differs from the baseline: " + k)
                foc.add((f, fn.split("/")[-1]))
    # a changed / new helper is reached through its callers
    for f, fn in list(foc):
        for c in callers_of(repo, f, fn):
            foc.add((f, c))
    return foc, why


# --------------------------------------------------------------------------- programs

def primops(repo=None):
    src = open(os.path.join(repo or core.REPO, "parser/src/lexer.rs")).read()
    return re.findall(r'#\[token\("(%[a-z_/0-9]+%)"\)', src)


CONSTS = ['"^a+$"', "1", '"k"', "{k = 1}", "[1, 2]", "'T"]
ARGS = ['"aaa"', "1", "{k = 1, l = 2}", "[1, 2]"]


def esc(p):
    return p.replace("\\", "\\\\").replace("\n", "\\n")


def fam_cont(rng, repo=None, per_op=None):
    """Every primop as the pending continuation over an abnormal argument: sealed by a polymorphic
    contract (-> peek_sealed_cont, then blame and unwind), failing, or black-holed; the operator
    applied directly (unary, both binary positions) or as a let-bound partial application (the
    operators that own data, e.g. compiled regular expressions, only exist that way)."""
    out = []
    bad = ['(1 + "a")', "(let rec y = y in y)"]
    sealed = "let f | forall a. a -> Dyn = fun x => %s in f %s"
    for i, op in enumerate(primops(repo)):
        progs = [sealed % ("%s x" % op, ARGS[i % len(ARGS)])]
        for j, c in enumerate(CONSTS):
            arg = ARGS[(i + j) % len(ARGS)]
            progs.append(sealed % ("%s x %s" % (op, c), arg))
            progs.append(sealed % ("%s %s x" % (op, c), arg))
            progs.append("let m = %s %s in " % (op, c) + sealed % ("m x", '"aaa"'))
            progs.append("let m = %s %s in " % (op, c) + sealed % ("m x", arg))
            progs.append("let m = %s %s in m %s" % (op, c, bad[j % 2]))
        progs.append("%s %s" % (op, bad[0]))
        progs.append("%s %s %s" % (op, CONSTS[i % len(CONSTS)], bad[1]))
        if per_op:
            progs = progs[:1] + rng.shuffle(progs[1:])[:per_op]
        for k, pr in enumerate(progs):
            out.append("%d\t%s" % (300 if k % 7 == 6 else 2000000, esc(pr)))
    # sealed record tails under record primops
    for body in ['%record/insert% "c" r 1', "r & {c = 1}", "%record/fields% r", '%record/remove% "a" r', "%record/values% r",
                 '%record/has_field% "b" r', "r.b", "%record/map% r (fun k v => v)", "r == r", '"%{r}"']:
        out.append("2000000\t" + esc("let f | forall t. {a : Number; t} -> Dyn = fun r => %s in f {a = 1, b = 2}" % body))
    return out


def fill_program(bottom, depth):
    return ('let s = "ab" in\nlet rec go = fun d =>\n  if d == 0 then\n    %s\n  else\n    1 + go (d - 1)\nin\ngo %d\n'
            % (bottom, depth))


def fam_fill(rng, quick=True):
    """Bulk pushes at every fill level of the stack: `depth` pending `1 + _` frames (81 bytes each)
    and `aliases` thunk update frames (9 bytes each) select the length of the byte vector when the
    chunks of a string / the equalities of two arrays are pushed."""
    out = []

    def bottom(kind, n, aliases):
        if kind == "str":
            e = '"' + "".join("%{s}-" for _ in range(n // 2)) + '"'
            use = "%string/length% "
        else:
            xs = "[" + ", ".join("s" for _ in range(n)) + "]"
            e = "(%s == %s)" % (xs, xs)
            use = "(fun b => if b then 1 else 0) "
        if aliases == 0:
            return use + e
        lets = "let v0 = %s in " % e + "".join("let v%d = v%d in " % (i, i - 1) for i in range(1, aliases))
        return lets + use + "v%d" % (aliases - 1)

    near = list(range(30, 62)) + list(range(84, 108))
    for kind in ("str", "eq"):
        for n in ((4, 12, 24) if quick else (2, 4, 6, 12, 16, 24, 40)):
            for d in near:
                for al in range(0, 9):
                    out.append("2000000\t" + esc(fill_program(bottom(kind, n, al), d)))
        for n in (128, 256, 512):
            for d in range(0, 64, 4):
                for al in (0, 4):
                    out.append("2000000\t" + esc(fill_program(bottom(kind, n, al), d)))
    return out


# --------------------------------------------------------------------------- histories

# categories of checks/c18.py Gen.step (value of `c`)
CAT = {"clone": 30, "drop": 44, "mm": 50, "cm": 60, "scmu": 66, "lens": 70, "retype": 76, "thunk": 90}

PROFILES = [
    (r"content_make_mut|make_mut|make_unique|try_make_mut|with_pos_idx|strong_clone|encode", ["mm", "scmu", "clone"]),
    (r"content_mut|try_get_mut|get_mut", ["cm", "clone"]),
    (r"lens|with_content|extract_or_clone|^content$|take|restore|extractor", ["lens", "clone"]),
    (r"^clone$|^drop$|drop_slow|ref_count|from_raw|try_from|^from$|raw_copy|^block$", ["clone", "drop", "lens"]),
    (r"thunk|data|closure|revert|saturate|update|build_cached|init_cached|map|lock|state|borrow", ["thunk", "retype", "clone"]),
]


def profile_for(foc):
    cats = set()
    for f, fn in foc:
        if f == "stack.rs":
            continue
        hit = False
        for pat, cs in PROFILES:
            if re.search(pat, fn) or (f == "lazy.rs" and "thunk" in cs):
                cats.update(cs)
                hit = True
        if not hit:
            cats.update(CAT)
    return sorted(cats)


# --------------------------------------------------------------------------- driver

def run(ck, c18, g, foc, why, rng, hook, fresh_model):
    """Runs the targeted search.  Returns the number of concrete violations reported."""
    before = len([v for v in ck.violations if not v["no_input"]])
    ck.coverage["search_focus"] = sorted("%s::%s" % x for x in foc)
    ck.coverage["search_reasons"] = why[:40]
    ck.log("search: focus", sorted(foc))
    quick = ck.tier == "quick"
    stack_changed = any(f == "stack.rs" for f, _ in foc) or not foc
    value_changed = any(f != "stack.rs" for f, _ in foc) or not foc
    n = {}
    if stack_changed:
        progs = fam_cont(rng.fork()) + fam_fill(rng.fork(), quick)
        n["programs"] = len(progs)
        c18.run_progs(ck, progs, label="search")
        if hook:
            scripts = [c18.gen_script(rng.fork(), 400) for _ in range(300 if quick else 3000)]
            n["stack_scripts"] = len(scripts)
            c18.run_stack(ck, scripts)
    if value_changed:
        cats = profile_for(foc) or sorted(CAT)
        cases = [c18.gen_history(rng.fork(), 40, focus=[CAT[c] for c in cats]) for _ in range(3000 if quick else 30000)]
        n["histories"] = len(cases)
        n["history_profile"] = cats
        c18.run_hist(ck, cases, hook, fresh_model=fresh_model)
    ck.coverage["search_inputs"] = n
    found = len([v for v in ck.violations if not v["no_input"]]) - before
    ck.coverage["search_found"] = found
    return found
