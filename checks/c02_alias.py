"""C02: type ALIASES (let-bound types) inside static annotations.

An alias `let T = <type> in ... : ... T ...` is a `TypeF::Contract(Var T)`: the simplifier leaves it
alone and it is turned into a contract of its own (own sealing-key counter, and — being the same
term at every use — equal to itself for contract deduplication).  Two families of programs, each
built from small tables (alias x context x behaviour of the untyped counterpart), every program also
in the form with the alias INLINED in the annotation:

  A. monomorphic higher-order aliases used at several positions of one annotation, around an
     identity-like typed implementation: the same value block meets the same contract twice with
     labels of opposite polarity (domain and codomain);
  B. polymorphic aliases (`forall a. a -> a`, ...) under foralls that survive static simplification
     (rank-2, enum rows), under an elided forall and alone, at both polarities, with conforming
     and non-parametric untyped counterparts.

Expected outcome of every program: stated in the tables (a conforming use gives the value the
program computes without annotations; a violation by the untyped side is a NEGATIVE blame; a typed
identity is never to blame).  Oracles: expected outcome; alias form == inlined form; default ==
static-full."""

# ----------------------------------------------------------------------------- family A

# (name, alias source, conforming element, how untyped code uses an element `e` (ok / bad argument),
#  an element whose RESULT violates the alias, value of the ok use)
MONO_ALIASES = [
    ("fun", "Number -> Number", "(fun x => x + 1)", "(%s 1)", '(%s "a")', '(fun x => "s")', "#2"),
    ("fun2", "Number -> String -> Number", "(fun x s => std.seq s x)", '(%s 1 "s")', '(%s 1 2)', "(fun x s => s)", "#1"),
    ("recfun", "{ g : Number -> Number }", "{ g = fun x => x + 1 }", "(%s.g 1)", '(%s.g "a")', '{ g = fun x => "s" }', "#2"),
    ("arrfun", "Array (Bool -> Bool)", "[fun b => b]", "((std.array.first %s) true)", "((std.array.first %s) 1)", "[fun b => 0]", "true"),
    ("dictfun", "{ _ : String -> String }", '{ k = fun s => s }', '(%s.k "v")', "(%s.k 1)", "{ k = fun s => 1 }", '"v"'),
]

# (name, wrapper type around the alias T, wrapper value around an element, access to the element of `c`)
WRAPPERS = [
    ("arr", "Array T", "[%s]", "(std.array.first %s)"),
    ("arrarr", "Array (Array T)", "[[%s]]", "(std.array.first (std.array.first %s))"),
    ("dictt", "{ _ : T }", "{ k = %s }", "%s.k"),
    ("dictc", "{ _ | T }", "{ k = %s }", "%s.k"),
    ("rec", "{ x : T }", "{ x = %s }", "%s.x"),
    ("bare", "T", "%s", "%s"),
]

# (name, annotation over the wrapper type W, typed implementation, call on the container `c`)
SHAPES = [
    ("id", "W -> W", "fun xs => xs", "(f %s)"),
    ("snd", "W -> W -> W", "fun xs ys => ys", "(f %s %s)"),
    ("fst", "W -> W -> W", "fun xs ys => xs", "(f %s %s)"),
    ("thunk", "W -> Dyn -> W", "fun xs d => xs", "(f %s null)"),
]


def family_a():
    """[(key, alias program, inlined program, expected outcome class or 'OK <tree>')]"""
    out = []
    for an, asrc, ok_el, use_ok, use_bad, bad_el, val in MONO_ALIASES:
        for wn, wty, wval, wacc in WRAPPERS:
            for sn, shape, impl, call in SHAPES:
                for ann in (":", "|"):
                    for scen in ("ok", "bad-arg", "bad-result"):
                        el = bad_el if scen == "bad-result" else ok_el
                        c = wval % el
                        got = wacc % (call.replace("%s", c))
                        use = (use_bad if scen == "bad-arg" else use_ok) % got
                        expected = "OK " + val if scen == "ok" else "ERR Blame-"
                        res = []
                        for tsrc in ("T", "(" + asrc + ")"):
                            w = wty.replace("T", tsrc)
                            annot = shape.replace("W", "(" + w + ")")
                            prog = "let f %s %s = %s in %s" % (ann, annot, impl, use)
                            if tsrc == "T":
                                prog = "let T = %s in %s" % (asrc, prog)
                            res.append(prog)
                        out.append(("%s/%s/%s/%s/%s" % (an, wn, sn, "ty" if ann == ":" else "ctr", scen), res[0], res[1], expected))
    return out


# ----------------------------------------------------------------------------- family B

# name, source, typed implementation, how TYPED code uses a value `e` of the alias type (the alias is
# opaque to the typechecker: through a cast to an instance) and the Number it yields for a conforming
# e, how UNTYPED code uses e and what it yields, conforming untyped implementation, non-parametric
# untyped implementations
POLY_ALIASES = [
    ("Id", "forall a. a -> a", "(fun x => x)",
     "((%s | Number -> Number) 41)", "#41", "(%s 41)", "#41",
     "(fun x => x)", ["(fun x => x + 1)", "(fun x => 0)"]),
    ("Konst", "forall a b. a -> b -> a", "(fun x y => x)",
     "((%s | Number -> Number -> Number) 41 1)", "#41", "(%s 41 1)", "#41",
     "(fun x y => x)", ["(fun x y => y)", "(fun x y => x + 0)"]),
    ("App", "forall a. (a -> a) -> a -> a", "(fun g x => g x)",
     "((%s | (Number -> Number) -> Number -> Number) (fun n => n + 1) 40)", "#41", "(%s (fun n => n + 1) 40)", "#41",
     "(fun g x => g x)", ["(fun g x => g 0)", "(fun g x => x + 1)"]),
    ("RowId", "forall r. { x : Number ; r } -> { x : Number ; r }", "(fun t => t)",
     "((%s | { x : Number, y : Number } -> { x : Number, y : Number }) { x = 41, y = 1 }).x", "#41",
     "(%s { x = 41, y = 1 }).y", "#1",
     "(fun t => t)", ["(fun t => { x = t.x })", "(fun t => { x = t.x, y = 1 })"]),
]


def family_b():
    """[(key, alias program, inlined program, expected)]"""
    out = []
    for an, asrc, timpl, tuse, tval, uuse, uval, uok, ubads in POLY_ALIASES:
        def both(key, template, expected):
            progs = []
            for a in ("A", "(" + asrc + ")"):
                p = template.replace("@A", a)
                if a == "A":
                    p = "let A = %s in %s" % (asrc, p)
                progs.append(p)
            out.append((an + "/" + key, progs[0], progs[1], expected))
        for ann in (":", "|"):
            k = "ty" if ann == ":" else "ctr"
            cast = lambda e: "(%s | @A)" % e
            # C1: rank-2, the alias in the argument of the plugin (typed helper handed to untyped plugin)
            t = "let run %s (forall s. @A -> s -> s) -> Number = fun plugin => plugin %s 1 in run %%s" % (ann, cast(timpl))
            both("rank2-helper/%s/ok" % k, t % ("(fun h st => std.seq %s st)" % (uuse % "h")), "OK #1")
            both("rank2-helper/%s/plugin-inspects-state" % k, t % "(fun h st => st + 1)", "ERR Blame-")
            both("rank2-helper/%s/plugin-fabricates-state" % k, t % "(fun h st => 7)", "ERR Blame-")
            # C2: enum-row forall (kept by simplify), the alias is the type of an untyped callback
            t = "let f %s forall e. @A -> [| 'A ; e |] -> Number = fun cb tag => %s in f %%s 'A" % (ann, tuse % "cb")
            both("enumrow-callback/%s/ok" % k, t % uok, "OK " + tval)
            for i, b in enumerate(ubads):
                both("enumrow-callback/%s/bad%d" % (k, i), t % b, "ERR Blame-")
            # C3: enum-row forall, the alias is the result type (typed value used by untyped code)
            t = "let mk %s forall e. [| 'A ; e |] -> @A = fun tag => %s in %s" % (ann, cast(timpl), uuse % "(mk 'A)")
            both("enumrow-result/%s/ok" % k, t, "OK " + uval)
            # C4: rank-2, the alias is the result of the plugin
            t = "let run %s (forall s. s -> @A) -> Number = fun plugin => %s in run %%s" % (ann, tuse % "(plugin 1)")
            both("rank2-result/%s/ok" % k, t % ("(fun st => %s)" % uok), "OK " + tval)
            for i, b in enumerate(ubads):
                both("rank2-result/%s/bad%d" % (k, i), t % ("(fun st => %s)" % b), "ERR Blame-")
            # C5: under a forall that the simplifier elides
            t = "let f %s forall b. @A -> b -> b = fun cb y => std.seq (%s | Dyn) y in f %%s 7" % (ann, tuse % "cb")
            both("elided-forall/%s/ok" % k, t % uok, "OK #7")
            for i, b in enumerate(ubads):
                both("elided-forall/%s/bad%d" % (k, i), t % b, "ERR Blame-")
            # C6: no enclosing forall, both polarities
            t = "let f %s @A -> Number = fun cb => %s in f %%s" % (ann, tuse % "cb")
            both("plain-arg/%s/ok" % k, t % uok, "OK " + tval)
            for i, b in enumerate(ubads):
                both("plain-arg/%s/bad%d" % (k, i), t % b, "ERR Blame-")
            t = "let g %s Number -> @A = fun n => %s in %s" % (ann, cast(timpl), uuse % "(g 0)")
            both("plain-result/%s/ok" % k, t, "OK " + uval)
    return out


# ----------------------------------------------------------------------------- cross-contract scenarios

def family_cross():
    """Programs whose expected blame relies on a seal made by one generated contract not being opened
    by another generated contract (every generated contract numbers its sealing keys from 0: known
    limitation, C11 key=cross-contract-key).  A typed helper of type `forall a. Dyn -> a` (obtained
    by a cast, it cannot be written in typed code) fabricates an `a` out of a sealed state."""
    out = []
    asrc = "forall a. Dyn -> a"
    for ann in (":", "|"):
        k = "ty" if ann == ":" else "ctr"
        for name, plugin in (("state-through-helper", "(fun h st => std.seq (h st) st)"),
                             ("constant-through-helper", "(fun h st => std.seq (h 5) st)")):
            t = "let run %s (forall s. @A -> s -> s) -> Number = fun plugin => plugin ((fun y => y) | @A) 1 in run %s" % (ann, plugin)
            out.append(("Leak/rank2-helper/%s/%s" % (k, name), "let A = %s in %s" % (asrc, t.replace("@A", "A")),
                        t.replace("@A", "(" + asrc + ")"), "ERR Blame+"))
    return out
